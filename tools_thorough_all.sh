#!/bin/bash
# run the thorough tier of all properties, 3 at a time; logs under /verif/.thorough_logs (ignored)
mkdir -p /verif/.thorough_logs
cd /verif
printf '%s\n' C01 C02 C03 C04 C05 C06 C07 C08 C09 C10 C11 C12 C13 C14 C15 C16 C17 C18 C19 C20 | xargs -P 3 -I{} sh -c './check {} --tier thorough > .thorough_logs/{}.log 2>&1; echo "{} rc=$?"'
