#!/usr/bin/env python3
"""Store a confirmed seeded change under seeded/<Cxx><suffix>/ (patch.diff, demo.py, notes.md, meta.json) from the
sub-agent's output directory and the confirmation written by tools_seed_verify.sh (/tmp/vfy_<tag>.json).
usage: tools_seed_store.py <wave> <suffix> <Cxx> "<status when the seed arrived>" [checks ...]"""
import json, os, shutil, sys
ROOT = os.path.dirname(os.path.abspath(__file__))
wave, suffix, pid, arrived = sys.argv[1], sys.argv[2], sys.argv[3], sys.argv[4]
checks = sys.argv[5:] or [pid]
src, tag = f"/tmp/seed{wave}_{pid}_out", pid + suffix
dst = os.path.join(ROOT, "seeded", tag)
os.makedirs(dst, exist_ok=True)
for f in ("patch.diff", "demo.py", "notes.md"):
    shutil.copy(os.path.join(src, f), os.path.join(dst, f))
v = json.load(open(f"/tmp/vfy_{tag}.json"))
meta = {
    "property": pid, "breaks": pid, "wave": int(wave),
    "source": "independent sub-agent given only the property text, one-line descriptions of the earlier changes to avoid, a required style and a scratch worktree; nothing from /verif",
    "needs_to_manifest": "see notes.md",
    "confirmed_by_me": {"patch_applies_to_HEAD": v["applies"], "demo_exit_with_patch": v["demo_with_patch_rc"], "demo_exit_without_patch": v["demo_clean_rc"],
                        "baseline_41_tests_pass_with_patch": v["baseline_ok"], "genjax_imported_from_scratch_worktree": v["genjax_imported_from"].startswith("/tmp/vfy_")},
    "commands": [f"TAG={tag} OUT={src} tools_seed_verify.sh {pid} " + " ".join(checks)],
    "history": {"checks_as_they_stood_when_the_seed_arrived": arrived},
    "checks_run_against_it": {c: {} for c in checks},
}
json.dump(meta, open(os.path.join(dst, "meta.json"), "w"), indent=1)
print("stored", dst, meta["confirmed_by_me"])
