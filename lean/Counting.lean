/-
Counting lemma used by the systematic-resampling contract (C12), machine-checked (Lean 4 + Mathlib), replacing the
assumption "counting integers in a half-open interval = floor difference" (DESIGN §5, A-MATH).

For sorted cumulative weights C the systematic sampler returns idx_j = #{k : C_k < (j+u)/n}; idx_j = i holds iff
n*C_{i-1} - u < j ≤ n*C_i - u.  The number of integers j in the half-open interval (x, y] is ⌊y⌋ - ⌊x⌋.
-/
import Mathlib

open Finset

/-- membership: an integer lies in the real half-open interval (x, y] iff it lies in the integer interval (⌊x⌋, ⌊y⌋] -/
theorem int_mem_Ioc_floor (x y : ℝ) (j : ℤ) :
    (x < (j : ℝ) ∧ (j : ℝ) ≤ y) ↔ j ∈ Finset.Ioc ⌊x⌋ ⌊y⌋ := by
  rw [Finset.mem_Ioc]
  constructor
  · rintro ⟨h1, h2⟩
    exact ⟨Int.floor_lt.mpr h1, Int.le_floor.mpr h2⟩
  · rintro ⟨h1, h2⟩
    exact ⟨Int.floor_lt.mp h1, Int.le_floor.mp h2⟩

/-- the integers of (x, y] are exactly the finite set Ioc ⌊x⌋ ⌊y⌋, whose cardinality is ⌊y⌋ - ⌊x⌋ (for x ≤ y) -/
theorem card_int_Ioc_real (x y : ℝ) (h : x ≤ y) :
    ((Finset.Ioc ⌊x⌋ ⌊y⌋).card : ℤ) = ⌊y⌋ - ⌊x⌋ := by
  rw [Int.card_Ioc]
  have : ⌊x⌋ ≤ ⌊y⌋ := Int.floor_le_floor h
  omega

/-- the instance used in the contract: copies of particle i = #{j : n*C_{i-1} - u < j ≤ n*C_i - u}
    = ⌊n*C_i - u⌋ - ⌊n*C_{i-1} - u⌋ -/
theorem systematic_copies (a b u : ℝ) (hab : a ≤ b) :
    ((Finset.Ioc ⌊a - u⌋ ⌊b - u⌋).card : ℤ) = ⌊b - u⌋ - ⌊a - u⌋ ∧
    ∀ j : ℤ, (a - u < (j : ℝ) ∧ (j : ℝ) ≤ b - u) ↔ j ∈ Finset.Ioc ⌊a - u⌋ ⌊b - u⌋ := by
  refine ⟨card_int_Ioc_real (a - u) (b - u) (by linarith), fun j => int_mem_Ioc_floor (a - u) (b - u) j⟩

/-- and the bracketing the contract then proves in linear arithmetic is also checked here:
    ⌊b - u⌋ - ⌊a - u⌋ ∈ {⌊b - a⌋, ⌊b - a⌋ + 1} -/
theorem copies_floor_or_succ (a b u : ℝ) (_hab : a ≤ b) :
    ⌊b - u⌋ - ⌊a - u⌋ = ⌊b - a⌋ ∨ ⌊b - u⌋ - ⌊a - u⌋ = ⌊b - a⌋ + 1 := by
  have h1 := Int.floor_le (b - u)
  have h2 := Int.lt_floor_add_one (b - u)
  have h3 := Int.floor_le (a - u)
  have h4 := Int.lt_floor_add_one (a - u)
  have h5 := Int.floor_le (b - a)
  have h6 := Int.lt_floor_add_one (b - a)
  have key : ((⌊b - u⌋ - ⌊a - u⌋ : ℤ) : ℝ) = (⌊b - u⌋ : ℝ) - (⌊a - u⌋ : ℝ) := by push_cast; ring
  have lo : ((⌊b - a⌋ : ℤ) : ℝ) - 1 < ((⌊b - u⌋ - ⌊a - u⌋ : ℤ) : ℝ) := by rw [key]; linarith
  have hi : ((⌊b - u⌋ - ⌊a - u⌋ : ℤ) : ℝ) < ((⌊b - a⌋ : ℤ) : ℝ) + 2 := by rw [key]; linarith
  have lo' : ⌊b - a⌋ - 1 < ⌊b - u⌋ - ⌊a - u⌋ := by exact_mod_cast lo
  have hi' : ⌊b - u⌋ - ⌊a - u⌋ < ⌊b - a⌋ + 2 := by exact_mod_cast hi
  omega

#print axioms int_mem_Ioc_floor
#print axioms card_int_Ioc_real
#print axioms systematic_copies
#print axioms copies_floor_or_succ
