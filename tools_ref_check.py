#!/usr/bin/env python3
"""Run corpus refactors (by id) against their properties' quick checks on scratch copies.
usage: tools_ref_check.py R16 R17 ..."""
import json, os, sys
ROOT = os.path.dirname(os.path.abspath(__file__))
sys.path.insert(0, ROOT)
from vt import thorough as T

corpus = {e["id"]: e for e in json.load(open(os.path.join(ROOT, "refactors", "corpus.json")))}
rc_all = 0
for rid in sys.argv[1:]:
    e = corpus[rid]
    for pid in e["props"]:
        mid, rc, out = T._run_variant(e, pid)
        lines = [l[:230] for l in (out or "").splitlines() if l.startswith(("VIOLATION", "UNDECIDED", "CHECKER"))]
        print(rid, pid, "rc=%s" % rc, *lines[:4], sep="\n  " if lines else " ")
        if rc not in (0,):
            rc_all = 1
sys.exit(rc_all)
