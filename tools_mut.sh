#!/bin/sh
# usage: tools_mut.sh '<sed expr>' <Cxx> [more props]  — applies sed to a scratch copy of src/genjax/core.py (or FILE=...), runs checks against it
set -e
D=$(mktemp -d /tmp/mutXXXX)
cp -r /repo/src "$D/src"
F=${FILE:-src/genjax/core.py}
sed -i "$1" "$D/$F"
if diff -q /repo/$F "$D/$F" >/dev/null; then echo "MUTATION DID NOT APPLY"; rm -rf "$D"; exit 9; fi
shift
for p in "$@"; do GENJAX_REPO="$D" /verif/.venv/bin/python -m vt.runner "$p" --only "${ONLY:-genjax}" 2>&1 | grep -v "^WARNING conda" | cut -c1-260 | tail -${TAIL:-6}; done
rm -rf "$D"
