#!/bin/bash
# usage: [TAG=Cxxb OUT=/tmp/seed2_Cxx_out] tools_seed_verify.sh Cxx [props-to-check...]
# Confirms a seeded change in a scratch worktree: demo fails with it / passes without it, the 41 baseline tests
# pass with it, and runs the registered checks against it.  Writes /tmp/vfy_Cxx.json; removes the worktree.
P=$1; shift; CHECKS=${@:-$P}
TAG=${TAG:-$P}; OUT=${OUT:-/tmp/seed_${P}_out}; W=/tmp/vfy_$TAG
git -C /repo worktree remove --force $W 2>/dev/null; rm -rf $W
git -C /repo worktree add -q $W HEAD || exit 9
if ! git -C $W apply $OUT/patch.diff; then echo '{"applies": false}' > /tmp/vfy_$TAG.json; git -C /repo worktree remove --force $W; exit 8; fi
cd $W
GENJAX_SRC=$W/src timeout 900 /venv/bin/python $OUT/demo.py > /tmp/vfy_${TAG}_demo_patched.log 2>&1; D1=$?
GENJAX_SRC=/repo/src timeout 900 /venv/bin/python $OUT/demo.py > /tmp/vfy_${TAG}_demo_clean.log 2>&1; D0=$?
PYTHONPATH=$W/src /venv/bin/python -m pytest -q -p no:cacheprovider --timeout=900 --continue-on-collection-errors --junitxml=/tmp/vfy_${TAG}_junit.xml > /tmp/vfy_${TAG}_pytest.log 2>&1
/venv/bin/python /verif/tools_baseline.py /tmp/vfy_${TAG}_junit.xml > /tmp/vfy_${TAG}_baseline.log 2>&1; B=$?
WHERE=$(PYTHONPATH=$W/src /venv/bin/python -c "import genjax; print(genjax.__file__)" 2>/dev/null | tail -1)
cd /verif
RES=""
for c in $CHECKS; do
  GENJAX_REPO=$W PYTHONDONTWRITEBYTECODE=1 JAX_PLATFORMS=cpu .venv/bin/python -m vt.runner $c --tier quick --only genjax > /tmp/vfy_${TAG}_check_$c.log 2>&1; RC=$?
  NV=$(grep -c "^VIOLATION" /tmp/vfy_${TAG}_check_$c.log)
  RES="$RES\"$c\": {\"rc\": $RC, \"violations\": $NV},"
done
echo "{\"applies\": true, \"demo_with_patch_rc\": $D1, \"demo_clean_rc\": $D0, \"baseline_ok\": $([ $B = 0 ] && echo true || echo false), \"genjax_imported_from\": \"$WHERE\", \"checks\": {${RES%,}}}" > /tmp/vfy_$TAG.json
git -C /repo worktree remove --force $W
cat /tmp/vfy_$TAG.json
