"""Native search: Fn.merge (real code) against the leaf-level spec on small compatible maps."""
from _common import *
import jax.numpy as jnp

f = gen(lambda: None)
maps = choice_maps() + [{"a": 9.0}, {"a": {"b": 7.0}}, {"c": {"a": 8.0}, "b": 6.0}]
# interior nodes whose children agree while the leaves below differ (depth 3 and 4), and empty sub-maps
maps += [{"z": 1.5, "a": {"b": {"d": 2.5}}}, {"a": {"b": {"c": 3.5}}}, {"a": {"b": {"c": 4.5, "d": 5.5}}}, {"k": {"k": {"a": {"a": 6.5}}}},
         {"k": {"k": {"a": {"b": 7.5}}}}, {"k": {"k": {"b": 8.5}}}, {}]
def compat(x, y):
    lx, ly = [p for p, _ in leaves(x)], [p for p, _ in leaves(y)]
    for p in lx:
        for q in ly:
            if p != q and (p[: len(q)] == q or q[: len(p)] == p):
                return False
    return True
n = 0
for x in maps:
    for y in maps:
        if not compat(x, y):
            continue
        n += 1
        m, d = f.merge(x, y)
        lx, ly = dict(leaves(x)), dict(leaves(y))
        want_m = {**lx, **ly}
        want_d = {p: v for p, v in lx.items() if p in ly}
        got_m = dict(leaves(m)); got_d = dict(leaves(d)) if d is not None else {}
        if got_m != want_m or got_d != want_d:
            emit({"confirmed": True, "function": "Fn.merge", "x": x, "x_": y, "observed": [str(got_m), str(got_d)], "required": [str(want_m), str(want_d)]})
            raise SystemExit(0)
        for c in (True, False):
            m, d = f.merge(x, y, jnp.array(c))
            got_m = {p: float(v) for p, v in leaves(m)}
            want = {p: (lx[p] if c else ly[p]) if (p in lx and p in ly) else (lx.get(p, ly.get(p))) for p in set(lx) | set(ly)}
            if got_m != want or d is not None:
                emit({"confirmed": True, "function": "Fn.merge(check)", "x": x, "x_": y, "check": c, "observed": str(got_m), "required": str(want), "discard": str(d)})
                raise SystemExit(0)
emit({"confirmed": False, "tried": n})
