"""Native(+substitute) replay for C09: the real mala / hmc run on a model with a vector-valued choice; the
built-in normal / uniform (which cannot run on this JAX) are substituted by jax.random equivalents with the
same call signature, `save` by a recorder.  usage: mcmc_noise.py mala|hmc"""
import sys
from _common import *
import jax, jax.numpy as jnp, jax.random as jrand
import genjax.inference.mcmc as M
from genjax.core import distribution, gen, sel

_k = [jrand.key(0)]
def _next():
    _k[0], s = jrand.split(_k[0]); return s
class _N:
    @staticmethod
    def sample(mu, sigma, sample_shape=()):
        return mu + sigma * jrand.normal(_next(), tuple(sample_shape))
    @staticmethod
    def logpdf(v, mu, sigma):
        return -0.5 * ((v - mu) / sigma) ** 2 - jnp.log(sigma) - 0.9189385
class _U:
    @staticmethod
    def sample(a, b, sample_shape=()):
        return jrand.uniform(_next(), tuple(sample_shape), minval=a + 1e-6, maxval=b)
saved = []
M.normal, M.uniform, M.save = _N, _U, (lambda **k: saved.append(k))

mvn = distribution(lambda mu: mu + jrand.normal(_next(), (3,)), lambda x, mu: jnp.sum(_N.logpdf(x, mu, 1.0)), name="iso")
@gen
def model():
    return mvn(jnp.zeros(3)) @ "x"
tr = model.simulate()
which = sys.argv[1]
try:
    if which == "mala":
        # capture the proposal through the update call
        seen = {}
        orig = model.update
        import genjax.core as C
        _u = C.Fn.update
        def spy(self, t, c, *a, **k):
            seen["c"] = c
            return _u(self, t, c, *a, **k)
        C.Fn.update = spy
        out = M.mala(tr, sel("x"), 0.1)
        C.Fn.update = _u
        x0 = tr.get_choices()["x"]
        grad = -(x0)  # grad log N(x;0,1)
        noise = (seen["c"]["x"] - x0 - (0.1 ** 2 / 2) * grad) / 0.1
        same = bool(jnp.allclose(noise, noise[0], atol=1e-5))
        emit({"confirmed": same, "tier": "native+substitute(normal,uniform,save)", "kernel": "mala", "choice_shape": [3],
              "observed": {"standardised_noise_per_coordinate": [float(v) for v in noise]}, "required": "three independent N(0,1) draws"})
    else:
        out = M.hmc(tr, sel("x"), 0.1, 3)
        acc = saved[-1]["accept"]
        emit({"confirmed": jnp.shape(acc) != (), "tier": "native+substitute(normal,uniform,save)", "kernel": "hmc",
              "observed": {"accept_shape": list(jnp.shape(acc))}, "required": "scalar accept decision for the whole move"})
except Exception as e:
    emit({"confirmed": True, "tier": "native+substitute(normal,uniform,save)", "kernel": which, "observed": "raised %s: %s" % (type(e).__name__, str(e)[:300]), "required": "a valid MH move on a vector-valued choice"})
