"""Native replay for pjax.FlatSamplerCache / sample_binder (C07, C06): one binder used for several sample sites of a
seeded program - a scalar-parameter site, then a vector-parameter site (positional and keyword) - gives the vector
site its own draw per element, exactly as a binder used for that site alone does.
usage: binder_reuse.py ; prints one JSON line"""
import sys
from _common import *
import jax, jax.numpy as jnp, jax.random as jrand
import numpy as np
import _compat

_compat.install()
from genjax.pjax import seed, sample_binder  # noqa: E402


def keyful(key, mu, scale=1.0, sample_shape=()):
    mu = jnp.asarray(mu) + 0.0 * jnp.asarray(scale)
    return mu + jnp.asarray(scale) * jrand.normal(key, tuple(sample_shape) + mu.shape)


fails = []
try:
    for label, second in [("positional", lambda b: b(jnp.zeros(4), 1.0)), ("keyword", lambda b: b(0.0, scale=jnp.ones(4)))]:
        first = (lambda b: b(0.0, 1.0)) if label == "positional" else (lambda b: b(0.0, scale=1.0))
        shared = sample_binder(keyful, name="n")
        out = seed(lambda: (first(shared), second(shared)))(jrand.key(3))
        vec = np.asarray(out[1], dtype=np.float64)
        if vec.shape != (4,) or len(np.unique(np.round(vec, 7))) != 4:
            fails.append({"scenario": "one binder: a scalar site, then a vector site (%s parameters), under seed" % label, "observed_vector_site": [float(x) for x in np.ravel(vec)], "required": "4 distinct draws (one per element)"})
except Exception as e:  # noqa: BLE001
    import traceback

    emit({"confirmed": False, "tier": "native", "error": "%s: %s" % (type(e).__name__, str(e)[:300]), "trace": traceback.format_exc()[-700:]})
    sys.exit(0)
emit({"confirmed": bool(fails), "tier": "native", "scenario": "binder reuse across sites of different parameter shapes", "failures": fails[:3]})
