"""Native(+substitute) replays for C11/C15 findings.  usage: adev_native.py parallel|geometric|estimate"""
import sys, math
from _common import *
import jax, jax.numpy as jnp, jax.random as jrand
import genjax.adev as A
from genjax.adev import Dual
which = sys.argv[1]
import numpy as np
def _ztl(v):  # JAX-0.11 compatible stand-in for _zero_tangent_like (ad.Zero.from_primal_value is gone)
    v = jnp.asarray(v)
    if jnp.issubdtype(v.dtype, jnp.floating):
        return jnp.zeros_like(v)
    return np.zeros(v.shape, jax.dtypes.float0)
A._zero_tangent_like = _ztl
try:
    if which == "parallel":
        # real prim_jvp_estimate with modular_vmap := jax.vmap and a continuation honouring the interpreter's
        # contract (one Dual per out variable -> Dual); f(True)=3, f(False)=-1; f'(True)=.5, f'(False)=.25
        A.modular_vmap = lambda f, **k: jax.vmap(f)
        def kdual(*duals):
            assert len(duals) == 1 and isinstance(duals[0], Dual), "continuation takes one Dual per out variable"
            b = duals[0].primal
            return Dual(jnp.where(b, 3.0, -1.0), jnp.where(b, 0.5, 0.25))
        out = A.flip_enum_parallel._sample.value.prim_jvp_estimate((Dual(jnp.array(0.3), jnp.array(2.0)),), (None, kdual)) if hasattr(A.flip_enum_parallel, "_sample") else A.FlipEnumParallel().prim_jvp_estimate((Dual(jnp.array(0.3), jnp.array(2.0)),), (None, kdual))
        want_p = 0.3 * 3.0 + 0.7 * -1.0
        want_t = 2.0 * (3.0 - -1.0) + 0.3 * 0.5 + 0.7 * 0.25
        ok = abs(float(out.primal) - want_p) < 1e-5 and abs(float(out.tangent) - want_t) < 1e-5
        def kdual2(*duals):
            assert len(duals) == 1 and isinstance(duals[0], Dual)
            k = duals[0].primal
            return Dual(jnp.float32(k) * 2.0 + 1.0, jnp.float32(k) * 0.1)
        lg = jnp.array([0.1, 0.5, -0.2]); dlg = jnp.array([1.0, 0.0, 0.0])
        out2 = A.CategoricalEnumParallel().prim_jvp_estimate((Dual(lg, dlg),), (None, kdual2))
        sm = jax.nn.softmax(lg); f = jnp.arange(3.0) * 2 + 1; df = jnp.arange(3.0) * 0.1
        wp, wt = jax.jvp(lambda l: jnp.sum(jax.nn.softmax(l) * f), (lg,), (dlg,))
        wt = wt + jnp.sum(sm * df)
        ok = ok and abs(float(out2.primal) - float(wp)) < 1e-5 and abs(float(out2.tangent) - float(wt)) < 1e-5
        emit({"confirmed": not ok, "tier": "native+substitute(modular_vmap := jax.vmap, python continuation)", "observed": [float(out.primal), float(out.tangent), float(out2.primal), float(out2.tangent)], "required": [want_p, want_t, float(wp), float(wt)]})
    elif which == "geometric":
        prim = A.geometric_reinforce._sample.value
        x = 0.3
        s = prim.keyful_sample_function.value(jrand.key(0), x, sample_shape=(20000,))
        emp = float(jnp.mean(s))
        # the density the estimator differentiates: the wrapper's own TFP closure (pure TFP, runs here)
        import genjax.distributions as D
        c = lambda f: dict(zip(f.__code__.co_freevars, f.__closure__ or ()))
        lp = c(D.geometric._logpdf.value)["logpdf"].cell_contents
        ks = jnp.arange(0, 200.0)
        mean_under_logpdf = float(jnp.sum(ks * jnp.exp(lp(ks, x))))
        emit({"confirmed": abs(emp - mean_under_logpdf) > 0.15, "tier": "native (TFP closures)", "input": "geometric_reinforce parameter x=0.3, 20000 keyed draws",
              "observed": {"mean_of_keyed_draws": emp}, "required": {"mean_under_the_estimators_logpdf": mean_under_logpdf}})
    elif which == "mvd_phantom":
        # REAL stack (compat shims only): a scalar flip_mvd site followed by a continuous site, jvp_estimate called six
        # times WITHOUT seed.  The phantom evaluation f(not b, downstream draw) must be a fresh evaluation of the rest of
        # the program each time (C11: "average - over all outcomes of their sites - to the exact derivative")
        import _compat
        _compat.install()
        import importlib
        A = importlib.import_module("genjax.adev")
        seen = []
        orig = A.FlipMVD.prim_jvp_estimate
        def spy(self, dual_tree, konts):
            kpure, kdual = konts
            def kd(*a):
                r = kdual(*a)
                seen.append(("dual", bool(np.asarray(a[0].primal)), float(np.asarray(r.primal))))
                return r
            def kp(*a):
                r = kpure(*a)
                seen.append(("pure", bool(np.asarray(a[0])), float(np.asarray(r[0]))))
                return r
            return orig(self, dual_tree, (kp, kd))
        A.FlipMVD.prim_jvp_estimate = spy
        @A.expectation
        def prog(p):
            b = A.flip_mvd(p)
            x = A.normal_reparam(0.0, 1.0)
            return x + 0.0 * jnp.where(b, 1.0, 0.0)
        calls = []
        for i in range(6):
            n0 = len(seen)
            prog.jvp_estimate(A.Dual(jnp.array(0.4), jnp.array(1.0)))
            calls.append(seen[n0:])
        # per call: evaluation at the drawn b, and the phantom evaluation at (not b); the downstream value of the phantom
        phantom = [[v for (_k, _b, v) in c][-1] for c in calls]
        sampled = [[v for (_k, _b, v) in c][0] for c in calls]
        frozen = len(set(round(v, 6) for v in phantom)) == 1
        emit({"confirmed": frozen, "tier": "native (real ADEV stack through the JAX compatibility shims, unseeded)",
              "input": "expectation(p -> b = flip_mvd(p); x = normal_reparam(0,1); return x), jvp_estimate(Dual(0.4, 1.0)) x 6",
              "observed": {"downstream_value_in_the_phantom_evaluation_per_call": phantom, "downstream_value_at_the_sampled_b_per_call": sampled, "continuations_used": [[k for (k, _b, _v) in c] for c in calls][:2]},
              "required": "six independent estimator calls evaluate the rest of the program afresh in the phantom term (distinct downstream draws)"})
    else:
        # real Expectation.estimate; the program transformation is replaced by jax.jvp (which C15 says it must equal)
        def _jvp_estimate(self, duals, kont):
            prim = jax.tree_util.tree_map(lambda d: d.primal, duals, is_leaf=lambda v: isinstance(v, Dual))
            tang = jax.tree_util.tree_map(lambda d: jnp.asarray(d.tangent), duals, is_leaf=lambda v: isinstance(v, Dual))
            p, t = jax.jvp(lambda x: jnp.sum(x.T @ x), prim, tang)
            return Dual(p, t)
        A.ADEVProgram.jvp_estimate = _jvp_estimate
        ex = A.expectation(lambda x: None)
        v = ex.estimate(jnp.ones((2, 3)))
        emit({"confirmed": abs(float(v) - 18.0) > 1e-5, "tier": "native+substitute(program transformation := jax.jvp)", "observed": float(v), "required": 18.0})
except Exception as e:
    emit({"confirmed": True, "tier": "native+substitute", "which": which, "observed": "raised %s: %s" % (type(e).__name__, str(e)[:300]), "required": "defined, exact value"})
