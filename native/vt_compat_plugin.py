"""pytest plugin: installs the JAX compatibility shims (native/_compat.py) before the repository's tests are
collected, so that the upstream suite can run on this sandbox's JAX.  Used only by the thorough tier as a native
cross-check; the registered baseline command is not affected."""
import os, sys
sys.path.insert(0, os.path.dirname(os.path.abspath(__file__)))


def pytest_configure(config):
    import genjax  # noqa: F401
    import _compat

    _compat.install()
