"""Native search: Fn.filter (real code, beartype on) against the leaf-level spec, on small inputs."""
from _common import *

f = gen(lambda: None)
n = 0
for name, s in selections(1):
    for x in choice_maps():
        n += 1
        xp, xm = f.filter(x, s)
        got_p = dict(leaves(xp)) if xp is not None else {}
        got_m = dict(leaves(xm)) if xm is not None else {}
        want_p = {p: v for p, v in leaves(x) if den(s, p)}
        want_m = {p: v for p, v in leaves(x) if not den(s, p)}
        if got_p != want_p or got_m != want_m:
            emit({"confirmed": True, "function": "Fn.filter", "selection": name, "choice_map": x,
                  "observed_selected_leaves": sorted(map(list, got_p)), "required_selected_leaves": sorted(map(list, want_p)),
                  "observed_unselected_leaves": sorted(map(list, got_m)), "required_unselected_leaves": sorted(map(list, want_m)),
                  "tried": n})
            raise SystemExit(0)
emit({"confirmed": False, "tried": n, "note": "no failing input among the enumerated small cases"})
