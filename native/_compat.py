"""JAX-side compatibility shims for native replays: genjax targets JAX 0.7, the sandbox has JAX 0.11.

Nothing in genjax's logic is replaced; each shim restores one JAX API point that genjax calls, with the meaning it had
in 0.7 (DESIGN.md §5 lists them; they are unchecked assumptions of every native replay that goes through
`genjax.pjax.stage`):

 S1 genjax.pjax.get_shaped_aval / jax._src.core.get_aval   -> jax._src.core.typeof
 S2 jax.extend.core.Var.count                              -> a unique hashable id per variable
 S3 jax.core.DropVar                                       -> jax._src.core.DropVar
 S4 Primitive.get_bind_params(params), for callers inside genjax, returns the 0.7 shape ([], params); for the scan
    primitive it also supplies num_consts / num_carry (from params['ft_in'], the 0.11 encoding of the same split) and a
    ClosedJaxpr body
 S5 ad.Zero.from_primal_value(v)                           -> Zero(typeof(v).to_tangent_aval())
 S6 ad.jvp(wrapped_fun).call_wrapped(primals, tangents) inside genjax.pjax (the default JVP rule of initial-style
    primitives)                                            -> jax.jvp of the same function, zeros instantiated
"""
import sys


def install():
    import jax
    import jax._src.core as src_core
    import jax.core as jc
    import jax._src.interpreters.ad as ad_src
    from genjax import pjax

    pjax.get_shaped_aval = lambda x: src_core.typeof(x)  # S1
    if not hasattr(src_core, "get_aval"):
        src_core.get_aval = src_core.typeof
    if not hasattr(src_core.Var, "count"):  # S2
        src_core.Var.count = property(lambda self: id(self))
    try:  # S3
        jc.DropVar
    except AttributeError:
        jc.DropVar = src_core.DropVar
    probe = src_core.Primitive.get_bind_params(jax.lax.add_p, {})  # S4
    if not isinstance(probe, tuple):

        def _wrap(cls):
            orig = cls.__dict__["get_bind_params"]
            if getattr(orig, "_vt_compat", False):
                return

            def get_bind_params(self, params, _orig=orig):
                caller = sys._getframe(1).f_globals.get("__name__", "")
                if not caller.startswith("genjax"):
                    return _orig(self, params)
                if self.name == "scan" and "num_consts" not in params and "ft_in" in params:
                    c_, k_, x_ = params["ft_in"].unpack()
                    jp = params["jaxpr"]
                    if not hasattr(jp, "consts"):
                        jp = src_core.ClosedJaxpr(jp, ())
                    return [], dict(params, num_consts=len(c_), num_carry=len(k_), jaxpr=jp)
                out = _orig(self, params)
                return out if isinstance(out, tuple) else ([], out)

            get_bind_params._vt_compat = True
            cls.get_bind_params = get_bind_params

        seen, todo = set(), [src_core.Primitive]
        while todo:
            c = todo.pop()
            if c in seen:
                continue
            seen.add(c)
            if "get_bind_params" in c.__dict__:
                _wrap(c)
            todo.extend(c.__subclasses__())
    if not hasattr(ad_src.Zero, "from_primal_value"):  # S5
        ad_src.Zero.from_primal_value = classmethod(lambda cls, v: cls(src_core.typeof(v).to_tangent_aval()))

    class _Jvp:  # S6
        def __init__(self, wrapped):
            self.w = wrapped

        def call_wrapped(self, primals, tangents):
            tangents = [ad_src.instantiate_zeros(t) for t in tangents]
            return jax.jvp(lambda *a: self.w.call_wrapped(*a), tuple(primals), tuple(tangents))

    class _Ad:
        def __getattr__(self, name):
            return getattr(pjax_ad, name)

        @staticmethod
        def jvp(wrapped, *a, **k):
            if a or k:
                return pjax_ad.jvp(wrapped, *a, **k)
            return _Jvp(wrapped)

    pjax_ad = pjax.ad
    if not isinstance(pjax_ad, _Ad) and type(pjax_ad).__name__ != "_Ad":
        pjax.ad = _Ad()
