"""Native cross-check for C19 through the public interface (real package, compatibility shims of _compat.py):
state(f) returns f's result and exactly what was saved, under the names and namespaces of the save calls - also when
state(step) is itself called from inside an open namespace (a nested collection consumed locally: the enclosing
namespace belongs to the OUTER collection, not to the inner one), eagerly and under jit, with vmap inside a namespace.
Context that exists only while the function is traced is outside what the contracts' model Jaxprs can express.
usage: state_collect.py ; prints one JSON line"""
import sys
from _common import *
import jax, jax.numpy as jnp
import numpy as np
import _compat

_compat.install()
from genjax.state import state, save, namespace  # noqa: E402


def tree_eq(a, b):
    la, ta = jax.tree_util.tree_flatten(a)
    lb, tb = jax.tree_util.tree_flatten(b)
    return ta == tb and all(np.allclose(np.asarray(x), np.asarray(y)) for x, y in zip(la, lb))


def show(t):
    return jax.tree_util.tree_map(lambda v: np.asarray(v).tolist(), t)


fails = []


def check(label, observed, expected):
    if not tree_eq(observed, expected):
        fails.append({"scenario": label, "observed": show(observed), "required": show(expected)})


try:
    x = jnp.float32(1.5)

    def f1(x):
        y = x * 2.0
        save(a=y)
        namespace(lambda: save(c=y * y), "sq")()
        return y + 1.0

    for tag, run in (("eager", state(f1)), ("jit", jax.jit(state(f1)))):
        r, c = run(x)
        check("plain save + namespace (%s): result" % tag, r, x * 2.0 + 1.0)
        check("plain save + namespace (%s): collected" % tag, c, {"a": x * 2.0, "sq": {"c": (x * 2.0) ** 2}})

    def make_step():
        def step(x):
            h = x + 1.0
            save(h=h)
            namespace(lambda: save(g=h * h), "inner")()
            return h * 3.0

        return step

    want_inner = {"h": x + 1.0, "inner": {"g": (x + 1.0) ** 2}}
    r, c = state(make_step())(x)
    check("state(step) on its own", c, want_inner)

    def diagnostics(x):
        r, inner = state(make_step())(x)  # a nested collection, consumed locally
        save(total=r)
        return r, inner

    (r, inner) = namespace(diagnostics, "diag")(x)
    check("state(step) called inside an open namespace (eager): the nested collection", inner, want_inner)
    for tag, run in (("eager", state(namespace(diagnostics, "diag"))), ("jit", jax.jit(state(namespace(diagnostics, "diag"))))):
        (r, inner), outer = run(x)
        check("nested state inside a namespace inside state (%s): inner collection" % tag, inner, want_inner)
        check("nested state inside a namespace inside state (%s): outer collection" % tag, outer, {"diag": {"total": (x + 1.0) * 3.0}})

    xs = jnp.arange(3.0)

    def f3(v):
        return namespace(lambda: jax.vmap(lambda e: save(e1=e + 1.0)["e1"])(v), "vm")()

    r, c = state(f3)(xs)
    check("vmap inside a namespace", c, {"vm": {"e1": xs + 1.0}})
except Exception as e:  # noqa: BLE001
    import traceback

    emit({"confirmed": False, "tier": "native", "error": "%s: %s" % (type(e).__name__, str(e)[:300]), "trace": traceback.format_exc()[-700:]})
    sys.exit(0)
emit({"confirmed": bool(fails), "tier": "native", "scenario": "state / save / namespace through the public interface", "failures": fails[:3]})
