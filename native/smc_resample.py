"""Native(+substitute) replay / cross-check for C12: the real resample / systematic_resample on concrete weight
vectors; uniform and categorical (cannot run on this JAX) substituted by jax.random equivalents."""
import math
from _common import *
import jax, jax.numpy as jnp, jax.random as jrand
import genjax.inference.smc as S
from genjax.core import Tr, const, gen

_k = [jrand.key(1)]
def _next():
    _k[0], s = jrand.split(_k[0]); return s
U = {"u": None}
class _U:
    @staticmethod
    def sample(a, b, sample_shape=()):
        # U["u"] is the draw's QUANTILE in the unit interval: the value handed out respects the bounds the code asked for
        # (an implementation may draw U(0,1) and divide by n, or draw U(0, 1/n) directly)
        return a + jnp.asarray(U["u"]) * (b - a) if U["u"] is not None else jrand.uniform(_next(), tuple(sample_shape), minval=a, maxval=b)
class _C:
    @staticmethod
    def sample(logits, sample_shape=()):
        return jrand.categorical(_next(), logits, shape=tuple(sample_shape))
S.uniform, S.categorical = _U, _C
f = gen(lambda: None)
fails = []
for w in [[0.1, 0.2, 0.3, 0.4], [0.25] * 4, [0.7, 0.1, 0.1, 0.05, 0.05], [1.0, 0.0, 0.0], [0.5, 0.5], [0.3, 0.3, 0.2, 0.1, 0.05, 0.05]]:
    n = len(w)
    lw = jnp.log(jnp.asarray(w) + 1e-30) + 2.5  # unnormalised
    tr = Tr(f, ((), {}), {"x": jnp.arange(n) * 10.0}, jnp.arange(n) * 100.0, jnp.arange(n) * 1.0)
    pc = S.ParticleCollection(traces=tr, log_weights=lw, diagnostic_weights=lw, n_samples=const(n), log_marginal_estimate=jnp.array(0.7))
    for method in ("categorical", "systematic"):
        for u in ([None] if method == "categorical" else [0.001, 0.25, 0.5, 0.75, 0.999]):
            U["u"] = u
            r = S.resample(pc, method=method)
            src = r.traces._choices["x"] / 10.0
            ok = bool(jnp.allclose(r.traces._retval, src * 100.0)) and bool(jnp.allclose(r.traces._score, src))
            ok = ok and bool(jnp.allclose(r.log_weights, 0.0)) and r.log_weights.shape == (n,)
            ok = ok and bool(jnp.allclose(r.log_marginal_likelihood(), pc.log_marginal_likelihood(), atol=1e-5))
            if method == "systematic":
                counts = [int(jnp.sum(src == i)) for i in range(n)]
                for i in range(n):
                    nw = n * w[i]
                    if not (math.floor(nw - 1e-6) <= counts[i] <= math.ceil(nw + 1e-6)):
                        ok = False
            if not ok:
                fails.append({"weights": w, "method": method, "u": u, "source_indices": [float(v) for v in src]})
# float32 effect the property still covers ("each an exact copy of an input particle ... for every value of its random
# offset in (0,1)"): with large-magnitude log weights the float32 cumulative sum of the normalised weights can end just
# below 1, so an offset close to 1 asks for index N; the gather must still return a copy of an input particle
import numpy as _np
n = 1000
lw = jnp.asarray(-3000.0 + 2.0 * _np.random.default_rng(0).standard_normal(n), dtype=jnp.float32)
tr = Tr(f, ((), {}), {"x": jnp.arange(n) * 10.0}, jnp.arange(n) * 100.0, jnp.arange(n) * 1.0)
pc = S.ParticleCollection(traces=tr, log_weights=lw, diagnostic_weights=lw, n_samples=const(n), log_marginal_estimate=jnp.array(0.7))
for u in (0.5, 0.93, 0.97, 0.995, 0.9999):
    U["u"] = u
    r = S.resample(pc, method="systematic")
    x = _np.asarray(r.traces._choices["x"]); rv = _np.asarray(r.traces._retval); sc = _np.asarray(r.traces._score)
    src = x / 10.0
    ok = bool(_np.all(_np.isfinite(x))) and bool(_np.all((src >= 0) & (src <= n - 1) & (src == _np.round(src)))) and bool(_np.allclose(rv, src * 100.0)) and bool(_np.allclose(sc, src))
    if not ok:
        bad = [int(i) for i in _np.nonzero(~_np.isfinite(x) | ~_np.isclose(rv, src * 100.0))[0][:3]]
        fails.append({"weights": "1000 log weights ~ N(-3000, 2) (float32)", "method": "systematic", "u": u, "output_particles_that_are_no_copy_of_an_input_particle": bad, "their_x": [float(x[i]) for i in bad]})
# log weights of LARGE MAGNITUDE with an ordinary spread (an unnormalised log likelihood of a long data set): the copy
# counts still follow the normalised weights (nothing may treat such a collection as "uniform")
for base in (-1.0e5, 4.0e4):
    rel = _np.array([0.0, 0.99, 0.99] + [-0.99] * 7, dtype=_np.float64)  # N w = 1.1, 3.0, 3.0, 0.41 x 7
    lw = jnp.asarray(base + rel, dtype=jnp.float32)
    n = len(rel)
    rel32 = _np.asarray(lw, dtype=_np.float64) - base
    wn = _np.exp(rel32 - rel32.max()); wn = wn / wn.sum()
    tr = Tr(f, ((), {}), {"x": jnp.arange(n) * 10.0}, jnp.arange(n) * 100.0, jnp.arange(n) * 1.0)
    pc = S.ParticleCollection(traces=tr, log_weights=lw, diagnostic_weights=lw, n_samples=const(n), log_marginal_estimate=jnp.array(0.7))
    for u in (0.1, 0.5, 0.9):
        U["u"] = u
        r = S.resample(pc, method="systematic")
        src = _np.asarray(r.traces._choices["x"]) / 10.0
        counts = [int((src == i).sum()) for i in range(n)]
        if any(not (math.floor(n * wn[i] - 1e-3) <= counts[i] <= math.ceil(n * wn[i] + 1e-3)) for i in range(n)):
            fails.append({"weights": "log weights %r + %r" % (base, [float(v) for v in rel32]), "method": "systematic", "u": u, "observed_copies": counts, "required_N_times_w": [round(float(n * v), 3) for v in wn]})
            break
# every particle count: the resampled collection has exactly N particles (an implementation that builds its N pointers
# with floating-point arithmetic must not gain or lose one for particular N)
for n in [1, 2, 3, 5, 7, 10, 16, 33, 49, 50, 64, 98, 100, 103, 107, 128, 161, 187, 196, 250, 500, 1000]:  # incl. counts where 1/(1/N) rounds above N
    lw = jnp.zeros(n)
    tr = Tr(f, ((), {}), {"x": jnp.arange(n) * 10.0}, jnp.arange(n) * 100.0, jnp.arange(n) * 1.0)
    pc = S.ParticleCollection(traces=tr, log_weights=lw, diagnostic_weights=lw, n_samples=const(n), log_marginal_estimate=jnp.array(0.7))
    U["u"] = 0.5
    try:
        r = S.resample(pc, method="systematic")
        shapes = [tuple(v.shape) for v in jax.tree_util.tree_leaves(r.traces)] + [tuple(r.log_weights.shape)]
        src = _np.asarray(r.traces._choices["x"]) / 10.0
        if any(sh[:1] != (n,) for sh in shapes) or (len(src) == n and not _np.array_equal(_np.sort(src), _np.arange(n))):
            fails.append({"weights": "%d equal weights" % n, "method": "systematic", "u": 0.5, "observed_leading_dims": sorted(set(sh[0] for sh in shapes)), "required": n})
            break
    except Exception as e:  # noqa: BLE001
        fails.append({"weights": "%d equal weights" % n, "method": "systematic", "observed": "raised %s: %s" % (type(e).__name__, str(e)[:160]), "required": "N particles"})
        break
# particles whose weight is exactly 0 (log weight -inf: a hard-zero likelihood) still count in the average weight:
# log_marginal_likelihood = estimate + log( (1/N) sum_i w_i ), for every N and every number of dead particles
for lw_list in ([0.3, -jnp.inf, -0.7, -jnp.inf], [-jnp.inf, 0.1], [0.2, 0.4, -jnp.inf]):
    n = len(lw_list)
    lw = jnp.asarray(lw_list)
    tr = Tr(f, ((), {}), {"x": jnp.arange(n) * 10.0}, jnp.arange(n) * 100.0, jnp.arange(n) * 1.0)
    pc = S.ParticleCollection(traces=tr, log_weights=lw, diagnostic_weights=lw, n_samples=const(n), log_marginal_estimate=jnp.array(0.7))
    want = 0.7 + math.log(sum(math.exp(v) for v in lw_list if v != -jnp.inf) / n)
    got = float(pc.log_marginal_likelihood())
    if abs(got - want) > 1e-5:
        fails.append({"weights": [str(v) for v in lw_list], "function": "log_marginal_likelihood", "observed": got, "required": want})
    # a dead particle (weight exactly 0) is never copied, the others get floor / ceil of N w_i copies
    wn = _np.array([0.0 if v == -jnp.inf else math.exp(v) for v in lw_list]); wn = wn / wn.sum()
    for u in (0.001, 0.3, 0.6, 0.999):
        U["u"] = u
        r = S.resample(pc, method="systematic")
        src = _np.asarray(r.traces._choices["x"]) / 10.0
        counts = [int((src == i).sum()) for i in range(n)]
        if any(not (math.floor(n * wn[i] - 1e-6) <= counts[i] <= math.ceil(n * wn[i] + 1e-6)) for i in range(n)):
            fails.append({"weights": [str(v) for v in lw_list], "method": "systematic", "u": u, "observed_copies": counts, "required_N_times_w": [round(float(n * v), 3) for v in wn]})
            break
    U["u"] = None
    r = S.resample(pc, method="categorical")
    got_r = float(r.log_marginal_estimate)
    if abs(got_r - want) > 1e-5:
        fails.append({"weights": [str(v) for v in lw_list], "function": "resample -> log_marginal_estimate", "observed": got_r, "required": want})
emit({"confirmed": bool(fails), "tier": "native+substitute(uniform,categorical)", "failures": fails[:3]})
