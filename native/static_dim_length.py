"""Native replay: pjax.static_dim_length on a leafless mapped argument (empty constraint)."""
from _common import *
import jax.numpy as jnp
import genjax.pjax as pjax
try:
    r = pjax.static_dim_length((0, 0), (None, jnp.zeros((4, 2))))
    emit({"confirmed": r != 4, "observed": r, "required": 4, "input": "static_dim_length((0, 0), (None, zeros((4,2))))"})
except Exception as e:
    emit({"confirmed": True, "input": "static_dim_length((0, 0), (None, zeros((4,2)))) — what Vmap.generate(None, xs) does", "observed": "raised %s: %s" % (type(e).__name__, e), "required": 4})
