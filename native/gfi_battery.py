"""Native replays for C01-C05/C08 obligations: concrete programs built from `genjax.distribution` objects
with plain Python sampler/logpdf (the built-in distributions cannot run on this sandbox's JAX), run
through the real package with beartype on.  usage: gfi_battery.py <scenario>"""
import sys
from _common import *
import jax, jax.numpy as jnp
from genjax.core import distribution, Cond, Scan, Vmap, const, Tr, CondTr, gen, sel, Const
import genjax.core as C

_draws = iter(range(1, 10**6))
def _sample(mu, sigma=1.0):
    return jnp.asarray(mu + 0.37 * next(_draws) % 1.7, dtype=jnp.float32)
def _logpdf(x, mu, sigma=1.0):
    return -0.5 * ((x - mu) / sigma) ** 2 - jnp.log(sigma) - 0.9189385
nrm = distribution(_sample, _logpdf, name="nrm")
def _sample2(mu, sigma=1.0):
    return jnp.asarray(mu - 0.21 * next(_draws) % 1.3, dtype=jnp.float32)
def _logpdf2(x, mu, sigma=1.0):
    return -jnp.abs(x - mu) / sigma - jnp.log(2 * sigma)
lap = distribution(_sample2, _logpdf2, name="lap")

def close(a, b, tol=1e-4):
    return bool(jnp.all(jnp.abs(jnp.asarray(a) - jnp.asarray(b)) <= tol * (1 + jnp.abs(jnp.asarray(b)))))

def sc_cond_update():
    @gen
    def b1(m):
        return nrm(m, 1.0) @ "v"
    @gen
    def b2(m):
        return lap(m + 3.0, 2.0) @ "v"
    cond = Cond(b1, b2)
    @gen
    def model(flag, m):
        return cond(flag, m) @ "c"
    out = []
    for f0, f1 in [(True, False), (False, True), (True, True)]:
        tr = model.simulate(jnp.array(f0), 0.5)
        old = tr.get_choices()
        new_tr, w, d = model.update(tr, {"c": {"v": jnp.array(1.25)}}, jnp.array(f1), 0.7)
        lp_new, _ = model.assess(new_tr.get_choices(), jnp.array(f1), 0.7)
        lp_old, _ = model.assess(old, jnp.array(f0), 0.5)
        req_w = lp_new - lp_old
        ok_w = close(w, req_w)
        ok_d = close(d["c"]["v"], old["c"]["v"])
        back, w2, _ = model.update(new_tr, d, jnp.array(f0), 0.5)
        ok_rt = close(back.get_choices()["c"]["v"], old["c"]["v"]) and close(w2, -req_w)
        if not (ok_w and ok_d and ok_rt):
            return {"confirmed": True, "scenario": "Cond.update old_check=%s new_check=%s" % (f0, f1),
                    "observed": {"weight": float(w), "discard": float(d["c"]["v"]), "roundtrip_weight": float(w2)},
                    "required": {"weight": float(req_w), "discard": float(old["c"]["v"]), "roundtrip_weight": float(-req_w)}}
    return {"confirmed": False}

def sc_cond_dist_branches():
    cond = Cond(nrm, lap)
    try:
        tr = cond.simulate(jnp.array(True), 0.5, 1.0)
        new_tr, w, d = cond.update(tr, jnp.array(2.0), jnp.array(True), 0.5, 1.0)
        ok = close(d, tr.get_choices())
        tr2, w2, d2 = cond.regenerate(tr, sel(()), jnp.array(True), 0.5, 1.0)
        ok = ok and close(d2, tr.get_choices()) and close(w2, 0.0)
        if not ok:
            return {"confirmed": True, "scenario": "Cond of two distributions", "observed": [float(d), float(d2)], "required": float(tr.get_choices())}
    except Exception as e:
        return {"confirmed": True, "scenario": "Cond(nrm, lap).update / regenerate", "observed": "raised %s: %s" % (type(e).__name__, str(e)[:200]), "required": "defined"}
    return {"confirmed": False}

def sc_cond_mixed_dtypes():
    """branches whose return values have different dtypes (an integer count vs a real level): the Cond returns the
    taken branch's VALUE, in simulate, assess and the trace"""
    cnt = distribution(lambda r: jnp.asarray(3, dtype=jnp.int32), lambda x, r: -0.3 * jnp.abs(x - r), name="cnt")
    @gen
    def count_branch(r):
        return cnt(r) @ "y"
    @gen
    def level_branch(r):
        return nrm(r, 0.7) @ "y"
    for first, second, flag in [(count_branch, level_branch, False), (level_branch, count_branch, True)]:
        cond = Cond(first, second)
        try:
            tr = cond.simulate(jnp.array(flag), 2.5)
            y = tr.get_choices()["y"]
            lp, r = cond.assess({"y": jnp.asarray(2.6, dtype=jnp.float32)}, jnp.array(flag), 2.5)
            if not close(tr.get_retval(), y):
                return {"confirmed": True, "scenario": "Cond(int-valued branch, float-valued branch).simulate, float branch taken", "observed": float(tr.get_retval()), "required": float(y)}
            if not close(r, 2.6):
                return {"confirmed": True, "scenario": "Cond(int-valued branch, float-valued branch).assess({'y': 2.6}), float branch taken", "observed": float(r), "required": 2.6}
        except Exception as e:
            return {"confirmed": True, "scenario": "Cond with branches of different return dtypes", "observed": "raised %s: %s" % (type(e).__name__, str(e)[:200]), "required": "defined"}
    return {"confirmed": False}

def sc_cond_mixture_indicator():
    """C09's mixture-indicator move at the GFI level: regenerate of the indicator z of  y ~ Cond(N(-3,1), N(3,1))(z)  with
    y observed: the weight is log p(y | z') - log p(y | z) (nothing inside the Cond is selected)"""
    draws = iter([True, False, False, True])
    ind = distribution(lambda p: jnp.asarray(next(draws)), lambda x, p: jnp.where(x, jnp.log(p), jnp.log1p(-p)), name="ind")
    @gen
    def left():
        return nrm(-3.0) @ "y"
    @gen
    def right():
        return nrm(3.0) @ "y"
    @gen
    def model():
        z = ind(0.3) @ "z"
        return Cond(left, right)(z) @ "obs"
    try:
        tr, _ = model.generate({"z": jnp.asarray(True), "obs": {"y": jnp.asarray(2.5)}})
        lp_old, _ = model.assess(tr.get_choices())
        pz = lambda z: jnp.where(z, jnp.log(0.3), jnp.log1p(-0.3))
        for _k in range(3):
            t2, w2, _d = model.regenerate(tr, sel("z"))
            c2 = t2.get_choices()
            lp_new, _ = model.assess(c2)
            req = (lp_new - lp_old) - (pz(c2["z"]) - pz(tr.get_choices()["z"]))
            if not close(w2, req, 1e-3) or not close(c2["obs"]["y"], 2.5) or not close(t2.get_score(), -lp_new, 1e-3):
                return {"confirmed": True, "scenario": "regenerate(sel('z')) on z ~ ind(0.3); y ~ Cond(N(-3,1), N(3,1))(z), y = 2.5 observed, z: True -> %s" % bool(c2["z"]),
                        "observed": {"weight": float(w2), "y": float(c2["obs"]["y"]), "score": float(t2.get_score())}, "required": {"weight": float(req), "y": 2.5, "score": float(-lp_new)}}
    except Exception as e:
        return {"confirmed": True, "scenario": "mixture-indicator regenerate", "observed": "raised %s: %s" % (type(e).__name__, str(e)[:200]), "required": "defined"}
    return {"confirmed": False}

def sc_scan_python_int_carry():
    """Scan(step)(0, xs): a Python-int initial carry with a step that hands back a float carry is the same model as
    starting from 0.0 (JAX promotes the weakly typed 0): assess = sum of the step densities along the REAL carry"""
    @gen
    def step(c, x):
        z = nrm(c + x, 1.0) @ "z"
        return z * 0.5 + 0.25, z
    sc = Scan(step, length=const(3))
    xs = jnp.arange(3.0)
    zs = jnp.asarray([0.7, 1.9, 2.2], dtype=jnp.float32)
    try:
        res = {}
        for name, init in (("0", 0), ("0.0", 0.0)):
            lp, (carry, outs) = sc.assess({"z": zs}, init, xs)
            res[name] = (float(lp), float(carry))
        c, want = 0.0, 0.0
        for t in range(3):
            want += float(_logpdf(zs[t], c + float(xs[t]), 1.0)); c = float(zs[t]) * 0.5 + 0.25
        for name, (lp, carry) in res.items():
            if not close(lp, want, 1e-4) or not close(carry, c, 1e-4):
                return {"confirmed": True, "scenario": "Scan(step).assess with initial carry written %s, step carry z/2 + 1/4" % name, "observed": {"log_density": lp, "final_carry": carry}, "required": {"log_density": want, "final_carry": c}}
    except Exception as e:
        return {"confirmed": True, "scenario": "Scan(step)(0, xs)", "observed": "raised %s: %s" % (type(e).__name__, str(e)[:200]), "required": "defined (same as 0.0)"}
    return {"confirmed": False}

def sc_scan_regenerate():
    @gen
    def step(c, x):
        z = nrm(c + x, 1.0) @ "z"
        return z, z
    sc = Scan(step, length=const(3))
    xs = jnp.arange(3.0)
    tr = sc.simulate(0.0, xs)
    @gen
    def outer():
        return sc(0.0, xs) @ "s"
    tro = outer.simulate()
    for name, gf, t, args, selection in [
        ("Scan(step).regenerate sel('z')", sc, tr, (0.0, xs), sel("z")),
        ("Scan(step).regenerate sel()", sc, tr, (0.0, xs), sel()),
        ("enclosing Fn regenerate sel()", outer, tro, (), sel()),
        ("enclosing Fn regenerate sel(('s','z'))", outer, tro, (), sel(("s", "z"))),
    ]:
        try:
            t2, w, d = gf.regenerate(t, selection, *args)
            lp, _ = gf.assess(t2.get_choices(), *args)
            if not close(t2.get_score(), -lp):
                return {"confirmed": True, "scenario": name, "observed": float(t2.get_score()), "required": float(-lp)}
        except Exception as e:
            return {"confirmed": True, "scenario": name, "observed": "raised %s: %s" % (type(e).__name__, str(e)[:200]), "required": "defined for every program and selection"}
    return {"confirmed": False}

def sc_vmap_int_axes():
    try:
        v = nrm.vmap()  # default in_axes=0
        C.modular_vmap  # noqa
        import genjax.core as core
        core.modular_vmap = lambda f, in_axes=0, axis_size=None, axis_name=None, spmd_axis_name=None: jax.vmap(f, in_axes=in_axes, axis_size=axis_size)
        x = jnp.array([0.1, 0.2, 0.3]); mu = jnp.array([0.0, 1.0, 2.0]); sg = jnp.array([1.0, 2.0, 3.0])
        lp, r = v.assess(x, mu, sg)
        req = sum(_logpdf(x[i], mu[i], sg[i]) for i in range(3))
        if not close(lp, req):
            return {"confirmed": True, "tier": "native+vmap-substitute", "scenario": "nrm.vmap().assess", "observed": float(lp), "required": float(req)}
    except Exception as e:
        return {"confirmed": True, "tier": "native+vmap-substitute", "scenario": "nrm.vmap().assess(x, mu, sigma) with the default in_axes=0", "observed": "raised %s: %s" % (type(e).__name__, str(e)[:200]), "required": "sum of lane densities"}
    return {"confirmed": False, "tier": "native+vmap-substitute"}

def sc_vmap_kwargs():
    try:
        import genjax.core as core
        core.modular_vmap = lambda f, in_axes=0, axis_size=None, axis_name=None, spmd_axis_name=None: (lambda *a: jax.vmap(f, in_axes=in_axes, axis_size=axis_size)(*a))
        v = nrm.vmap(in_axes=(0,))
        lp, r = v.assess(jnp.array([0.1, 0.2]), jnp.array([0.0, 1.0]), sigma=2.0)
        req = sum(_logpdf(jnp.array([0.1, 0.2])[i], jnp.array([0.0, 1.0])[i], 2.0) for i in range(2))
        if not close(lp, req):
            return {"confirmed": True, "tier": "native+vmap-substitute", "scenario": "vmap with kwargs", "observed": float(lp), "required": float(req)}
    except Exception as e:
        return {"confirmed": True, "tier": "native+vmap-substitute (wrapper with pjax.modular_vmap's signature `wrapped(*args)`)", "scenario": "nrm.vmap(in_axes=(0,)).assess(x, mu, sigma=2.0)", "observed": "raised %s: %s" % (type(e).__name__, str(e)[:200]), "required": "sum of lane densities"}
    return {"confirmed": False}

def sc_condtr_args():
    @gen
    def b1(m):
        return nrm(m, 1.0) @ "v"
    @gen
    def b2(m):
        return lap(m, 2.0) @ "v"
    cond = Cond(b1, b2)
    tr = cond.simulate(jnp.array(True), 0.5)
    try:
        a = tr.get_args()
        t2, w, d = cond.update(tr, {"v": jnp.array(0.3)}, *a[0], **a[1])
        t3, w3, d3 = tr.update({"v": jnp.array(0.3)})
        if not close(w, w3):
            return {"confirmed": True, "scenario": "CondTr.get_args", "observed": float(w3), "required": float(w)}
    except Exception as e:
        return {"confirmed": True, "scenario": "cond.update(tr, x, *tr.get_args()[0], **tr.get_args()[1]) as mh/mala/hmc and Trace.update do", "observed": "raised %s: %s; get_args() = %r" % (type(e).__name__, str(e)[:150], str(tr.get_args())[:150]), "required": "(args, kwargs) format"}
    return {"confirmed": False}

def sc_condtr_batched():
    @gen
    def b1(m):
        return nrm(m, 1.0) @ "v"
    cond = Cond(b1, b1)
    t1 = Tr(b1, ((jnp.zeros(2),), {}), {"v": jnp.array([0.1, 0.2])}, jnp.array([0.1, 0.2]), jnp.array([1.0, 2.0]))
    t2 = Tr(b1, ((jnp.zeros(2),), {}), {"v": jnp.array([0.3, 0.4])}, jnp.array([0.3, 0.4]), jnp.array([10.0, 20.0]))
    ct = CondTr(cond, jnp.array([True, False]), [t1, t2])
    s = ct.get_score()
    req = 1.0 + 20.0
    if jnp.shape(s) != () or not close(s, req):
        return {"confirmed": True, "scenario": "vectorised CondTr (what Vmap(Cond).simulate / Scan(Cond).simulate return): check=[T,F], lane scores [1,2] / [10,20]", "observed": str(s), "required": req}
    return {"confirmed": False}



def sc_generic():
    """battery: property-level statements of C01-C05 on concrete programs (Fn / nested Fn / Scan / Cond)"""
    import itertools as it
    @gen
    def inner(m):
        a = nrm(m, 1.0) @ "a"
        b = lap(a, 2.0) @ "b"
        return a + b
    @gen
    def step(c, x):
        z = nrm(c + x, 1.0) @ "z"
        return z, z * 2.0
    @gen
    def b1(m):
        return nrm(m, 1.0) @ "v"
    @gen
    def b2(m):
        return lap(m + 3.0, 2.0) @ "v"
    sc = Scan(step, length=const(3))
    cond = Cond(b1, b2)
    xs = jnp.arange(3.0)
    @gen
    def model(m, flag, scale=1.0):
        x = nrm(m, scale) @ "x"
        r = inner(x) @ "sub"
        (c, outs) = sc(r, xs) @ "scan"
        v = cond(flag, c) @ "cnd"
        y = lap(v, 1.0) @ "y"
        return y + jnp.sum(outs)
    def flat(x, p=()):
        if isinstance(x, dict):
            for k, v in x.items():
                yield from flat(v, p + (k,))
        else:
            yield p, x
    def manual(ch, m, flag, scale):
        lp = _logpdf(ch["x"], m, scale)
        lp += _logpdf(ch["sub"]["a"], ch["x"], 1.0) + _logpdf2(ch["sub"]["b"], ch["sub"]["a"], 2.0)
        r = ch["sub"]["a"] + ch["sub"]["b"]
        c = r
        outs = []
        for t in range(3):
            z = ch["scan"]["z"][t]
            lp += _logpdf(z, c + xs[t], 1.0)
            c = z; outs.append(z * 2.0)
        v = ch["cnd"]["v"]
        lp += _logpdf(v, c, 1.0) if flag else _logpdf2(v, c + 3.0, 2.0)
        lp += _logpdf2(ch["y"], v, 1.0)
        return lp, ch["y"] + sum(outs)
    fails = []
    def chk(name, ok, obs=None, req=None):
        if not ok:
            fails.append({"check": name, "observed": str(obs)[:200], "required": str(req)[:200]})
    for flag in (True, False):
        a = (0.3, jnp.array(flag)); kw = {"scale": 1.5}
        tr = model.simulate(*a, **kw)
        ch = tr.get_choices()
        lp, r = model.assess(ch, *a, **kw)
        mlp, mr = manual(ch, 0.3, flag, 1.5)
        chk("C01 assess = sum of site log probabilities", close(lp, mlp), lp, mlp)
        chk("C01 assess retval", close(r, mr), r, mr)
        chk("C01 simulate score = -assess", close(tr.get_score(), -lp), tr.get_score(), -lp)
        chk("C01 simulate retval", close(tr.get_retval(), r), tr.get_retval(), r)
        # C02
        t0, w0 = model.generate(None, *a, **kw); chk("C02 weight 0 unconstrained", close(w0, 0.0), w0, 0.0)
        t1, w1 = model.generate(ch, *a, **kw); chk("C02 full constraint weight = assess", close(w1, lp), w1, lp)
        chk("C02 full constraint keeps values", all(close(v, dict(flat(ch))[p]) for p, v in flat(t1.get_choices())))
        part = {"x": ch["x"], "y": ch["y"], "scan": {"z": ch["scan"]["z"]}}
        t2, w2 = model.generate(part, *a, **kw)
        c2 = t2.get_choices()
        lp2, _ = model.assess(c2, *a, **kw)
        chk("C02 trace coherent", close(t2.get_score(), -lp2), t2.get_score(), -lp2)
        chk("C02 constrained kept", close(c2["x"], ch["x"]) and close(c2["y"], ch["y"]) and close(c2["scan"]["z"], ch["scan"]["z"]))
        # weight = sum of log probs of constrained choices given parents
        wreq = _logpdf(c2["x"], 0.3, 1.5) + _logpdf2(c2["y"], c2["cnd"]["v"], 1.0)
        cc = c2["sub"]["a"] + c2["sub"]["b"]
        for t in range(3):
            wreq += _logpdf(c2["scan"]["z"][t], cc + xs[t], 1.0); cc = c2["scan"]["z"][t]
        chk("C02 partial weight = log p(constrained | parents)", close(w2, wreq), w2, wreq)
        # C03
        for nflag in (True, False):
            na = (0.9, jnp.array(nflag)); nkw = {"scale": 0.7}
            cons = {"x": jnp.array(0.11), "cnd": {"v": jnp.array(-0.4)}}
            t3, w3, d3 = model.update(tr, cons, *na, **nkw)
            c3 = t3.get_choices()
            lp3, r3 = model.assess(c3, *na, **nkw)
            chk("C03 weight = density ratio (old flag %s new flag %s)" % (flag, nflag), close(w3, lp3 - lp), w3, lp3 - lp)
            chk("C03 new trace coherent", close(t3.get_score(), -lp3) and close(t3.get_retval(), r3))
            chk("C03 constrained hold new, others keep old", close(c3["x"], 0.11) and close(c3["cnd"]["v"], -0.4) and close(c3["y"], ch["y"]) and close(c3["sub"]["a"], ch["sub"]["a"]) and close(c3["scan"]["z"], ch["scan"]["z"]))
            dl = dict(flat(d3))
            chk("C03 discard = old visible values of overwritten addresses", close(dl[("x",)], ch["x"]) and close(dl[("cnd", "v")], ch["cnd"]["v"]), dl, ch)
            back = {"x": dl[("x",)], "cnd": {"v": dl[("cnd", "v")]}}
            t4, w4, _ = model.update(t3, back, *a, **kw)
            chk("C03 round trip restores choices with negated weight", close(w4, -w3) and all(close(v, dict(flat(ch))[p]) for p, v in flat(t4.get_choices())), w4, -w3)
            # C05 telescoping
            t5, w5, _ = model.update(t3, {"y": jnp.array(0.77)}, 0.1, jnp.array(flag), scale=2.0)
            lp5, _ = model.assess(t5.get_choices(), 0.1, jnp.array(flag), scale=2.0)
            chk("C05 weights telescope", close(w3 + w5, lp5 - lp), w3 + w5, lp5 - lp)
        # C04
        for nm, s_, selected in [("none", sel(), set()), ("all", sel(()), None), ("x", sel("x"), {("x",)}),
                                ("sub/a | y", sel(("sub", "a")) | sel("y"), {("sub", "a"), ("y",)}),
                                ("~x", ~sel("x"), "notx"), ("scan", sel("scan"), {("scan", "z")}),
                                ("cnd", sel({"cnd": sel("v")}), {("cnd", "v")})]:
            try:
                t6, w6, d6 = model.regenerate(tr, s_, *a, **kw)
            except Exception as e:
                chk("C04 regenerate defined for selection %s" % nm, False, "raised %s: %s" % (type(e).__name__, str(e)[:120]), "defined")
                continue
            c6 = t6.get_choices(); lp6, r6 = model.assess(c6, *a, **kw)
            chk("C04 regenerate(%s) trace coherent" % nm, close(t6.get_score(), -lp6) and close(t6.get_retval(), r6), t6.get_score(), -lp6)
            allp = [p for p, _ in flat(ch)]
            selp = set(allp) if selected is None else ({p for p in allp if p != ("x",)} if selected == "notx" else selected)
            for p, v in flat(c6):
                if p not in selp:
                    chk("C04 regenerate(%s) unselected %s identical" % (nm, p), bool(jnp.all(v == dict(flat(ch))[p])), v, dict(flat(ch))[p])
                else:
                    chk("C04 regenerate(%s) selected %s resampled" % (nm, p), not bool(jnp.all(v == dict(flat(ch))[p])), v, "fresh draw")
            if nm in ("none", "all"):
                chk("C04 regenerate(%s) weight 0" % nm, close(w6, 0.0), w6, 0.0)
            if nm == "none":
                chk("C04 empty selection leaves trace unchanged", all(bool(jnp.all(v == dict(flat(ch))[p])) for p, v in flat(c6)))
            # MH weight = delta joint - delta prior of selected
            def prior_sel(c):
                tot = 0.0
                cc = c["sub"]["a"] + c["sub"]["b"]
                if ("x",) in selp: tot += _logpdf(c["x"], 0.3, 1.5)
                if ("sub", "a") in selp: tot += _logpdf(c["sub"]["a"], c["x"], 1.0)
                if ("sub", "b") in selp: tot += _logpdf2(c["sub"]["b"], c["sub"]["a"], 2.0)
                for t in range(3):
                    if ("scan", "z") in selp: tot += _logpdf(c["scan"]["z"][t], cc + xs[t], 1.0)
                    cc = c["scan"]["z"][t]
                if ("cnd", "v") in selp: tot += _logpdf(c["cnd"]["v"], cc, 1.0) if flag else _logpdf2(c["cnd"]["v"], cc + 3.0, 2.0)
                if ("y",) in selp: tot += _logpdf2(c["y"], c["cnd"]["v"], 1.0)
                return tot
            req6 = (lp6 - lp) - (prior_sel(c6) - prior_sel(ch))
            chk("C04 regenerate(%s) weight = d joint - d prior(selected)" % nm, close(w6, req6, 1e-3), w6, req6)
    # address collisions
    @gen
    def dup():
        a = nrm(0.0, 1.0) @ "a"
        return nrm(a, 1.0) @ "a"
    for nm, f in [("simulate", lambda: dup.simulate()), ("assess", lambda: dup.assess({"a": 0.1})), ("generate", lambda: dup.generate({"a": 0.1}))]:
        try:
            f(); chk("C01 address collision raises in " + nm, False, "no error", "ValueError")
        except ValueError:
            pass
    if fails:
        return {"confirmed": True, "scenario": "battery of concrete programs (Fn + nested Fn + Scan + Cond, kwargs)", "failures": fails[:6], "n_failures": len(fails)}
    return {"confirmed": False, "scenario": "battery", "checks": "all passed"}

SC = {k[3:]: v for k, v in globals().items() if k.startswith("sc_")}
if __name__ == "__main__":
    emit(SC[sys.argv[1]]())
