"""Native(+substitute) replay for the sample batch rule layout: the real VmapBatchHandler rule is run with
`create_sample_primitive` replaced by a direct call of the keyed TFP sampler (what `seed` does at a site).
usage: batch_rule_layout.py <case>"""
import sys
from _common import *
import jax, jax.numpy as jnp, jax.random as jrand
import genjax.pjax as pjax
from tensorflow_probability.substrates import jax as tfp
tfd = tfp.distributions

def keyful(key, loc, scale, sample_shape=()):
    return tfd.Normal(loc, scale).sample(seed=key, sample_shape=sample_shape)

pjax.create_sample_primitive = lambda cfg: (lambda *a: cfg.get_keyful_sampler_with_shape()(jrand.key(0), *a))
n, d = 4, 3
case = sys.argv[1]
if case.startswith("lane_axis0|S=(s,)"):
    S, args, axes, lane_shape = (5,), (jnp.zeros(n), jnp.ones(n)), (0, 0), (5,)
elif case.startswith("lane_axis1"):
    S, args, axes, lane_shape = (), (jnp.zeros((d, n)), 1.0), (1, None), (d,)
else:
    S, args, axes, lane_shape = (), (jnp.zeros(n), jnp.ones(d)), (0, None), (d,)
h = pjax.VmapBatchHandler(pjax.SamplerConfig(keyful_sampler=keyful, name="normal", sample_shape=S))
try:
    (res,), (ax,) = h.create_batch_rule()((jnp.ones(n, dtype=jnp.int8),) + args, (0,) + axes, axis_size=n, ctx="modular_vmap")
    want = (n,) + lane_shape
    got = tuple(jnp.moveaxis(res, ax, 0).shape) if ax is not None else res.shape
    emit({"confirmed": got != want, "tier": "native+substitute (site evaluated with a key, as seed does)", "case": case,
          "observed": {"array_shape": list(res.shape), "declared_lane_axis": ax, "shape_seen_by_vmap": list(got)},
          "required": {"lanes_first_shape": list(want)}})
except Exception as e:
    emit({"confirmed": True, "tier": "native+substitute", "case": case, "observed": "raised %s: %s" % (type(e).__name__, str(e)[:200]), "required": "(n,)+per-lane shape"})
