"""Property-level native battery: the demonstrations that come with the seeded changes (seeded/<id>*/demo.py) are
independent native tests of a property, each written from the property text alone; every one of them exits 0 on the
tree it was verified against.  usage: demo_battery.py <Cxx> ; runs them against $GENJAX_REPO/src (default /repo/src)
and prints one JSON line {"confirmed": bool, "failures": [...]} - confirmed = some demonstration fails on this tree."""
import glob, json, os, subprocess, sys, concurrent.futures as cf

ROOT = os.path.dirname(os.path.dirname(os.path.abspath(__file__)))
REPO = os.environ.get("GENJAX_REPO", "/repo")
PY = "/venv/bin/python" if os.path.exists("/venv/bin/python") else sys.executable


def one(demo):
    env = dict(os.environ, GENJAX_SRC=os.path.join(REPO, "src"), JAX_PLATFORMS="cpu", PYTHONDONTWRITEBYTECODE="1")
    env.pop("PYTHONPATH", None)
    try:
        out = subprocess.run([PY, demo], capture_output=True, text=True, timeout=900, env=env, cwd=os.path.dirname(demo))
        return demo, out.returncode, (out.stdout + out.stderr)[-1500:]
    except subprocess.TimeoutExpired:
        return demo, "timeout", ""


if __name__ == "__main__":
    pid = sys.argv[1]
    demos = sorted(glob.glob(os.path.join(ROOT, "seeded", pid + "*", "demo.py")))
    fails, ran = [], []
    with cf.ThreadPoolExecutor(max_workers=4) as ex:
        for demo, rc, tail in ex.map(one, demos):
            ran.append({"demo": os.path.relpath(demo, ROOT), "exit": rc})
            if rc not in (0, "timeout"):
                fails.append({"demo": os.path.relpath(demo, ROOT), "exit": rc, "output_tail": tail})
    print(json.dumps({"confirmed": bool(fails), "scenario": "demonstrations of " + pid, "failures": fails, "ran": ran}))
