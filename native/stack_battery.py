"""Full-stack native battery (C01-C05, C08, C16): the real package with its built-in distributions, run through
`seed` on this sandbox's JAX by way of the compatibility shims in _compat.py.  For each model family an oracle gives
the log density of every leaf given the other choices and the arguments (written from the model, not from genjax);
the GFI identities of the properties are then checked on concrete traces:

  C01  simulate: -score = sum of leaf log densities = assess(choices); return values agree
  C02  generate(c): weight = sum of the log densities of the constrained leaves (in the returned trace)
  C03  update(c, new args): weight = log p(new; new args) - log p(old; old args); discard = old values of the
       constrained leaves; updating back with the discard negates the weight and restores the choices
  C04  regenerate(sel): unselected leaves unchanged; weight = [log p(new) - log p(old)] - [sum_sel logp(new) - sum_sel logp(old)]
  C05  every returned trace is coherent: score = -assess(choices; recorded args), recorded args = the call's args

usage: stack_battery.py <family|all> ; prints one JSON line {"confirmed": bool, "failures": [...]}
"""
import sys, math, itertools, traceback
from _common import *
import jax, jax.numpy as jnp, jax.random as jrand
import _compat

_compat.install()
from genjax import gen, normal, exponential, flip, seed, sel, Scan, Cond, const, Vmap  # noqa: E402
from genjax.core import get_choices  # noqa: E402

TOL = 2e-3


def lN(x, m, s):
    return -0.5 * ((x - m) / s) ** 2 - jnp.log(s) - 0.5 * math.log(2 * math.pi)


def lE(x, rate):
    return jnp.where(x >= 0, jnp.log(rate) - rate * x, -jnp.inf)


def lF(b, p):
    return jnp.where(b, jnp.log(p), jnp.log1p(-p))


def sig(x):
    return 1 / (1 + jnp.exp(-x))


def total(d):
    return sum(float(jnp.sum(v)) for _, v in leaves(d))


def flat(d):
    return {p: v for p, v in leaves(d)}


N_CHECKS = [0]


def close(a, b, tol=TOL):
    N_CHECKS[0] += 1
    if a is None or b is None:
        return a is b
    a, b = jnp.asarray(a, dtype=jnp.float32), jnp.asarray(b, dtype=jnp.float32)
    if a.shape != b.shape:
        return False
    return bool(jnp.all(jnp.abs(a - b) <= tol * (1 + jnp.abs(b))))


# ------------------------------------------------------------------------------------------------
# model families: (name, model, args, alt_args, oracle, selections, partial constraint paths)


@gen
def f_flat(mu):
    x = normal(mu, 1.0) @ "x"
    y = normal(x, 0.5) @ "y"
    b = flip(sig(y)) @ "b"
    z = exponential(1.0 + x**2) @ "z"
    return x + y + z


def o_flat(c, mu):
    return {"x": lN(c["x"], mu, 1.0), "y": lN(c["y"], c["x"], 0.5), "b": lF(c["b"], sig(c["y"])), "z": lE(c["z"], 1.0 + c["x"] ** 2)}


@gen
def inner(m):
    u = normal(m, 1.0) @ "u"
    v = normal(u, 2.0) @ "v"
    return u + v


@gen
def f_nested(mu):
    a = normal(mu, 1.0) @ "a"
    r = inner(a) @ "in"
    c = normal(r, 1.0) @ "c"
    return c


def o_nested(c, mu):
    i = c["in"]
    return {"a": lN(c["a"], mu, 1.0), "in": {"u": lN(i["u"], c["a"], 1.0), "v": lN(i["v"], i["u"], 2.0)}, "c": lN(c["c"], i["u"] + i["v"], 1.0)}


@gen
def step(carry, x):
    z = normal(carry + x, 1.0) @ "z"
    return z, z * 2


T = 4


@gen
def f_scan(c0, xs):
    fin, ys = Scan(step, length=const(T))(c0, xs) @ "s"
    y = normal(fin, 1.0) @ "y"
    return y + jnp.sum(ys)


def o_scan(c, c0, xs):
    z = c["s"]["z"]
    prev = jnp.concatenate([jnp.asarray([c0], dtype=z.dtype), z[:-1]])
    return {"s": {"z": lN(z, prev + xs, 1.0)}, "y": lN(c["y"], z[-1], 1.0)}


@gen
def point(m, s):
    p = normal(m, s) @ "p"
    q = normal(p, 1.0) @ "q"
    return p + q


@gen
def f_vmap(ms, s):
    r = point.vmap(in_axes=(0, None))(ms, s) @ "v"
    t = normal(jnp.sum(r), 1.0) @ "t"
    return t


def o_vmap(c, ms, s):
    v = c["v"]
    return {"v": {"p": lN(v["p"], ms, s), "q": lN(v["q"], v["p"], 1.0)}, "t": lN(c["t"], jnp.sum(v["p"] + v["q"]), 1.0)}


N = 3


@gen
def f_repeat(m, s):
    r = point.repeat(N)(m, s) @ "r"
    return jnp.sum(r)


def o_repeat(c, m, s):
    v = c["r"]
    return {"r": {"p": lN(v["p"], m, s), "q": lN(v["q"], v["p"], 1.0)}}


@gen
def br1(m):
    v = normal(m, 1.0) @ "v"
    return v


@gen
def br2(m):
    v = exponential(2.0) @ "v"
    return v + m


@gen
def f_cond(flag, m):
    r = Cond(br1, br2)(flag, m) @ "c"
    w = normal(r, 1.0) @ "w"
    return w


def o_cond(c, flag, m):
    v = c["c"]["v"]
    return {"c": {"v": jnp.where(flag, lN(v, m, 1.0), lE(v, 2.0))}, "w": lN(c["w"], jnp.where(flag, v, v + m), 1.0)}


@gen
def pt_dict(ms):
    # vmapped nested call: choice map with a nested dict under a lane axis
    a = normal(ms, 1.0) @ "a"
    r = inner(a) @ "in"
    return r


@gen
def f_vmap_nested(ms):
    r = pt_dict.vmap(in_axes=(0,))(ms) @ "v"
    return jnp.sum(r)


def o_vmap_nested(c, ms):
    v = c["v"]
    i = v["in"]
    return {"v": {"a": lN(v["a"], ms, 1.0), "in": {"u": lN(i["u"], v["a"], 1.0), "v": lN(i["v"], i["u"], 2.0)}}}


@gen
def step_rep(carry, x):
    # scan step that contains a repeat
    r = point.repeat(2)(carry, 1.0) @ "r"
    z = normal(jnp.sum(r) * 0.1 + x, 1.0) @ "z"
    return z, z


@gen
def f_scan_of_vmap(c0, xs):
    fin, ys = Scan(step_rep, length=const(T))(c0, xs) @ "s"
    return fin


def o_scan_of_vmap(c, c0, xs):
    s = c["s"]
    z = s["z"]
    prev = jnp.concatenate([jnp.asarray([c0], dtype=z.dtype), z[:-1]])
    p, q = s["r"]["p"], s["r"]["q"]  # (T, 2)
    return {"s": {"r": {"p": lN(p, prev[:, None], 1.0), "q": lN(q, p, 1.0)}, "z": lN(z, jnp.sum(p + q, axis=1) * 0.1 + xs, 1.0)}}


@gen
def chain3(c0, xs):
    fin, ys = Scan(step, length=const(T))(c0, xs) @ "s"
    return fin


@gen
def f_vmap_of_scan(c0s, xs):
    r = chain3.vmap(in_axes=(0, None))(c0s, xs) @ "v"
    return jnp.sum(r)


def o_vmap_of_scan(c, c0s, xs):
    z = c["v"]["s"]["z"]  # (N, T)
    prev = jnp.concatenate([c0s[:, None].astype(z.dtype), z[:, :-1]], axis=1)
    return {"v": {"s": {"z": lN(z, prev + xs[None, :], 1.0)}}}


FAMILIES = {
    "flat": (f_flat, (0.3,), (0.9,), o_flat, [sel("x"), sel("y") | sel("z"), ~sel("x"), sel("b"), sel(), sel("x") | sel("y") | sel("z")], [[("y",)], [("x",), ("z",)]]),
    "nested": (f_nested, (0.2,), (-0.4,), o_nested, [sel("a"), sel(("in", "u")), sel("in"), ~sel(("in", "u")), sel(("in", "u")) | sel(("in", "v")), sel({"in": sel("v")}) | sel("c"), sel("in") ^ ~sel(("in", "v"))], [[("c",)], [("in", "v")], [("a",), ("in", "u")]]),
    "scan": (f_scan, (0.5, jnp.arange(T, dtype=jnp.float32) * 0.1), (-0.2, jnp.ones(T) * 0.3), o_scan, [sel("y"), sel("s"), sel(("s", "z")), ~sel("y")], [[("y",)], [("s", "z")]]),
    "vmap": (f_vmap, (jnp.array([0.0, 1.0, -1.0]), 0.7), (jnp.array([0.5, 0.2, 0.1]), 1.3), o_vmap, [sel("t"), sel(("v", "p")), sel("v"), ~sel(("v", "q"))], [[("t",)], [("v", "q")]]),
    "repeat": (f_repeat, (0.4, 0.9), (0.1, 1.1), o_repeat, [sel(("r", "p")), sel("r"), ~sel(("r", "p"))], [[("r", "q")]]),
    "cond_true": (f_cond, (jnp.array(True), 0.3), (jnp.array(True), 0.8), o_cond, [sel("w"), sel(("c", "v")), sel("c")], [[("w",)], [("c", "v")]]),
    "cond_false": (f_cond, (jnp.array(False), 0.3), (jnp.array(False), 0.8), o_cond, [sel("w"), sel(("c", "v")), sel("c")], [[("w",)], [("c", "v")]]),
    "vmap_nested": (f_vmap_nested, (jnp.array([0.0, 1.0]),), (jnp.array([0.3, 0.6]),), o_vmap_nested, [sel(("v", "a")), sel(("v", "in", "u")), ~sel(("v", "in", "u")), sel(("v", "in"))], [[("v", "in", "v")], [("v", "a")]]),
    "scan_of_vmap": (f_scan_of_vmap, (0.1, jnp.arange(T, dtype=jnp.float32) * 0.2), (0.3, jnp.ones(T) * 0.1), o_scan_of_vmap, [sel(("s", "z")), sel(("s", "r", "p")), sel(("s", "r"))], [[("s", "z")], [("s", "r", "q")]]),
    "vmap_of_scan": (f_vmap_of_scan, (jnp.array([0.0, 0.5, 1.0]), jnp.arange(T, dtype=jnp.float32) * 0.1), (jnp.array([0.2, 0.1, 0.0]), jnp.ones(T) * 0.2), o_vmap_of_scan, [sel(("v", "s", "z")), sel("v")], [[("v", "s", "z")]]),
}


def set_path(d, path, v):
    for p in path[:-1]:
        d = d.setdefault(p, {})
    d[path[-1]] = v


def get_path(d, path):
    for p in path:
        d = d[p]
    return d


def run_family(name):
    model, args, alt, oracle, selections, partials = FAMILIES[name]
    fails = []

    def bad(what, **kw):
        fails.append({"family": name, "what": what, **{k: (float(v) if hasattr(v, "shape") and getattr(v, "shape", None) == () else str(v)) for k, v in kw.items()}})

    def coherent(tr, a, tag):
        ch = tr.get_choices()
        lp = total(oracle(ch, *a))
        if not close(-tr.get_score(), lp):
            bad(f"{tag}: -score != sum of leaf log densities", got=-tr.get_score(), want=lp)
        d, r = model.assess(ch, *a)
        if not close(d, lp):
            bad(f"{tag}: assess density != sum of leaf log densities", got=d, want=lp)
        if not close(r, tr.get_retval()):
            bad(f"{tag}: assess retval != trace retval", got=r, want=tr.get_retval())
        ra, rk = tr.get_args()
        ok = len(ra) == len(a) and all(close(x, y) for x, y in zip(ra, a)) and rk == {}
        if not ok:
            bad(f"{tag}: recorded args are not the call's args", got=ra, want=a)

    k = jrand.key(7)
    ks = jrand.split(k, 12)
    tr = seed(model.simulate)(ks[0], *args)
    coherent(tr, args, "simulate")
    old = tr.get_choices()
    # C02: full and partial constraints
    tr_full, w = seed(model.generate)(ks[1], old, *args)
    if not close(w, total(oracle(old, *args))):
        bad("generate(full): weight != log p(choices)", got=w, want=total(oracle(old, *args)))
    coherent(tr_full, args, "generate(full)")
    for paths in partials:
        c = {}
        other = seed(model.simulate)(ks[2], *args).get_choices()
        plist = list(paths)
        for p in plist:
            set_path(c, p, get_path(other, p))
        tr2, w2 = seed(model.generate)(ks[3], c, *args)
        ch2 = tr2.get_choices()
        lp2 = flat(oracle(ch2, *args))
        want = sum(float(jnp.sum(lp2[p])) for p in plist)
        if not close(w2, want):
            bad(f"generate(partial {plist}): weight != log density of the constrained leaves", got=w2, want=want)
        for p in plist:
            if not close(get_path(ch2, p), get_path(c, p)):
                bad(f"generate(partial {plist}): constrained value not taken at {p}")
        coherent(tr2, args, f"generate(partial {plist})")
        # C03: update with the same constraints and new args
        tr3, w3, disc = seed(model.update)(ks[4], tr, c, *alt)
        ch3 = tr3.get_choices()
        want3 = total(oracle(ch3, *alt)) - total(oracle(old, *args))
        if not close(w3, want3):
            bad(f"update({plist}, new args): weight != log p(new;new args) - log p(old;old args)", got=w3, want=want3)
        for p, v in flat(old).items():
            tgt = get_path(c, p) if p in plist else v
            if not close(get_path(ch3, p), tgt):
                bad(f"update({plist}): leaf {p} is neither the constraint nor the old value")
        fd = flat(disc) if isinstance(disc, dict) else {}
        for p in plist:
            if p not in fd or not close(fd[p], get_path(old, p)):
                bad(f"update({plist}): discard lacks the old value at {p}", got=fd.get(p))
        # (the discard may also carry old values of leaves that were not overwritten: updating back with it is then
        # still the identity on them, which is all the property asks)
        wrong = [p for p in fd if p not in plist and fd[p] is not None and not close(fd[p], get_path(old, p))]
        if wrong:
            bad(f"update({plist}): discard has a value that was never in the old trace", got=wrong)
        coherent(tr3, alt, f"update({plist})")
        if isinstance(disc, dict):
            d2 = {}
            for p in plist:
                if p in fd:
                    set_path(d2, p, fd[p])
            tr4, w4, _ = seed(model.update)(ks[5], tr3, d2, *args)
            if not close(w4, -w3):
                bad(f"update({plist}) round trip: weight not negated", got=w4, want=-w3)
            for p, v in flat(old).items():
                if not close(get_path(tr4.get_choices(), p), v):
                    bad(f"update({plist}) round trip: choices not restored at {p}")
    # C04: regenerate
    for i, s in enumerate(selections):
        tr5, w5, d5 = seed(model.regenerate)(ks[6 + i % 5], tr, s, *alt)
        ch5 = tr5.get_choices()
        lo, ln = flat(oracle(old, *args)), flat(oracle(ch5, *alt))
        selected = [p for p in lo if den(s, p)]
        for p, v in flat(old).items():
            same_v = close(get_path(ch5, p), v)
            if p in selected and same_v and jnp.issubdtype(jnp.asarray(v).dtype, jnp.floating):
                bad(f"regenerate({s}): selected leaf {p} was not resampled")
            if p not in selected and not same_v:
                bad(f"regenerate({s}): unselected leaf {p} changed")
        want = (sum(float(jnp.sum(v)) for v in ln.values()) - sum(float(jnp.sum(v)) for v in lo.values())) - (
            sum(float(jnp.sum(ln[p])) for p in selected) - sum(float(jnp.sum(lo[p])) for p in selected))
        if not close(w5, want):
            bad(f"regenerate({s}, new args): weight != density ratio without the resampled leaves", got=w5, want=want)
        fd = flat(d5) if isinstance(d5, dict) else {}
        for p in selected:
            if p not in fd or not close(fd[p], get_path(old, p)):
                bad(f"regenerate({s}): discard lacks the old value at {p}")
        coherent(tr5, alt, f"regenerate({s})")
    return fails


if __name__ == "__main__":
    which = sys.argv[1] if len(sys.argv) > 1 else "all"
    names = list(FAMILIES) if which == "all" else [which]
    fails = []
    for n in names:
        try:
            fails += run_family(n)
        except Exception as e:
            fails.append({"family": n, "what": "exception: %s: %s" % (type(e).__name__, str(e)[:300]), "trace": traceback.format_exc()[-1200:]})
    emit({"confirmed": bool(fails), "scenario": "stack_battery " + which, "failures": fails[:40], "n_failures": len(fails), "n_comparisons": N_CHECKS[0]})
