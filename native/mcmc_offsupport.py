"""Native(+substitute) cross-check for C09: a proposal that lands OUTSIDE the support of a selected choice (where the
density is NaN for TFP's Gamma / Beta / LogNormal, -inf for others) has acceptance probability 0: mala / hmc / mh return
the input trace unchanged and report accept = False, whatever the accept uniform is.  The built-in normal / uniform
(which cannot run on this JAX) are substituted by scripted stand-ins with the same call signature, `save` by a recorder.
usage: mcmc_offsupport.py ; prints one JSON line"""
import sys
from _common import *
import jax, jax.numpy as jnp, jax.random as jrand
import numpy as np
import tensorflow_probability.substrates.jax as tfp
import genjax.inference.mcmc as M
from genjax.core import distribution, gen, sel

tfd = tfp.distributions
NOISE = {"v": -50.0}
class _N:
    @staticmethod
    def sample(mu, sigma, sample_shape=()):
        return jnp.asarray(mu) + jnp.asarray(sigma) * jnp.full(tuple(sample_shape), NOISE["v"], dtype=jnp.float32)
    @staticmethod
    def logpdf(v, mu, sigma):
        return -0.5 * ((v - mu) / sigma) ** 2 - jnp.log(sigma) - 0.9189385
UVAL = {"u": 0.5}
class _U:
    @staticmethod
    def sample(a, b, sample_shape=()):
        return jnp.asarray(a + UVAL["u"] * (b - a), dtype=jnp.float32)
saved = []
M.normal, M.uniform, M.save = _N, _U, (lambda **k: saved.append(k))

gam = distribution(lambda a, b: jnp.asarray(0.5, dtype=jnp.float32), lambda x, a, b: tfd.Gamma(a, b).log_prob(x), name="gam")
obs = distribution(lambda m, s: jnp.asarray(0.4, dtype=jnp.float32), lambda x, m, s: _N.logpdf(x, m, s), name="obs")
@gen
def model():
    s = gam(2.0, 2.0) @ "sigma"
    return obs(0.0, s) @ "y"
tr, _ = model.generate({"sigma": jnp.asarray(0.5, dtype=jnp.float32), "y": jnp.asarray(0.4, dtype=jnp.float32)})
fails = []
try:
    off = float(tfd.Gamma(2.0, 2.0).log_prob(-1.0))
    for name, call in (("mala", lambda: M.mala(tr, sel("sigma"), 0.1)), ("hmc", lambda: M.hmc(tr, sel("sigma"), 0.1, 2))):
        for u in (1e-6, 0.5, 0.999999):
            UVAL["u"] = u
            del saved[:]
            out = call()
            s_new = float(out.get_choices()["sigma"])
            acc = saved[-1].get("accept") if saved else None
            if not (abs(s_new - 0.5) < 1e-6) or (acc is not None and bool(acc)):
                fails.append({"kernel": name, "scenario": "sigma ~ Gamma(2,2) at 0.5, y ~ N(0, sigma) = 0.4 observed; scripted noise pushes the proposal below 0 (log density there: %r); accept uniform %g" % (off, u),
                              "observed": {"sigma": s_new, "accept": None if acc is None else bool(acc), "score": float(out.get_score())}, "required": {"sigma": 0.5, "accept": False}})
                break
except Exception as e:  # noqa: BLE001
    import traceback

    emit({"confirmed": False, "tier": "native+substitute(normal,uniform,save)", "error": "%s: %s" % (type(e).__name__, str(e)[:300]), "trace": traceback.format_exc()[-600:]})
    sys.exit(0)
emit({"confirmed": bool(fails), "tier": "native+substitute(normal,uniform,save)", "scenario": "proposal outside the support is rejected", "failures": fails[:3]})
