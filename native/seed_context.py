"""Native replay for C06 / pjax.stage: `seed(f)(key, x)` is a function of (key, x) and the ambient JAX configuration
ONLY - it must not depend on which other seeded calls of the same function happened before.  The same seeded function
is called (a) fresh, (b) after having been called inside a 64-bit block, (c) inside a 64-bit block after a default-mode
call; results (values and dtypes) must agree with those of a function object that has no such history.
usage: seed_context.py ; prints one JSON line {"confirmed": bool, ...}"""
import sys
from _common import *
import jax, jax.numpy as jnp, jax.random as jrand
import numpy as np
import _compat

_compat.install()
from genjax import gen, normal, seed  # noqa: E402

try:
    enable_x64 = jax.enable_x64
except AttributeError:  # older spelling
    from jax.experimental import enable_x64


def make():
    """a fresh function object with identical code each time, so that "the same call with a different history" can be
    compared bit for bit; it contains ordinary default-dtype jnp code (linspace / arange), whose meaning depends on the
    ambient configuration at TRACE time"""

    @gen
    def model(x, scale):
        a = normal(x, scale) @ "a"
        b = normal(a + a, scale) @ "b"
        return a + b

    def f(x, scale=None):
        grid = jnp.linspace(0.0, 1.0, 7)  # default float dtype
        tr = model.simulate(x, scale)
        return tr.get_choices(), tr.get_retval() + jnp.arange(3), tr.get_score() * jnp.sum(grid**2)

    return f


def leaves_of(out):
    return [(str(np.asarray(v).dtype), np.asarray(v).tolist()) for v in jax.tree_util.tree_leaves(out)]


def run(sm, key, x, s):
    return leaves_of(sm(key, x, scale=s))


key = jrand.key(7)
x, s = jnp.float32(0.3), jnp.float32(1.5)
fails = []
try:
    # reference: function objects with no other history
    ref_default = run(seed(make()), key, x, s)
    with enable_x64(True):
        ref_x64 = run(seed(make()), key, x, s)
    # (b) default-mode call after the same seeded function was sampled in a 64-bit block
    sm = seed(make())
    with enable_x64(True):
        run(sm, key, x, s)
    got = run(sm, key, x, s)
    if got != ref_default:
        fails.append({"history": "sampled once inside enable_x64(True), then called in default mode", "observed": got[:3], "required": ref_default[:3]})
    # (c) 64-bit call after a default-mode call
    sm = seed(make())
    run(sm, key, x, s)
    with enable_x64(True):
        got = run(sm, key, x, s)
    if got != ref_x64:
        fails.append({"history": "sampled once in default mode, then called inside enable_x64(True)", "observed": got[:3], "required": ref_x64[:3]})
    # (a) repeated calls with other seeded sampling in between are bit-identical
    sm = seed(make())
    first = run(sm, key, x, s)
    for k in range(3):
        run(sm, jrand.key(100 + k), x + k, s)
    if run(sm, key, x, s) != first:
        fails.append({"history": "same call repeated after other seeded sampling", "observed": "different result", "required": "bit-identical"})
except Exception as e:  # noqa: BLE001
    import traceback

    emit({"confirmed": False, "tier": "native", "error": "%s: %s" % (type(e).__name__, str(e)[:300]), "trace": traceback.format_exc()[-600:]})
    sys.exit(0)
emit({"confirmed": bool(fails), "tier": "native", "scenario": "seed(f)(key, x) under changing ambient trace context", "failures": fails[:3]})
