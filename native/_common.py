"""Shared helpers for native replays: the real genjax package (beartype on), concrete selection oracle."""
import itertools, json, os, sys
REPO = os.environ.get("GENJAX_REPO", "/repo")
sys.path.insert(0, os.path.join(REPO, "src"))
import genjax  # noqa: E402  (the real package, with its __init__)
from genjax.core import sel, Selection, AllSel, NoneSel, StrSel, TupleSel, DictSel, ComplSel, InSel, OrSel, gen  # noqa: E402


def den(s, p):
    """concrete evaluation of the spec Sel(s, p) (p a tuple of strings) — written from the property"""
    if isinstance(s, Selection):
        return den(s.s, p)
    if isinstance(s, AllSel):
        return True
    if isinstance(s, NoneSel):
        return False
    if isinstance(s, StrSel):
        return len(p) > 0 and p[0] == s.s.value
    if isinstance(s, TupleSel):
        t = tuple(s.t.value)
        return len(t) > 0 and tuple(p[: len(t)]) == t
    if isinstance(s, DictSel):
        return len(p) > 0 and p[0] in s.d and den(s.d[p[0]], p[1:])
    if isinstance(s, ComplSel):
        return not den(s.s, p)
    if isinstance(s, InSel):
        return den(s.s1, p) and den(s.s2, p)
    if isinstance(s, OrSel):
        return den(s.s1, p) or den(s.s2, p)
    raise TypeError(s)


def atoms_selections(alphabet=("a", "b", "c")):
    base = [("sel()", sel()), ("sel(())", sel(()))]
    for a in alphabet:
        base.append((f"sel({a!r})", sel(a)))
    for t in [("a", "b"), ("a", "c"), ("b", "a"), ("a", "b", "c"), ("c",)]:
        base.append((f"sel({t!r})", sel(t)))
    base.append(("sel({'a': sel('b')})", sel({"a": sel("b")})))
    base.append(("sel({'a': sel(()), 'b': sel('c')})", sel({"a": sel(()), "b": sel("c")})))
    return base


def selections(depth=1):
    base = atoms_selections()
    out = list(base)
    cur = list(base)
    for _ in range(depth):
        nxt = []
        for n, s in cur:
            nxt.append((f"~{n}", ~s))
        for (n1, s1), (n2, s2) in itertools.product(cur, base):
            nxt.append((f"({n1} | {n2})", s1 | s2))
            nxt.append((f"({n1} ^ {n2})", s1 ^ s2))
        out += nxt
        cur = nxt
    return out


def leaves(x, prefix=()):
    if isinstance(x, dict):
        for k, v in x.items():
            yield from leaves(v, prefix + (k,))
    else:
        yield prefix, x


def choice_maps():
    return [
        {"a": 1.0},
        {"a": 1.0, "b": 2.0},
        {"a": {"b": 1.0, "c": 2.0}, "b": 3.0},
        {"a": {"b": {"c": 1.0, "a": 4.0}, "c": 2.0}, "c": {"a": 5.0}},
        {"b": {"a": 1.0}, "c": 2.0},
    ]


def emit(d):
    print(json.dumps(d, default=str))
