"""Native cross-check for C07 / C06 through the public interface (real package, built-in distributions, the
compatibility shims of _compat.py): in a seeded run every sample site - plain, inside cond, inside scan (per
iteration), vectorised (per lane) - draws its own value: with continuous distributions all draws of one run are
pairwise distinct; the same holds for the second program run by a KEPT interpreter (Seed(key).eval twice), whose
draws also differ from the first program's; same key = same draws, another key = other draws.
usage: seed_sites.py ; prints one JSON line"""
import sys
from _common import *
import jax, jax.numpy as jnp, jax.random as jrand
import numpy as np
import _compat

_compat.install()
from genjax import normal, seed, modular_vmap  # noqa: E402
from genjax import pjax  # noqa: E402


def warmup():
    return normal.sample(0.0, 1.0)


def model():
    a = normal.sample(0.0, 1.0)
    b = normal.sample(0.0, 1.0)
    c = jax.lax.cond(a > 100.0, lambda: normal.sample(0.0, 1.0) + 5.0, lambda: normal.sample(0.0, 1.0))
    lanes = modular_vmap(lambda m: normal.sample(m, 1.0), in_axes=0)(jnp.zeros(4))

    def step(carry, _):
        z = normal.sample(0.0, 1.0)
        return carry + z, z

    _, zs = jax.lax.scan(step, 0.0, None, length=3)
    d = normal.sample(0.0, 1.0)
    return {"a": a, "b": b, "c": c, "lanes": lanes, "zs": zs, "d": d}


def flat(out):
    return np.concatenate([np.ravel(np.asarray(v, dtype=np.float64)) for v in jax.tree_util.tree_leaves(out)])


def all_distinct(v):
    return len(np.unique(np.round(v, 7))) == len(v)


fails = []
try:
    key = jrand.key(11)
    r1 = flat(seed(model)(key))
    if not all_distinct(r1):
        fails.append({"scenario": "fresh seed(model)(key): 12 sites / lanes / iterations", "observed": [float(x) for x in r1], "required": "pairwise distinct draws"})
    if not np.array_equal(r1, flat(seed(model)(key))):
        fails.append({"scenario": "same key twice", "observed": "different draws", "required": "identical"})
    if np.array_equal(r1, flat(seed(model)(jrand.key(12)))):
        fails.append({"scenario": "another key", "observed": "identical draws", "required": "different"})
    for n_warm in (1, 2):
        interp = pjax.Seed(jrand.key(5))
        w = [float(interp.eval(warmup)) for _ in range(n_warm)]
        r2 = flat(interp.eval(model))
        allv = np.concatenate([np.asarray(w), r2])
        if not all_distinct(allv):
            fails.append({"scenario": "kept interpreter: Seed(key).eval(warmup) x%d, then .eval(model)" % n_warm, "observed": [round(float(x), 6) for x in allv], "required": "pairwise distinct draws"})
            break
except Exception as e:  # noqa: BLE001
    import traceback

    emit({"confirmed": False, "tier": "native", "error": "%s: %s" % (type(e).__name__, str(e)[:300]), "trace": traceback.format_exc()[-700:]})
    sys.exit(0)
emit({"confirmed": bool(fails), "tier": "native", "scenario": "own randomness per site under seed (public interface)", "failures": fails[:3]})
