"""Native cross-check / replay for C13: the logpdf and keyed sampler closures of every wrapper (pure TFP, they
run on this JAX) against closed-form densities of the DOCUMENTED parameterisation (scipy), and shape/dtype of
keyed samples.  The pjax binding layer itself cannot run here and is covered by the contracts."""
import math, sys
from _common import *
import numpy as np
import jax, jax.numpy as jnp, jax.random as jrand
from scipy import stats, special
import genjax.distributions as D

def parts(dist):
    smp, lpf = dist._sample.value, dist._logpdf.value
    c = lambda f: dict(zip(f.__code__.co_freevars, f.__closure__ or ()))
    return c(smp)["keyful_sampler"].cell_contents, c(lpf)["logpdf"].cell_contents

sig = lambda l: 1 / (1 + math.exp(-l))
cov = np.array([[2.0, 0.3], [0.3, 1.0]])
CASES = {
    "bernoulli": ((0.4,), 1, lambda: stats.bernoulli.logpmf(1, sig(0.4))),
    "flip": ((0.3,), True, lambda: math.log(0.3)),
    "beta": ((2.0, 3.0), 0.4, lambda: stats.beta.logpdf(0.4, 2.0, 3.0)),
    "categorical": ((jnp.array([0.1, 0.5, -0.2]),), 1, lambda: 0.5 - special.logsumexp([0.1, 0.5, -0.2])),
    "geometric": ((0.4,), 3, lambda: 3 * math.log(1 - sig(0.4)) + math.log(sig(0.4))),  # failures before first success
    "normal": ((0.5, 2.0), 1.1, lambda: stats.norm.logpdf(1.1, 0.5, 2.0)),
    "uniform": ((-1.0, 3.0), 0.2, lambda: -math.log(4.0)),
    "exponential": ((2.5,), 0.7, lambda: math.log(2.5) - 2.5 * 0.7),  # rate
    "poisson": ((3.0,), 2.0, lambda: stats.poisson.logpmf(2, 3.0)),
    "multivariate_normal": ((jnp.array([0.1, -0.2]), jnp.array(cov)), jnp.array([0.3, 0.4]), lambda: stats.multivariate_normal.logpdf([0.3, 0.4], [0.1, -0.2], cov)),  # covariance matrix
    "dirichlet": ((jnp.array([1.5, 2.0, 0.7]),), jnp.array([0.2, 0.5, 0.3]), lambda: stats.dirichlet.logpdf([0.2, 0.5, 0.3], [1.5, 2.0, 0.7])),
    "binomial": ((5.0, 0.4), 2.0, lambda: stats.binom.logpmf(2, 5, sig(0.4))),
    "gamma": ((2.0, 3.0), 0.8, lambda: stats.gamma.logpdf(0.8, 2.0, scale=1 / 3.0)),
    "log_normal": ((0.2, 0.7), 1.3, lambda: stats.lognorm.logpdf(1.3, 0.7, scale=math.exp(0.2))),
    "student_t": ((4.0, 0.5, 2.0), 1.0, lambda: stats.t.logpdf(1.0, 4.0, 0.5, 2.0)),
    "laplace": ((0.5, 2.0), 1.0, lambda: stats.laplace.logpdf(1.0, 0.5, 2.0)),
    "half_normal": ((2.0,), 1.0, lambda: stats.halfnorm.logpdf(1.0, scale=2.0)),
    "inverse_gamma": ((3.0, 2.0), 0.9, lambda: stats.invgamma.logpdf(0.9, 3.0, scale=2.0)),
    "weibull": ((1.5, 2.0), 0.9, lambda: stats.weibull_min.logpdf(0.9, 1.5, scale=2.0)),
    "cauchy": ((0.5, 2.0), 1.0, lambda: stats.cauchy.logpdf(1.0, 0.5, 2.0)),
    "chi2": ((3.0,), 1.7, lambda: stats.chi2.logpdf(1.7, 3.0)),
    "multinomial": ((4.0, jnp.array([0.1, 0.5, -0.2])), jnp.array([1.0, 2.0, 1.0]), lambda: stats.multinomial.logpmf([1, 2, 1], 4, special.softmax([0.1, 0.5, -0.2]))),
    "negative_binomial": ((3.0, 0.4), 2.0, None),
    "zipf": ((2.5,), 3, lambda: -2.5 * math.log(3) - math.log(special.zeta(2.5, 1))),
}
# values at the EDGE of each support (the documented parameterisation decides whether they belong to it: geometric
# counts failures, so 0 has mass p; a Poisson / binomial count may be 0; uniform includes its lower end)
EDGES = [
    ("geometric", (0.4,), 0, lambda: math.log(sig(0.4))),
    ("poisson", (3.0,), 0.0, lambda: stats.poisson.logpmf(0, 3.0)),
    ("binomial", (5.0, 0.4), 0.0, lambda: stats.binom.logpmf(0, 5, sig(0.4))),
    ("binomial", (5.0, 0.4), 5.0, lambda: stats.binom.logpmf(5, 5, sig(0.4))),
    ("exponential", (2.5,), 0.0, lambda: math.log(2.5)),
    ("uniform", (-1.0, 3.0), -1.0, lambda: -math.log(4.0)),
    ("flip", (0.3,), False, lambda: math.log(0.7)),
    ("bernoulli", (0.4,), 0, lambda: stats.bernoulli.logpmf(0, sig(0.4))),
    ("categorical", (jnp.array([0.1, 0.5, -0.2]),), 0, lambda: 0.1 - special.logsumexp([0.1, 0.5, -0.2])),
    ("zipf", (2.5,), 1, lambda: -math.log(special.zeta(2.5, 1))),
    ("half_normal", (2.0,), 0.0, lambda: stats.halfnorm.logpdf(0.0, scale=2.0)),
]
fails = []
for name, args, v, oracle in EDGES:
    try:
        _, lp = parts(getattr(D, name))
        got, want = float(lp(jnp.asarray(v), *args)), float(oracle())
        if not abs(got - want) <= 1e-3 * (1 + abs(want)):
            fails.append({"distribution": name, "args": str(args), "value_at_the_edge_of_the_support": str(v), "observed_logpdf": got, "required_logpdf": want})
    except Exception as e:
        fails.append({"distribution": name, "value": str(v), "observed": "raised %s: %s" % (type(e).__name__, str(e)[:150])})
for name, (args, v, oracle) in CASES.items():
    ks, lp = parts(getattr(D, name))
    try:
        got = float(lp(jnp.asarray(v), *args))
        if oracle is not None:
            want = float(oracle())
            if not abs(got - want) <= 1e-3 * (1 + abs(want)):
                fails.append({"distribution": name, "args": str(args), "value": str(v), "observed_logpdf": got, "required_logpdf": want})
        s = ks(jrand.key(0), *args, sample_shape=(5, 2))
        base = np.shape(ks(jrand.key(0), *args, sample_shape=()))
        if tuple(s.shape) != (5, 2) + tuple(base):
            fails.append({"distribution": name, "observed_sample_shape": list(s.shape), "required": [5, 2] + list(base)})
        if name == "flip" and s.dtype != jnp.bool_:
            fails.append({"distribution": name, "observed_dtype": str(s.dtype), "required": "bool"})
    except Exception as e:
        fails.append({"distribution": name, "observed": "raised %s: %s" % (type(e).__name__, str(e)[:150])})
missing = sorted(set(n for n in dir(D) if type(getattr(D, n)).__name__ == "Distribution") - set(CASES))
emit({"confirmed": bool(fails), "tier": "native (TFP closures; pjax binding layer not exercised)", "checked": len(CASES), "not_in_table": missing, "failures": fails[:4]})
