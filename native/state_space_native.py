"""Native replay / cross-check for C20: the real forward_filter / compute_sequence_log_prob / backward_sample /
kalman_filter / kalman_smoother against brute-force summation over all state sequences and joint-Gaussian
conditioning (numpy), for small sizes incl. d_obs != d_state and T = 1.  usage: state_space_native.py hmm|kalman"""
import sys, itertools
from _common import *
import numpy as np
import jax, jax.numpy as jnp
import genjax.extras.state_space as SS
which = sys.argv[1] if len(sys.argv) > 1 else "hmm"
rng = np.random.default_rng(0)
fails = []
def close(a, b, tol=1e-4):
    return np.allclose(np.asarray(a), np.asarray(b), atol=tol, rtol=tol)
if which == "hmm":
    for K, M, T in [(2, 3, 1), (2, 3, 2), (3, 2, 4), (4, 3, 3)]:
        pi = rng.dirichlet(np.ones(K)); Tr = rng.dirichlet(np.ones(K), size=K); Em = rng.dirichlet(np.ones(M), size=K)
        if K == 3:
            Tr[0, 1] = 0.0; Tr[0] /= Tr[0].sum()   # sparse transition matrix
        y = rng.integers(0, M, size=T)
        joint = {}
        for xs in itertools.product(range(K), repeat=T):
            p = pi[xs[0]] * Em[xs[0], y[0]]
            for t in range(1, T):
                p *= Tr[xs[t - 1], xs[t]] * Em[xs[t], y[t]]
            joint[xs] = p
        Z = sum(joint.values())
        alpha, lm = SS.forward_filter(jnp.array(y), jnp.array(pi), jnp.array(Tr), jnp.array(Em))
        if not close(lm, np.log(Z)):
            fails.append({"fn": "forward_filter", "K": K, "T": T, "observed_log_marginal": float(lm), "required": float(np.log(Z))})
        for t in range(T):
            filt = np.zeros(K)
            for xs in itertools.product(range(K), repeat=t + 1):
                p = pi[xs[0]] * Em[xs[0], y[0]]
                for u in range(1, t + 1):
                    p *= Tr[xs[u - 1], xs[u]] * Em[xs[u], y[u]]
                filt[xs[-1]] += p
            filt /= filt.sum()
            if not close(np.exp(alpha[t]), filt, 1e-3):
                fails.append({"fn": "forward_filter", "K": K, "T": T, "t": t, "observed_filter": [float(v) for v in np.exp(alpha[t])], "required": [float(v) for v in filt]})
        xs = tuple(int(v) for v in rng.integers(0, K, size=T))
        if joint[xs] > 0:
            lp = SS.compute_sequence_log_prob(jnp.array(xs), jnp.array(y), jnp.array(pi), jnp.array(Tr), jnp.array(Em))
            if not close(lp, np.log(joint[xs])):
                fails.append({"fn": "compute_sequence_log_prob", "states": xs, "observed": float(lp), "required": float(np.log(joint[xs]))})
        # backward_sample with categorical := argmax (checks the index plumbing of the backward recursion)
        class _C:
            @staticmethod
            def sample(logits=None, sample_shape=()):
                return jnp.argmax(logits)
        SS.categorical = _C
        a_un = np.log(np.maximum(np.exp(np.asarray(alpha)), 1e-300))
        st = SS.backward_sample(jnp.array(a_un), jnp.array(Tr))
        want = np.zeros(T, dtype=int); want[-1] = int(np.argmax(a_un[-1]))
        with np.errstate(divide="ignore"):
            for t in range(T - 2, -1, -1):
                want[t] = int(np.argmax(a_un[t] + np.log(Tr[:, want[t + 1]])))
        if not np.array_equal(np.asarray(st), want):
            fails.append({"fn": "backward_sample(categorical:=argmax)", "observed": [int(v) for v in st], "required": [int(v) for v in want]})
    # a REDUCIBLE chain (two closed classes) with evidence that is sharp for a while and then favours the other class:
    # inside one filtering vector the log probabilities are more than 100 nats apart; nothing may be flushed to zero
    K, M = 4, 3
    Tr = np.array([[0.6, 0.4, 0.0, 0.0], [0.3, 0.7, 0.0, 0.0], [0.0, 0.0, 0.5, 0.5], [0.0, 0.0, 0.2, 0.8]])
    pi = np.array([0.25, 0.25, 0.25, 0.25])
    Em = np.array([[1 - 2e-30, 1e-30, 1e-30], [1 - 2e-30, 1e-30, 1e-30], [1e-18, 1 - 2e-18, 1e-18], [1e-18, 1 - 2e-18, 1e-18]])
    y = np.array([0, 0, 0, 0, 0, 1, 1, 1, 1])
    T = len(y)
    with np.errstate(divide="ignore"):
        lpi, lTr, lEm = np.log(pi), np.log(Tr), np.log(Em)
    la = lpi + lEm[:, y[0]]
    for t in range(1, T):
        m = la.max()
        with np.errstate(divide="ignore"):
            la = np.log(np.exp(la - m) @ Tr) + m + lEm[:, y[t]]   # float64: a range of 400 nats is representable
    lm_req = float(la.max() + np.log(np.exp(la - la.max()).sum()))
    filt_req = np.exp(la - lm_req)
    alpha, lm = SS.forward_filter(jnp.array(y), jnp.array(pi), jnp.array(Tr), jnp.array(Em, dtype=jnp.float32))
    if not close(lm, lm_req, 1e-3) or not close(np.exp(np.asarray(alpha[-1], dtype=np.float64)), filt_req, 1e-3):
        fails.append({"fn": "forward_filter", "scenario": "reducible chain (two closed classes), 5 observations sharp for class A then 4 sharp for class B", "observed_log_marginal": float(lm), "required": lm_req,
                      "observed_last_filter": [float(v) for v in np.exp(np.asarray(alpha[-1]))], "required_last_filter": [float(v) for v in filt_req]})
else:
    for ds, do, T, int_prior in [(2, 1, 1, False), (2, 1, 3, False), (1, 2, 2, False), (3, 2, 4, False), (2, 1, 3, True)]:
        A = rng.normal(size=(ds, ds)) * 0.5; C = rng.normal(size=(do, ds))
        Q = np.eye(ds) * 0.3 + 0.05; R = np.eye(do) * 0.2 + 0.02; P0 = np.eye(ds) * 0.7 + 0.1; m0 = rng.normal(size=ds)
        if int_prior:
            # an integer-typed prior (m0 = zeros(d, int), P0 = eye(d, int)): the filtered moments are still reals
            P0 = np.eye(ds, dtype=np.int32); m0 = np.arange(ds, dtype=np.int32)
        y = rng.normal(size=(T, do))
        # joint Gaussian over (x_0..x_{T-1}, y_0..y_{T-1})
        n = T * ds
        mx = np.zeros(n); Sx = np.zeros((n, n))
        mx[:ds] = m0; Sx[:ds, :ds] = P0
        for t in range(1, T):
            a, b = slice((t - 1) * ds, t * ds), slice(t * ds, (t + 1) * ds)
            mx[b] = A @ mx[a]
            Sx[b, :t * ds] = A @ Sx[a, :t * ds]; Sx[:t * ds, b] = Sx[b, :t * ds].T
            Sx[b, b] = A @ Sx[a, a] @ A.T + Q
        H = np.zeros((T * do, n))
        for t in range(T):
            H[t * do:(t + 1) * do, t * ds:(t + 1) * ds] = C
        my = H @ mx; Sy = H @ Sx @ H.T + np.kron(np.eye(T), R); Sxy = Sx @ H.T
        yv = y.reshape(-1)
        from scipy.stats import multivariate_normal as mvn
        lm_req = mvn.logpdf(yv, my, Sy)
        fm, fP, lm = SS.kalman_filter(jnp.array(y), jnp.array(m0), jnp.array(P0), jnp.array(A), jnp.array(Q), jnp.array(C), jnp.array(R))
        if not close(lm, lm_req, 1e-3):
            fails.append({"fn": "kalman_filter", "dims": [ds, do, T], "observed_log_marginal": float(lm), "required": float(lm_req)})
        for t in range(T):
            k = (t + 1) * do
            G = Sxy[:, :k] @ np.linalg.inv(Sy[:k, :k])
            mc = mx + G @ (yv[:k] - my[:k]); Pc = Sx - G @ Sxy[:, :k].T
            b = slice(t * ds, (t + 1) * ds)
            if not (close(fm[t], mc[b], 1e-3) and close(fP[t], Pc[b, b], 1e-3)):
                fails.append({"fn": "kalman_filter", "dims": [ds, do, T], "integer_typed_prior": int_prior, "t": t, "observed_mean": [float(v) for v in fm[t]], "required_mean": [float(v) for v in mc[b]]})
        sm, sP = SS.kalman_smoother(jnp.array(y), jnp.array(m0), jnp.array(P0), jnp.array(A), jnp.array(Q), jnp.array(C), jnp.array(R))
        G = Sxy @ np.linalg.inv(Sy); mc = mx + G @ (yv - my); Pc = Sx - G @ Sxy.T
        for t in range(T):
            b = slice(t * ds, (t + 1) * ds)
            if not (close(sm[t], mc[b], 1e-3) and close(sP[t], Pc[b, b], 1e-3)):
                fails.append({"fn": "kalman_smoother", "dims": [ds, do, T], "t": t, "observed_mean": [float(v) for v in sm[t]], "required_mean": [float(v) for v in mc[b]]})
if which == "kalman":
    # HISTORY: the same model matrices and length with ANOTHER prior covariance / mean, in the same process, must give
    # the moments of that prior (nothing computed for an earlier call may be reused for a different input)
    ds, do, T = 2, 1, 4
    r2 = np.random.default_rng(7)
    A = r2.normal(size=(ds, ds)) * 0.5; C = r2.normal(size=(do, ds)); Q = np.eye(ds) * 0.3; R = np.eye(do) * 0.2
    y = r2.normal(size=(T, do)); m0 = r2.normal(size=ds)
    def np_filter(m0, P0):
        m, P, lm, out = m0, P0, 0.0, []
        for t in range(T):
            if t > 0:
                m, P = A @ m, A @ P @ A.T + Q
            S_ = C @ P @ C.T + R; K = P @ C.T @ np.linalg.inv(S_); v = y[t] - C @ m
            lm += float(-0.5 * (v @ np.linalg.inv(S_) @ v + np.log(np.linalg.det(2 * np.pi * S_))))
            m, P = m + K @ v, P - K @ C @ P
            out.append((m, P))
        return out, lm
    for label, (mm, PP) in [("first prior", (m0, np.eye(ds) * 0.7)), ("same model, another prior covariance", (m0, np.eye(ds) * 3.0 + 0.4)), ("same model, another prior mean", (m0 + 2.0, np.eye(ds) * 3.0 + 0.4)), ("first prior again", (m0, np.eye(ds) * 0.7))]:
        fm, fP, lm = SS.kalman_filter(jnp.array(y), jnp.array(mm), jnp.array(PP), jnp.array(A), jnp.array(Q), jnp.array(C), jnp.array(R))
        want, lm_req = np_filter(mm, PP)
        bad = [t for t in range(T) if not (close(fm[t], want[t][0], 1e-3) and close(fP[t], want[t][1], 1e-3))]
        if bad or not close(lm, lm_req, 1e-3):
            fails.append({"fn": "kalman_filter", "history": "calls in one process with the same A, Q, C, R, T: " + label, "t": bad[:1], "observed_log_marginal": float(lm), "required": lm_req,
                          "observed_mean": [float(v) for v in fm[bad[0]]] if bad else None, "required_mean": [float(v) for v in want[bad[0]][0]] if bad else None})
            break
emit({"confirmed": bool(fails), "tier": "native", "which": which, "failures": fails[:3]})
