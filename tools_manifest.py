#!/usr/bin/env python3
"""Regenerates MANIFEST.json from contracts/manifest_data.py and validates it against the schema."""
import json, sys, os
ROOT = os.path.dirname(os.path.abspath(__file__))
sys.path.insert(0, ROOT)
from contracts.manifest_data import CHECKS, NOT_APPLICABLE, NOTES

BASE_OFF = "cd /repo && /venv/bin/python -m pytest -ra -q -p no:cacheprovider --timeout=900 --continue-on-collection-errors"
m = {
    "version": 1,
    "setup_cmd": "./setup.sh",
    "hooks": {
        "guard": "GENJAX_VERIF",
        "enable": "no hooks: contracts are sidecar files under /verif/contracts attached to the real functions by qualified name; /repo is imported from its working tree on every run",
        "baseline_off_cmd": BASE_OFF,
        "source_commits": [],
        "add_only": True,
    },
    "engines": [
        {
            "name": "vt",
            "path": "vt/",
            "serves_properties": [c["property_id"] for c in CHECKS],
            "kind_free_text": "contract verifier: real function objects from /repo's working tree executed by CPython on symbolic proxies (all feasible paths), sidecar pre/postconditions, obligations discharged by z3 with cvc5 as second back end",
        }
    ],
    "checks": [],
    "notes": NOTES,
    "not_applicable": NOT_APPLICABLE,
}
for c in CHECKS:
    pid = c["property_id"]
    m["checks"].append(
        {
            "property_id": pid,
            "quick_cmd": f"./check {pid} --tier quick",
            "thorough_cmd": f"./check {pid} --tier thorough",
            "evidence_file": f"evidence/{pid}.json",
            "replay_cmd_template": "./check --replay {path}",
            "engine": "vt",
            "level_claimed": {"category": "proof", "text": c["text"], "design_ref": c["design_ref"]},
            "level_note": c["note"],
            "technique": c.get("technique", "contract-based deductive verification: sidecar contracts on the real functions, symbolic execution of the real function objects, obligations discharged by z3/cvc5"),
        }
    )
json.dump(m, open(os.path.join(ROOT, "MANIFEST.json"), "w"), indent=1)
import jsonschema
jsonschema.validate(m, json.load(open("/root/.vp/MANIFEST.schema.json")))
ids = {c["property_id"] for c in CHECKS} | {n["property_id"] for n in NOT_APPLICABLE}
allp = {json.loads(l)["id"] for l in open(os.path.join(ROOT, "properties.jsonl"))}
assert ids == allp, (allp - ids, ids - allp)
print("MANIFEST ok:", len(CHECKS), "claimed,", len(NOT_APPLICABLE), "not applicable")
