#!/usr/bin/env python3
"""Run corpus mutants (by id) against their properties' quick checks on scratch copies; a mutant must be KILLED
(exit 1, and the expected obligation among the violated ones).  usage: tools_mut_check.py M79 M80 ..."""
import json, os, sys
ROOT = os.path.dirname(os.path.abspath(__file__))
sys.path.insert(0, ROOT)
from vt import thorough as T

corpus = {e["id"]: e for e in json.load(open(os.path.join(ROOT, "mutants", "corpus.json")))}
bad = 0
for mid in sys.argv[1:]:
    e = corpus[mid]
    for pid in e["props"]:
        _, rc, out = T._run_variant(e, pid)
        killed = rc == 1 and (not e.get("expect") or e["expect"] in (out or ""))
        print(mid, pid, "rc=%s" % rc, "KILLED" if killed else "SURVIVED")
        if not killed:
            bad = 1
            print("\n".join(l[:220] for l in (out or "").splitlines() if l.startswith(("VIOLATION", "UNDECIDED", "CHECKER")))[:1500])
sys.exit(bad)
