#!/bin/sh
# Build the overlay venv used by every check: Python 3.12 of /venv (has jax, tfp, penzai, beartype, the
# repo's deps) + z3-solver, cvc5, jsonschema from the offline wheelhouse.  Idempotent, offline, safe under
# concurrent invocation (flock; the venv is built aside and renamed into place).
set -e
cd "$(dirname "$0")"
V=.venv
ok() { [ -x "$V/bin/python" ] && "$V/bin/python" -c "import z3, cvc5, jsonschema, jax" >/dev/null 2>&1; }
ok && exit 0
exec 9>.venv.lock
flock 9
ok && exit 0
rm -rf "$V" "$V.tmp"
/venv/bin/python -m venv "$V.tmp"
PIP_NO_INDEX=1 "$V.tmp/bin/python" -m pip install -q --no-index --find-links /opt/veriftools/wheels z3-solver cvc5 jsonschema >/dev/null
SP=$("$V.tmp/bin/python" -c "import sysconfig; print(sysconfig.get_paths()['purelib'])")
echo "import site; site.addsitedir('/venv/lib/python3.12/site-packages')" > "$SP/_venv_overlay.pth"
mv "$V.tmp" "$V"
"$V/bin/python" -c "import z3, cvc5, jsonschema, jax"
