#!/usr/bin/env python3
"""Compare a junit xml with BASELINE.json's stable_pass list: prints missing passes."""
import json, sys, xml.etree.ElementTree as ET
base = set(json.load(open("/root/.vp/BASELINE.json"))["stable_pass"])
t = ET.parse(sys.argv[1])
passed = set()
for tc in t.iter("testcase"):
    if not any(c.tag in ("failure", "error", "skipped") for c in tc):
        cn = tc.get("classname"); passed.add(f"{cn}::{tc.get('name')}")
missing = sorted(base - passed)
print("passed", len(passed), "baseline", len(base), "missing", missing)
sys.exit(1 if missing else 0)
