#!/bin/bash
# usage: tools_seed_check.sh Cxx [props...] — applies seeded/Cxx/patch.diff to a scratch copy of /repo/src and runs the checks
P=$1; shift; CHECKS=${@:-$P}
D=$(mktemp -d /tmp/seedchkXXXX); cp -r /repo/src $D/src
(cd $D && patch -p1 -s < /verif/seeded/$P/patch.diff) || { echo "patch failed"; rm -rf $D; exit 9; }
for c in $CHECKS; do
  GENJAX_REPO=$D PYTHONDONTWRITEBYTECODE=1 JAX_PLATFORMS=cpu /verif/.venv/bin/python -m vt.runner $c --tier quick --only genjax 2>&1 | grep -v "^KNOWN\|WARNING conda" | cut -c1-230 | tail -${TAIL:-3}
done
rm -rf $D
