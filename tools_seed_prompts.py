#!/usr/bin/env python3
"""Prepare a wave of seeded-change tasks for independent sub-agents: one scratch git worktree of /repo per property
under /tmp/seed<N>_<Cxx>, an output directory /tmp/seed<N>_<Cxx>_out and a task file /tmp/seed<N>_prompts/<Cxx>.md.
The task file contains ONLY the property text, one-line descriptions of the changes already made for that property
(seeded/descriptions.json), a required style and sandbox facts - nothing from /verif.
usage: tools_seed_prompts.py <wave-number> [Cxx ...]"""
import json, os, random, subprocess, sys

ROOT = os.path.dirname(os.path.abspath(__file__))
STYLES = [
    "TWO COOPERATING SITES: split the change across two places (functions/classes) such that each edit alone is behaviour-preserving or looks like a harmless generalisation, and only together (or in interaction with an unchanged third place) do they break the property.",
    "HISTORY-DEPENDENT: the defect must only show after a particular multi-step sequence of operations (e.g. a second call on a kept object, an edit after an edit, resample then extend, nested transformation order), never on a first/fresh call.",
    "UNUSUAL BUT LEGITIMATE INPUT: the defect must only show for an unusual input class (e.g. empty sub-structures, negative / non-leading axes, rank-0 vs rank-1, T=1, n=1, integer-valued or boolean arguments, mixed dtypes, pytree arguments, duplicate values, weights that are exactly 0 or -inf, reversed scans, nested combinators three levels deep). Do NOT use 'a keyword argument is dropped' - that has been done several times.",
    "PLAUSIBLE REFACTOR: restructure a function (rename locals, merge or split loops, extract a helper, replace an explicit computation by a library call, change the order of operations) in a way that is behaviour-preserving almost everywhere but subtly changes semantics in one corner.",
    "NUMERICAL / REPRESENTATION CORNER: the change is mathematically an identity over the reals but differs in the executed program (floating-point rounding that changes a SHAPE, a COUNT or an INDEX, dtype promotion or truncation, weak types, integer overflow, -inf/nan propagation, an off-by-one that only occurs for particular sizes).",
]


def main():
    wave = int(sys.argv[1])
    props = {json.loads(l)["id"]: json.loads(l) for l in open(os.path.join(ROOT, "properties.jsonl"))}
    only = sys.argv[2:] or sorted(props)
    desc = json.load(open(os.path.join(ROOT, "seeded", "descriptions.json")))
    os.makedirs(f"/tmp/seed{wave}_prompts", exist_ok=True)
    random.seed(wave)
    for pid in only:
        p = props[pid]
        w = f"/tmp/seed{wave}_{pid}"
        subprocess.run(["git", "-C", "/repo", "worktree", "remove", "--force", w], capture_output=True)
        subprocess.run(["rm", "-rf", w])
        r = subprocess.run(["git", "-C", "/repo", "worktree", "add", "-q", "--detach", w, "HEAD"], capture_output=True, text=True)
        assert r.returncode == 0, r.stderr
        os.makedirs(f"{w}_out", exist_ok=True)
        earlier = [desc[k] for k in sorted(desc) if k[:3] == pid]
        earlier_txt = "; ".join("(%s) %s" % (chr(ord("a") + i), e) for i, e in enumerate(earlier))
        style = random.choice(STYLES)
        txt = f"""# Task: seed a subtle property-breaking change into femtomc/genjax

You work ONLY inside the scratch git worktree `{w}` (a checkout of the genjax repository at its current HEAD). Do not touch `/repo`, do not look at or use anything under `/verif` (you must work independently of it), and write your deliverables to `{w}_out/`.

## The property you must break

id: {pid}
title: {p['title']}

statement: {p['statement']}

code anchors (where the mechanism lives): {json.dumps(p['anchors'], indent=1)}

## What to deliver

A *realistic* change to the genjax source (under `{w}/src/genjax/`) - the kind of edit a maintainer could plausibly make as a refactor, optimisation, "fix" or tidy-up - that makes the property above FALSE, while:

1. the package still imports, and the repository's runnable baseline tests still all pass with the change. Baseline command (run from the worktree so it tests your modified tree): `cd {w} && PYTHONPATH={w}/src /venv/bin/python -m pytest -q -p no:cacheprovider --timeout=900 --continue-on-collection-errors` - in this sandbox only 41 tests pass on the unmodified tree (the rest fail or error on the unmodified tree too, because the sandbox has JAX 0.11.1 while genjax wants JAX 0.7.x); those same 41 must still pass. The list of the 41 stable tests is in `/root/.vp/BASELINE.json` (`stable_pass`).
2. the change needs something SPECIFIC to manifest - NOT something that ordinary use would expose at once, and NOT a change that makes things crash on every call.
3. it is DIFFERENT from these changes that were already made by others for this property (do not repeat them or trivial variants; touch a different function or mechanism): {earlier_txt}.
4. REQUIRED STYLE for this change - {style}

Deliver in `{w}_out/`:
- `patch.diff` - output of `git -C {w} diff` (source change only; no test edits, no new files in the repo besides source edits).
- `demo.py` - a standalone program run as `GENJAX_SRC=<tree>/src /venv/bin/python demo.py` that puts `$GENJAX_SRC` first on `sys.path`, imports genjax from there, exercises the property, and exits 0 if the property holds and non-zero (printing observed vs expected) if it is violated. It must exit non-zero on your modified tree (`GENJAX_SRC={w}/src`) and exit 0 on the unmodified tree (`GENJAX_SRC=/repo/src`). Deterministic (fixed keys), under ~5 minutes.
- `notes.md` - what the change is, why it breaks the property, what exactly is needed for it to manifest, why the existing tests do not notice.

## Sandbox facts you need

- Python with all deps: `/venv/bin/python` (3.12). No network. JAX here is 0.11.1, genjax targets 0.7.x: natively, anything going through `genjax.pjax.stage` (so `seed`, `modular_vmap`, the state interpreter, ADEV, and the built-in distributions' `sample/logpdf` primitives) fails with AttributeErrors on removed JAX APIs (`jax.core.get_aval`, `Var.count`, `jax.core.DropVar`, `Primitive.get_bind_params` returning a tuple, `ad.Zero.from_primal_value`, ...). What runs natively: `genjax.core` handlers / `Fn` / `Cond` / `Scan` / selections with distributions built via `genjax.core.distribution(python_sampler, python_logpdf)`; array code in `genjax/inference/smc.py` and `genjax/extras/state_space.py`; TFP itself. Your demo may install small, clearly-labelled compatibility shims for those removed JAX API points (restoring the old behaviour, touching no genjax logic) or substitute unavailable pieces (e.g. `jax.vmap` for `modular_vmap`, jax.random-based stand-ins for built-in distributions) as long as the function you changed is the REAL one from `$GENJAX_SRC` and the demo's verdict flips only because of your change. If the behaviour truly cannot be executed here, make the demo exercise the changed function as directly as possible (e.g. calling the interpreter method on a hand-built jaxpr) and say so in notes.md.
- Verify all three yourself before finishing: demo exit != 0 with the patch, == 0 on `/repo/src`, and the 41 baseline tests pass with the patch. Leave the worktree with your change applied (uncommitted).

Final answer: a short report (what you changed, file/function, what is needed to manifest, the three verification results).
"""
        open(f"/tmp/seed{wave}_prompts/{pid}.md", "w").write(txt)
        print(pid, style.split(":")[0])


if __name__ == "__main__":
    main()
