"""Mechanical extraction of loop pieces from the *real* source, for loop-invariant obligations.

`pieces(fn, ordinal)` reads `inspect.getsource(fn)` of the function object loaded from the working
tree, finds the `ordinal`-th `for` statement (source order) and compiles three functions whose
bodies are the real statements, verbatim (the AST nodes are reused, nothing is rewritten):

  prefix(**locals)  -> ("fallthrough", locals)  or  ("return", value)   statements before the loop
  body(**locals)    -> locals after one iteration                        the loop body
  suffix(**locals)  -> ("return", value) or ("fallthrough", locals)      statements after the loop

They execute in the function's real globals (with whatever stubs are patched there).  What the
extraction drops: the loop header's iteration protocol (the harness supplies a generic element for the
targets) and nothing else.  A `continue` belonging to this loop (not to a nested one) is rewritten to "leave the
body with the current locals" - its meaning for one iteration; `break` / `return` inside the loop body make it
refuse (Refused is an EngineLimit: undecided, never a violation).  `iter(**locals)` evaluates the loop header's
iterable expression (the real AST node) in the locals left by the prefix.
The loop must be a top-level statement of the function body.
"""
from __future__ import annotations

import ast
import inspect
import textwrap


from .sym import EngineLimit


class Refused(EngineLimit):
    """the function's loop structure is outside what the extraction handles: undecided, never a violation"""


_UNSET = object()


def _names(nodes, ctx):
    out = []
    for n in nodes:
        for m in ast.walk(n):
            if isinstance(m, ast.Name) and isinstance(m.ctx, ctx) and m.id not in out:
                out.append(m.id)
    return out


def _compile(name, stmts, local_names, fn, filename, allow_return):
    params = ast.arguments(
        posonlyargs=[],
        args=[],
        kwonlyargs=[ast.arg(arg=n) for n in local_names],
        kw_defaults=[ast.Constant(value=None) for _ in local_names],
        kwarg=None,
        vararg=None,
        defaults=[],
    )
    # fall-through result: the current locals by name (a local the real code deleted - `del kpure` - is reported
    # as None instead of failing the piece)
    ret = ast.Return(
        value=ast.Tuple(
            elts=[
                ast.Constant(value="fallthrough"),
                ast.Call(func=ast.Name(id="__vt_pick__", ctx=ast.Load()), args=[ast.Call(func=ast.Name(id="locals", ctx=ast.Load()), args=[], keywords=[])], keywords=[]),
            ],
            ctx=ast.Load(),
        )
    )
    body = list(stmts)
    if allow_return:
        body = [_wrap_returns(s) for s in body]
    elif allow_return is None:  # loop body: own-level `continue` leaves the iteration
        import copy

        body = [_ContWrap(ret).visit(copy.deepcopy(s)) for s in body]
    fdef = ast.FunctionDef(name=name, args=params, body=body + [ret], decorator_list=[], returns=None, type_params=[])
    mod = ast.Module(body=[fdef], type_ignores=[])
    ast.fix_missing_locations(mod)
    code = compile(mod, filename, "exec")
    g = fn.__globals__
    ns: dict = {}
    # closure variables of fn are made visible as globals of the piece (read-only use); everything else is
    # looked up in the module's LIVE globals (so stubs patched later are seen)
    glb = {"__builtins__": g.get("__builtins__", __builtins__), "__vt_pick__": (lambda d, names=tuple(local_names): {n: d.get(n) for n in names})}
    if fn.__closure__:
        for n, cell in zip(fn.__code__.co_freevars, fn.__closure__):
            try:
                glb[n] = cell.cell_contents
            except ValueError:
                pass
    glb_proxy = _LiveGlobals(g, glb)
    exec(code, glb_proxy, ns)
    return ns[name]


class _LiveGlobals(dict):
    """globals dict that falls back to the module's *live* globals (so patched stubs are seen)."""

    def __init__(self, live, extra):
        super().__init__(extra)
        self._live = live

    def __missing__(self, k):
        return self._live[k]


class _RetWrap(ast.NodeTransformer):
    def visit_Return(self, node):
        val = node.value if node.value is not None else ast.Constant(value=None)
        return ast.copy_location(
            ast.Return(value=ast.Tuple(elts=[ast.Constant(value="return"), val], ctx=ast.Load())), node
        )

    def visit_FunctionDef(self, node):  # do not descend into nested defs
        return node

    visit_Lambda = visit_FunctionDef
    visit_AsyncFunctionDef = visit_FunctionDef


class _ContWrap(ast.NodeTransformer):
    """`continue` belonging to THIS loop -> return of the fall-through locals (nested loops keep theirs)"""

    def __init__(self, ret):
        self.ret = ret

    def visit_Continue(self, node):
        return ast.copy_location(ast.Return(value=self.ret.value), node)

    def visit_For(self, node):
        return node

    visit_While = visit_For
    visit_FunctionDef = visit_For
    visit_Lambda = visit_For
    visit_AsyncFunctionDef = visit_For


def _own_level(stmts, kinds):
    """nodes of the given kinds at the level of this loop (not inside nested loops / defs)"""
    out = []

    def walk(n):
        for c in ast.iter_child_nodes(n):
            if isinstance(c, (ast.For, ast.While, ast.FunctionDef, ast.Lambda, ast.AsyncFunctionDef)):
                if isinstance(c, (ast.For, ast.While)):
                    # a return inside a nested loop still leaves the function
                    for m in ast.walk(c):
                        if isinstance(m, ast.Return) and ast.Return in kinds:
                            out.append(m)
                continue
            if isinstance(c, kinds):
                out.append(c)
            walk(c)

    walk(ast.Module(body=list(stmts), type_ignores=[]))
    return out


def _wrap_returns(stmt):
    # NOTE: the only rewriting done anywhere: `return v` -> `return ("return", v)` in prefix/suffix
    return _RetWrap().visit(stmt)


def pieces(fn, ordinal=0):
    src = textwrap.dedent(inspect.getsource(fn))
    tree = ast.parse(src)
    fdef = tree.body[0]
    assert isinstance(fdef, (ast.FunctionDef,)), "not a function"
    loops = [(i, s) for i, s in enumerate(fdef.body) if isinstance(s, ast.For)]
    if ordinal >= len(loops):
        raise Refused("function has %d top-level for-loops" % len(loops))
    idx, loop = loops[ordinal]
    if _own_level(loop.body, (ast.Break, ast.Return)):
        raise Refused("break/return inside loop body")
    if loop.orelse:
        raise Refused("for-else")
    pre, post = fdef.body[:idx], fdef.body[idx + 1 :]
    # drop a leading docstring from prefix
    if pre and isinstance(pre[0], ast.Expr) and isinstance(pre[0].value, ast.Constant) and isinstance(pre[0].value.value, str):
        pre = pre[1:]
    code = fn.__code__
    fn_locals = list(dict.fromkeys(list(code.co_varnames) + list(code.co_cellvars)))
    used = set(_names(fdef.body, ast.Load)) | set(_names(fdef.body, ast.Store))
    local_names = [n for n in fn_locals if n in used or n in code.co_varnames[: code.co_argcount + code.co_kwonlyargcount]]
    filename = "<%s loop %d of %s>" % ("piece", ordinal, fn.__qualname__)
    targets = _names([loop.target], ast.Store)
    return {
        "prefix": _compile("prefix", pre, local_names, fn, filename, True),
        "body": _compile("body", loop.body, local_names, fn, filename, None),
        "iter": _compile("iter", [ast.Return(value=ast.Tuple(elts=[ast.Constant(value="return"), loop.iter], ctx=ast.Load()))], local_names, fn, filename, False),
        "suffix": _compile("suffix", post, local_names, fn, filename, True),
        "targets": targets,
        "n_loops": len(loops),
        "iter_src": ast.unparse(loop.iter),
        "locals": local_names,
        "body_src": "\n".join(ast.unparse(s) for s in loop.body),
    }


def block_pieces(fn, iter_src):
    """Pieces of a `for` loop NESTED inside other statements of fn (an inline walk inside an interpreter loop): the loop is
    located by the source text of its iterable; `prefix` / `suffix` are the statements before / after it IN THE SAME
    SUITE (the innermost block that contains the loop), `body` the loop body.  Same rules as `pieces` (real AST nodes,
    own-level `continue`, refusal = engine limit).  What it decides is the block `prefix; for ...; suffix` for an
    arbitrary pre-state of the function's locals; how the enclosing code reaches that block is not part of it."""
    src = textwrap.dedent(inspect.getsource(fn))
    tree = ast.parse(src)
    fdef = tree.body[0]
    want = iter_src.replace(" ", "")
    found = []

    def walk(suite):
        for i, st in enumerate(suite):
            if isinstance(st, ast.For) and ast.unparse(st.iter).replace(" ", "") == want:
                found.append((suite, i, st))
            for field in ("body", "orelse", "finalbody"):
                sub = getattr(st, field, None)
                if isinstance(sub, list) and sub and isinstance(sub[0], ast.stmt):
                    walk(sub)
            for h in getattr(st, "handlers", []) or []:
                walk(h.body)

    walk(fdef.body)
    if len(found) != 1:
        raise Refused("%d loops over %r in %s" % (len(found), iter_src, fn.__qualname__))
    suite, idx, loop = found[0]
    if _own_level(loop.body, (ast.Break, ast.Return)) or loop.orelse:
        raise Refused("break/return/else in the nested loop")
    code = fn.__code__
    fn_locals = list(dict.fromkeys(list(code.co_varnames) + list(code.co_cellvars)))
    filename = "<block piece %r of %s>" % (iter_src, fn.__qualname__)
    targets = _names([loop.target], ast.Store)
    return {
        "prefix": _compile("prefix", suite[:idx], fn_locals, fn, filename, True),
        "body": _compile("body", loop.body, fn_locals, fn, filename, None),
        "suffix": _compile("suffix", suite[idx + 1 :], fn_locals, fn, filename, True),
        "iter": _compile("iter", [ast.Return(value=ast.Tuple(elts=[ast.Constant(value="return"), loop.iter], ctx=ast.Load()))], fn_locals, fn, filename, False),
        "targets": targets,
        "iter_src": ast.unparse(loop.iter),
        "locals": fn_locals,
        "n_loops": 1,
        "body_src": "\n".join(ast.unparse(s) for s in loop.body),
        "prefix_src": "\n".join(ast.unparse(s) for s in suite[:idx]),
        "suffix_src": "\n".join(ast.unparse(s) for s in suite[idx + 1 :]),
    }
