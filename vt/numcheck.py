"""Validation of counter-models that mention mathematical functions.

`exp` and `log` (and the finite instances LSE_n of log-sum-exp) are uninterpreted symbols for the SMT solvers: a
"counter-model" may simply interpret them in a way no exponential can behave (exp(2x) != exp(x)^2), and a formula
rewritten with an identity of exp / log would be reported as a violation although the code is right.  Before a
refutation is reported, a formula that mentions these symbols is therefore re-evaluated NUMERICALLY with the real
exp / log:

  * if every function symbol in it has a standard meaning (arithmetic, exp, log, LSE_n) the formula is evaluated at
    the solver's values of the constants and at random values; a point where the path condition holds and the goal
    fails by a clear margin is a genuine counter-example (returned); if there is none the verdict is `unknown`
    (undecided), never `refuted`;
  * if it also mentions abstract functions (densities of abstract callees, draws ...) the solver's model is kept: those
    symbols are genuinely free.
"""
from __future__ import annotations

import math
import random

import z3

MATH = ("exp", "log")
TOL = 1e-7


def _is_math_decl(name):
    return name in MATH or name.startswith("LSE_")


def mentions_math(forms):
    seen = set()

    def walk(e):
        if e.get_id() in seen:
            return False
        seen.add(e.get_id())
        if z3.is_app(e) and e.num_args() > 0 and e.decl().kind() == z3.Z3_OP_UNINTERPRETED and _is_math_decl(e.decl().name()):
            return True
        if z3.is_quantifier(e):
            return walk(e.body())
        return any(walk(c) for c in e.children())

    return any(walk(f) for f in forms)


def only_standard_symbols(forms):
    """no uninterpreted function applications other than exp / log / LSE_n, no quantifiers / lambdas / arrays"""
    seen = set()

    def ok(e):
        if e.get_id() in seen:
            return True
        seen.add(e.get_id())
        if z3.is_quantifier(e):
            return False
        if z3.is_app(e):
            d = e.decl()
            if d.kind() == z3.Z3_OP_UNINTERPRETED and e.num_args() > 0 and not _is_math_decl(d.name()):
                # a free input function (an input array w(i), an abstract density at plain arguments) is fine as long as
                # its arguments do not themselves depend on exp / log: each application is then an independent unknown
                if mentions_math(list(e.children())) or e.sort().kind() not in (z3.Z3_REAL_SORT, z3.Z3_INT_SORT, z3.Z3_BOOL_SORT):
                    return False
                if any(c.sort().kind() not in (z3.Z3_REAL_SORT, z3.Z3_INT_SORT, z3.Z3_BOOL_SORT) for c in e.children()):
                    return False
            if e.num_args() == 0 and d.kind() == z3.Z3_OP_UNINTERPRETED and e.sort().kind() not in (z3.Z3_REAL_SORT, z3.Z3_INT_SORT, z3.Z3_BOOL_SORT):
                return False
            if d.kind() in (z3.Z3_OP_SELECT, z3.Z3_OP_STORE, z3.Z3_OP_CONST_ARRAY):
                return False
        return all(ok(c) for c in e.children())

    return all(ok(f) for f in forms)


def constants(forms):
    out = {}

    def walk(e):
        if z3.is_const(e) and e.decl().kind() == z3.Z3_OP_UNINTERPRETED:
            out[e.decl().name()] = e
        for c in e.children():
            walk(c)

    for f in forms:
        walk(f)
    return out


class Undefined(Exception):
    pass


def evaluate(e, env):
    """numeric value of a term under env: {constant name: python value}; exp / log standard"""
    k = e.decl().kind() if z3.is_app(e) else None
    if z3.is_rational_value(e):
        return e.numerator_as_long() / e.denominator_as_long()
    if z3.is_int_value(e):
        return e.as_long()
    if z3.is_algebraic_value(e):
        return float(e.approx(20).as_decimal(20).rstrip("?"))
    if z3.is_true(e):
        return True
    if z3.is_false(e):
        return False
    if z3.is_const(e) and k == z3.Z3_OP_UNINTERPRETED:
        return env[e.decl().name()]
    ch = [evaluate(c, env) for c in e.children()] if k not in (z3.Z3_OP_ITE, z3.Z3_OP_AND, z3.Z3_OP_OR, z3.Z3_OP_IMPLIES) else None
    if k == z3.Z3_OP_ADD:
        return sum(ch)
    if k == z3.Z3_OP_SUB:
        r = ch[0]
        for c in ch[1:]:
            r -= c
        return r
    if k == z3.Z3_OP_UMINUS:
        return -ch[0]
    if k == z3.Z3_OP_MUL:
        r = 1
        for c in ch:
            r *= c
        return r
    if k in (z3.Z3_OP_DIV, z3.Z3_OP_IDIV):
        if ch[1] == 0:
            raise Undefined("division by zero")
        return ch[0] / ch[1] if k == z3.Z3_OP_DIV else math.floor(ch[0] / ch[1])
    if k == z3.Z3_OP_MOD:
        if ch[1] == 0:
            raise Undefined("mod zero")
        return ch[0] % ch[1]
    if k == z3.Z3_OP_POWER:
        try:
            return ch[0] ** ch[1]
        except Exception:
            raise Undefined("power")
    if k == z3.Z3_OP_TO_REAL:
        return float(ch[0])
    if k == z3.Z3_OP_TO_INT:
        return math.floor(ch[0])
    if k == z3.Z3_OP_ITE:
        c = evaluate(e.arg(0), env)
        return evaluate(e.arg(1), env) if c else evaluate(e.arg(2), env)
    if k == z3.Z3_OP_AND:
        return all(evaluate(c, env) for c in e.children())
    if k == z3.Z3_OP_OR:
        return any(evaluate(c, env) for c in e.children())
    if k == z3.Z3_OP_IMPLIES:
        return (not evaluate(e.arg(0), env)) or evaluate(e.arg(1), env)
    if k == z3.Z3_OP_NOT:
        return not ch[0]
    if k == z3.Z3_OP_XOR:
        return bool(ch[0]) != bool(ch[1])
    if k == z3.Z3_OP_EQ:
        a, b = ch
        if isinstance(a, bool) or isinstance(b, bool):
            return bool(a) == bool(b)
        return ("eq", a, b)
    if k == z3.Z3_OP_DISTINCT:
        return ("ne", ch[0], ch[1])
    if k == z3.Z3_OP_LE:
        return ch[0] <= ch[1] + TOL * (1 + abs(ch[1]))
    if k == z3.Z3_OP_LT:
        return ch[0] < ch[1]
    if k == z3.Z3_OP_GE:
        return ch[0] >= ch[1] - TOL * (1 + abs(ch[1]))
    if k == z3.Z3_OP_GT:
        return ch[0] > ch[1]
    if k == z3.Z3_OP_UNINTERPRETED:
        n = e.decl().name()
        if n == "exp":
            try:
                return math.exp(ch[0])
            except OverflowError:
                raise Undefined("exp overflow")
        if n == "log":
            if ch[0] <= 0:
                raise Undefined("log of a non-positive number")
            return math.log(ch[0])
        if n.startswith("LSE_"):
            m = max(ch)
            return m + math.log(sum(math.exp(c - m) for c in ch))
        # free input function: one unknown per distinct argument tuple
        key = (n, tuple(ch))
        fenv = env.setdefault("__funcs__", {})
        if key not in fenv:
            fenv[key] = env["__draw__"](e, ch)
        return fenv[key]
    raise Undefined("cannot evaluate %s" % e.decl().name())


def _truth(v, want):
    """truth value of an evaluated boolean with a margin: ('eq', a, b) holds iff |a-b| small.  Returns True / False /
    None (too close to call)"""
    if isinstance(v, tuple):
        kind, a, b = v
        d = abs(a - b)
        scale = 1 + max(abs(a), abs(b))
        if d <= 1e-9 * scale:
            r = True
        elif d >= 1e-5 * scale:
            r = False
        else:
            return None
        return r if kind == "eq" else (not r)
    return bool(v)


def holds(f, env):
    """three-valued numeric truth of a boolean formula (nested equalities inside connectives are handled by evaluate
    returning tuples only at top level of an equality atom: normalise by recursion)"""
    k = f.decl().kind() if z3.is_app(f) else None
    if k == z3.Z3_OP_AND:
        vals = [holds(c, env) for c in f.children()]
        if any(v is False for v in vals):
            return False
        return None if any(v is None for v in vals) else True
    if k == z3.Z3_OP_OR:
        vals = [holds(c, env) for c in f.children()]
        if any(v is True for v in vals):
            return True
        return None if any(v is None for v in vals) else False
    if k == z3.Z3_OP_NOT:
        v = holds(f.arg(0), env)
        return None if v is None else (not v)
    if k == z3.Z3_OP_IMPLIES:
        a, b = holds(f.arg(0), env), holds(f.arg(1), env)
        if a is False or b is True:
            return True
        if a is True and b is False:
            return False
        return None
    if k == z3.Z3_OP_ITE and f.sort() == z3.BoolSort():
        c = holds(f.arg(0), env)
        if c is None:
            return None
        return holds(f.arg(1), env) if c else holds(f.arg(2), env)
    return _truth(evaluate(f, env), True)


def _env_from_model(model, consts):
    env = {"__draw__": _draw_model(model)}
    for n, c in consts.items():
        v = model.eval(c, model_completion=True)
        if z3.is_true(v) or z3.is_false(v):
            env[n] = z3.is_true(v)
        elif z3.is_int_value(v):
            env[n] = v.as_long()
        elif z3.is_rational_value(v):
            env[n] = v.numerator_as_long() / v.denominator_as_long()
        elif z3.is_algebraic_value(v):
            env[n] = float(v.approx(20).as_decimal(20).rstrip("?"))
        else:
            raise Undefined("model value of %s" % n)
    return env


def _draw_random(rng):
    def draw(e, args):
        k = e.sort().kind()
        if k == z3.Z3_BOOL_SORT:
            return rng.random() < 0.5
        if k == z3.Z3_INT_SORT:
            return rng.randint(0, 4)
        return rng.choice([rng.uniform(-3, 3), rng.uniform(0.05, 0.95), rng.uniform(-1, 1)])

    return draw


def _draw_model(model):
    def draw(e, args):
        def num(a, srt):
            if srt.kind() == z3.Z3_BOOL_SORT:
                return z3.BoolVal(bool(a))
            if srt.kind() == z3.Z3_INT_SORT:
                return z3.IntVal(int(a))
            return z3.RealVal(repr(float(a)))

        app = e.decl()(*[num(a, e.arg(i).sort()) for i, a in enumerate(args)])
        v = model.eval(app, model_completion=True)
        if z3.is_true(v) or z3.is_false(v):
            return z3.is_true(v)
        if z3.is_int_value(v):
            return v.as_long()
        if z3.is_rational_value(v):
            return v.numerator_as_long() / v.denominator_as_long()
        raise Undefined("model value of an application")

    return draw


def _random_env(consts, rng):
    env = {"__draw__": _draw_random(rng)}
    for n, c in consts.items():
        s = c.sort().kind()
        if s == z3.Z3_BOOL_SORT:
            env[n] = rng.random() < 0.5
        elif s == z3.Z3_INT_SORT:
            env[n] = rng.randint(0, 4)
        else:
            env[n] = rng.choice([rng.uniform(-3, 3), rng.uniform(0.05, 0.95), rng.uniform(-1, 1)])
    return env


def validate(forms_pc, goal, model):
    """-> ('genuine', env) | ('spurious', None) | ('keep', None)
    'keep': the formula is outside what can be evaluated (abstract functions): the solver's model stands."""
    forms = list(forms_pc) + [goal]
    if not mentions_math(forms):
        return "keep", None
    if not only_standard_symbols(forms):
        return "keep", None
    consts = constants(forms)
    rng = random.Random(0)
    cands = []
    if model is not None:
        try:
            cands.append(_env_from_model(model, consts))
        except Undefined:
            pass
    cands += [_random_env(consts, rng) for _ in range(200)]
    for env in cands:
        try:
            if all(holds(f, env) is True for f in forms_pc) and holds(goal, env) is False:
                return "genuine", env
        except (Undefined, KeyError, OverflowError, ZeroDivisionError, TypeError):
            continue
    return "spurious", None
