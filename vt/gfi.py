"""GFI spec vocabulary: abstract generative functions honouring the GFI contract (DESIGN §4.2), abstract
traces, abstract distributions, and the encoding of pytrees of proxies into the abstract value sort V.

An `AbsGF` is what a combinator / handler sees of its callee: nothing but the contract.
  G1 assess(x, a) = (D(a,x), R(a,x))
  G2 simulate(a) -> t coherent, choices = Draw(a, fresh nonce)
  G3 generate(c, a) -> (t, w): t coherent; c None => w = 0 and t as simulate; else choices GenX(a,c,nonce), w = GenW(a,c,nonce)
  G4 update(t, c, a') -> (t', w, d): t' coherent under a'; x' = UpdX(x, c) (x if c is None); w = D(a',x') + t.score; d = UpdD(x, c)
  G5 regenerate(t, s, a') -> (t', w, d): t' coherent; x' = RegX(a', x, s, nonce); w = [D(a',x') + t.score] - [P(a',x',s) - P(a,x,s)]
  G7 a trace whose leaves carry a leading lane axis reports the summed score.
`coherent(t)`: t.score = -D(t.args, t.x), t.retval = R(t.args, t.x).
"""
from __future__ import annotations

import itertools

import z3

from . import loader
from .sym import documented, Assumed, Atom, EngineLimit, Sym, V, _lift, atom, engine, fresh
from .tensor import Tensor, mk_sum

core = loader.load("core")

RealToV = z3.Function("RealToV", z3.RealSort(), V)
IntToV = z3.Function("IntToV", z3.IntSort(), V)
BoolToV = z3.Function("BoolToV", z3.BoolSort(), V)
ConsV = z3.Function("ConsV", V, V, V)
EntryV = z3.Function("EntryV", Atom, V, V, V)
StackV = z3.Function("StackV", z3.IntSort(), z3.ArraySort(z3.IntSort(), V), V)
NilV = z3.Const("NilV", V)
NoneV = z3.Const("NoneV", V)
VToReal = z3.Function("VToReal", V, z3.RealSort())
FstV = z3.Function("FstV", V, V)  # projections of an abstract pair-valued return
SndV = z3.Function("SndV", V, V)


def enc(obj):
    """pytree of proxies -> V term (injective constructors are not needed: congruence suffices)"""
    if obj is None:
        return NoneV
    if isinstance(obj, Sym):
        s = obj.e.sort()
        if s == V:
            return obj.e
        if s == z3.RealSort():
            return RealToV(obj.e)
        if s == z3.IntSort():
            return IntToV(obj.e)
        if s == z3.BoolSort():
            return BoolToV(obj.e)
        if s == Atom:
            return EntryV(obj.e, NilV, NilV)
        raise EngineLimit("enc of sort %s" % s)
    if isinstance(obj, (bool, int, float, str)):
        return enc(Sym(_lift(obj)))
    if isinstance(obj, z3.ExprRef):
        return enc(Sym(obj))
    if isinstance(obj, Tensor):
        i = z3.Int("enc!i%d" % obj.ndim)
        return StackV(_dt(obj.shape[0]), z3.Lambda([i], enc(obj[Sym(i)])))
    if isinstance(obj, (tuple, list)):
        r = NilV
        for x in reversed(obj):
            r = ConsV(enc(x), r)
        return r
    if isinstance(obj, dict):
        from .maps import SymDict

        if isinstance(obj, SymDict):
            raise EngineLimit("enc of symbolic dict")
        r = NilV
        for k in sorted(obj, reverse=True):
            r = EntryV(atom(k), enc(obj[k]), r)
        return r
    e = getattr(obj, "__vt_enc__", None)
    if e is not None:
        return e()
    if isinstance(obj, core.Const):
        return enc(obj.value) if isinstance(obj.value, (int, float, bool, str, Sym, type(None))) else NilV
    raise EngineLimit("enc of %r" % type(obj))


def _dt(d):
    if isinstance(d, Sym):
        return d.e
    return z3.IntVal(d) if isinstance(d, int) else d


def enc_args(args, kwargs):
    return ConsV(enc(tuple(args)), enc(dict(kwargs or {})))


def val(e):
    return Sym(e)


_nonce = itertools.count(1)


LaneNonce = z3.Function("LaneNonce", z3.IntSort(), z3.IntSort(), z3.IntSort())


def next_nonce():
    """fresh nonce; inside a vmap lane / scan step it is indexed by the lane / step variables
    (independent draw per lane and per iteration — part of the assumed vmap/scan contracts)"""
    eng = engine()
    n = eng.extra.setdefault("nonce", 0) + 1
    eng.extra["nonce"] = n
    t = z3.IntVal(n)
    for lv in eng.extra.get("lanes", []):
        t = LaneNonce(t, lv)
    return t


@core.Pytree.dataclass
class AbsTrace(core.Trace):
    """trace of an abstract callee: only what the contract says about it"""

    gf: object = core.Pytree.static()
    args: object
    x: object
    retval: object
    score: object

    def get_gen_fn(self):
        return self.gf

    def get_choices(self):
        return self.x

    def get_fixed_choices(self):
        return self.x

    def get_args(self):
        return self.args

    def get_retval(self):
        return self.retval

    def get_score(self):
        Assumed.note("G7 (assumed of callee traces): a vectorised trace reports the sum of its lane scores")
        s = self.score
        return s.sum() if isinstance(s, Tensor) else s


class AbsGF:
    """abstract generative function (callee) — see module docstring."""

    __vt_leaf__ = True
    _live = None  # weak set of the instances alive (their call records are part of the per-path state)

    def __init__(self, name="g", pair_retval=False, discard_kind="value", gen_total=False, ret_kind=None, carry_kind=None):
        import weakref

        if AbsGF._live is None:
            AbsGF._live = weakref.WeakSet()
        AbsGF._live.add(self)
        n = engine().fresh_name
        self.name = name
        # (carry, out) callees: the carry may be a NUMBER (carry_kind="float") instead of an abstract value
        self.carry_kind = carry_kind
        self.CarryF = z3.Function(n("CarryF_" + name), V, z3.RealSort())
        self.D = z3.Function(n("D_" + name), V, V, z3.RealSort())
        # return value: an abstract value, or (ret_kind="int" / "float") a NUMBER of that dtype
        self.ret_kind = ret_kind
        rs = {None: V, "int": z3.IntSort(), "float": z3.RealSort()}[ret_kind]
        self.R = z3.Function(n("R_" + name), V, V, rs)
        self.DrawF = z3.Function(n("Draw_" + name), V, z3.IntSort(), V)
        self.GenX = z3.Function(n("GenX_" + name), V, V, z3.IntSort(), V)
        self.GenW = z3.Function(n("GenW_" + name), V, V, z3.IntSort(), z3.RealSort())
        self.UpdX = z3.Function(n("UpdX_" + name), V, V, V)
        self.UpdD = z3.Function(n("UpdD_" + name), V, V, V)
        self.RegX = z3.Function(n("RegX_" + name), V, V, V, z3.IntSort(), V)
        self.RegD = z3.Function(n("RegD_" + name), V, V, V)
        self.P = z3.Function(n("P_" + name), V, V, V, z3.RealSort())
        self.MergeF = z3.Function(n("Merge_" + name), V, V, V, V)
        self.MergeD = z3.Function(n("MergeD_" + name), V, V, V)
        self.pair_retval = pair_retval
        self.discard_kind = discard_kind  # "value" | "none" | "dict" | "either"
        self.calls = []

    def __repr__(self):
        return "<AbsGF %s>" % self.name

    # retval as python object: scalar V, or a (carry, out) pair for scan callees
    def _ret(self, a, x):
        r = self.R(a, x)
        if self.pair_retval:
            if self.carry_kind == "float":
                return (Sym(self.CarryF(r)), Sym(SndV(r)))
            return (Sym(FstV(r)), Sym(SndV(r)))
        return Sym(r)

    def _trace(self, args, kwargs, x):
        a = enc_args(args, kwargs)
        return AbsTrace(self, (tuple(args), dict(kwargs)), Sym(x), self._ret(a, x), Sym(-self.D(a, x)))

    def simulate(self, *args, **kwargs):
        Assumed.note("GFI contract G2 assumed of callees (simulate -> coherent trace with fresh draw)")
        self.calls.append(("simulate", args, kwargs))
        a = enc_args(args, kwargs)
        return self._trace(args, kwargs, self.DrawF(a, next_nonce()))

    def assess(self, x, *args, **kwargs):
        Assumed.note("GFI contract G1 assumed of callees (assess = (D, R))")
        self.calls.append(("assess", (x,) + args, kwargs))
        a, xe = enc_args(args, kwargs), enc(x)
        return Sym(self.D(a, xe)), self._ret(a, xe)

    def generate(self, c, *args, **kwargs):
        Assumed.note("GFI contract G3 assumed of callees (generate: coherent trace, weight 0 without constraints)")
        self.calls.append(("generate", (c,) + args, kwargs))
        a = enc_args(args, kwargs)
        if c is None:
            return self._trace(args, kwargs, self.DrawF(a, next_nonce())), Sym(z3.RealVal(0))
        nu = next_nonce()
        ce = enc(c)
        return self._trace(args, kwargs, self.GenX(a, ce, nu)), Sym(self.GenW(a, ce, nu))

    def _old(self, tr):
        if not isinstance(tr, AbsTrace):
            raise EngineLimit("abstract callee given a %s" % type(tr).__name__)
        return tr

    def update(self, tr, c, *args, **kwargs):
        Assumed.note("GFI contract G4 assumed of callees (update: coherent new trace, weight = D(new) + old score, discard)")
        self.calls.append(("update", (tr, c) + args, kwargs))
        tr = self._old(tr)
        a = enc_args(args, kwargs)
        xo = enc(tr.x)
        x2 = xo if c is None else self.UpdX(xo, enc(c))
        new = self._trace(args, kwargs, x2)
        w = Sym(self.D(a, x2)) + tr.score
        d = None if c is None else Sym(self.UpdD(xo, enc(c)))
        return new, w, d

    def regenerate(self, tr, s, *args, **kwargs):
        Assumed.note("GFI contract G5 assumed of callees (regenerate: coherent new trace, MH weight, total)")
        self.calls.append(("regenerate", (tr, s) + args, kwargs))
        tr = self._old(tr)
        a = enc_args(args, kwargs)
        a_old = enc_args(*tr.args) if isinstance(tr.args, tuple) and len(tr.args) == 2 and isinstance(tr.args[1], dict) else enc(tr.args)
        xo = enc(tr.x)
        se = sel_id(s)
        x2 = self.RegX(a, xo, se, next_nonce())
        new = self._trace(args, kwargs, x2)
        w = (Sym(self.D(a, x2)) + tr.score) - (Sym(self.P(a, x2, se)) - Sym(self.P(a_old, xo, se)))
        kind = self.discard_kind
        if kind == "either":
            kind = "none" if engine().decide(fresh("discard_is_None", z3.BoolSort())) else "value"
        if kind == "none":
            d = None
        elif kind == "dict":
            d = {"k": Sym(self.RegD(xo, se))}
        else:
            d = Sym(self.RegD(xo, se))
        return new, w, d

    def merge(self, x, x_, check=None):
        Assumed.note("GFI contract G6 assumed of callees (merge)")
        self.calls.append(("merge", (x, x_, check), {}))
        if x is None or x_ is None:
            raise documented(TypeError("merge of None (callee merges are total only on choice maps)"))
        if check is not None:
            # G6 with check: leaf-wise `check ? x : x_` (scalar abstract values: the whole value)
            from .stubs.jnp import where

            return where(check, x, x_), None
        m = Sym(self.MergeF(enc(x), enc(x_), enc(check)))
        return m, Sym(self.MergeD(enc(x), enc(x_)))

    def filter(self, x, s):
        self.calls.append(("filter", (x, s), {}))
        raise EngineLimit("abstract filter")


_sel_ids: dict = {}


def sel_id(s):
    e = getattr(s, "__vt_enc__", None)
    if e is not None:
        return e()
    inner = getattr(s, "s", None)
    if inner is not None and getattr(inner, "__vt_enc__", None) is not None:
        return inner.__vt_enc__()
    key = id(s)
    if key not in _sel_ids:
        _sel_ids[key] = (s, z3.Const("selid!%d" % len(_sel_ids), V))
    return _sel_ids[key][1]


def coherent(tr, gf, args, kwargs):
    """the coherence clause for an abstract callee's trace"""
    a = enc_args(args, kwargs)
    x = enc(tr.get_choices())
    return z3.And(_lift(tr.get_score()) == -gf.D(a, x))


def abstract_distribution(name="d"):
    """a real `core.Distribution` whose sampler / logpdf are uninterpreted:
    sample(*a, **k) = Smp(enc(a,k), nonce),  logpdf(x, *a, **k) = LP(enc(x), enc(a,k))."""
    n = engine().fresh_name
    Smp = z3.Function(n("Smp_" + name), V, z3.IntSort(), V)
    LP = z3.Function(n("LP_" + name), V, V, z3.RealSort())
    log = []

    def sampler(*args, **kwargs):
        log.append(("sample", args, kwargs))
        return Sym(Smp(enc_args(args, kwargs), next_nonce()))

    def logpdf(x, *args, **kwargs):
        log.append(("logpdf", (x,) + args, kwargs))
        return Sym(LP(enc(x), enc_args(args, kwargs)))

    d = core.Distribution(core.Const(sampler), core.Const(logpdf), core.Const(name))
    return d, Smp, LP, log
