"""Symbolic tensors: shape = tuple of Int terms (any of them symbolic), elements = a function from an
index tuple to a scalar term.  Implements the subset of NumPy semantics the anchored code uses.

Reductions are binder terms over z3 lambdas with *linearity normalisation* done at construction:
Sum(n, i. a(i)+b(i)) = Sum(n,a)+Sum(n,b), Sum(n, i. c*a(i)) = c*Sum(n,a), Sum(n, i. c) = n*c, so equal sums
are syntactically equal atoms for the solver (hash-consed lambdas) and weight algebra is linear arithmetic.
LSE(n, i. f(i)+c) = LSE(n,f)+c and LSE(n, i. c) = c + log n likewise.
"""
from __future__ import annotations

import z3

from .sym import ext_mul, documented, Assumed, EngineLimit, Sym, _lift, _num2, engine, fresh

_IDX = [z3.Int("idx!%d" % k) for k in range(8)]
SumF = z3.Function("Sum", z3.IntSort(), z3.ArraySort(z3.IntSort(), z3.RealSort()), z3.RealSort())
LseF = z3.Function("LSE", z3.IntSort(), z3.ArraySort(z3.IntSort(), z3.RealSort()), z3.RealSort())
AnyF = z3.Function("Any", z3.IntSort(), z3.ArraySort(z3.IntSort(), z3.BoolSort()), z3.BoolSort())
LOG = z3.Function("log", z3.RealSort(), z3.RealSort())


def _dim(d):
    if isinstance(d, Sym):
        d = d.e
    if isinstance(d, int):
        return d
    d = z3.simplify(d)
    if z3.is_int_value(d):
        return d.as_long()
    return d


def dim_eq(a, b):
    a, b = _dim(a), _dim(b)
    if isinstance(a, int) and isinstance(b, int):
        return a == b
    if isinstance(a, int) or isinstance(b, int):
        return False
    return z3.eq(a, b)


def _dterm(d):
    if isinstance(d, Sym):
        return d.e
    return z3.IntVal(d) if isinstance(d, int) else d


def _contains(e, v):
    if z3.eq(e, v):
        return True
    return any(_contains(c, v) for c in e.children())


def _toreal(e):
    return z3.ToReal(e) if e.sort() == z3.IntSort() else e


def mk_sum(n, body_fn):
    """Sum_{i<n} body_fn(i) with linearity normalisation."""
    Assumed.note("Sum(n, f): finite sum; linear in f (normalised at construction); equal bodies give equal sums")
    nd = _dim(n)
    if isinstance(nd, int) and 0 <= nd <= 8:  # concrete short sums are written out
        terms = [z3.simplify(_toreal(body_fn(z3.IntVal(k)))) for k in range(nd)]
        return z3.Sum(terms) if len(terms) > 1 else (terms[0] if terms else z3.RealVal(0))
    n = _dterm(nd)
    i = z3.Int("sum!i")
    body = z3.simplify(_toreal(body_fn(i)))
    return _sum_norm(n, i, body)


def _sum_norm(n, i, body):
    if not _contains(body, i):
        return _toreal(n) * body
    k = body.decl().kind()
    if k == z3.Z3_OP_ADD:
        return z3.Sum([_sum_norm(n, i, c) for c in body.children()])
    if k == z3.Z3_OP_SUB:
        cs = body.children()
        return _sum_norm(n, i, cs[0]) - z3.Sum([_sum_norm(n, i, c) for c in cs[1:]])
    if k == z3.Z3_OP_UMINUS:
        return -_sum_norm(n, i, body.children()[0])
    if k == z3.Z3_OP_MUL:
        cs = body.children()
        free = [c for c in cs if not _contains(c, i)]
        dep = [c for c in cs if _contains(c, i)]
        if free and len(dep) >= 1:
            inner = dep[0] if len(dep) == 1 else z3.Product(dep)
            return z3.Product(free) * _sum_norm(n, i, inner)
    return SumF(n, z3.Lambda([i], body))


def mk_lse(n, body_fn):
    Assumed.note("LSE(n, f) = log sum_i exp f(i); LSE(n, f + c) = LSE(n, f) + c; LSE(n, const c) = c + log n")
    n = _dterm(_dim(n))
    i = z3.Int("sum!i")
    body = z3.simplify(_toreal(body_fn(i)))
    if not _contains(body, i):
        return body + LOG(_toreal(n))
    shift = []
    if body.decl().kind() == z3.Z3_OP_ADD:
        dep = [c for c in body.children() if _contains(c, i)]
        shift = [c for c in body.children() if not _contains(c, i)]
        body = z3.Sum(dep) if len(dep) > 1 else dep[0]
    t = LseF(n, z3.Lambda([i], body))
    return t + z3.Sum(shift) if shift else t


def mk_any(n, body_fn):
    n = _dterm(_dim(n))
    i = z3.Int("sum!i")
    return AnyF(n, z3.Lambda([i], body_fn(i)))


class Tensor:
    __vt_tensor__ = True
    __array_priority__ = 2000

    def __init__(self, shape, fn):
        self._shape = tuple(_dim(d) for d in shape)
        self.fn = fn

    @property
    def shape(self):
        """dims as python ints or Sym ints (so that real code may test / compare them)"""
        return tuple(d if isinstance(d, int) else Sym(d) for d in self._shape)

    # -- construction ------------------------------------------------------------------------------
    @staticmethod
    def fresh(name, shape, sort=None):
        sort = z3.RealSort() if sort is None else sort
        f = z3.Function(engine().fresh_name(name), *([z3.IntSort()] * len(shape)), sort) if shape else None
        if not shape:
            return Sym(fresh(name, sort))
        return Tensor(shape, lambda idx: f(*idx))

    @staticmethod
    def from_list(xs):
        xs = list(xs)
        if xs and isinstance(xs[0], (list, tuple, Tensor)):
            rows = [x if isinstance(x, Tensor) else Tensor.from_list(x) for x in xs]
            inner = rows[0].shape

            def fn(idx):
                r = rows[-1].fn(idx[1:])
                for k in range(len(rows) - 2, -1, -1):
                    r = z3.If(idx[0] == k, rows[k].fn(idx[1:]), r)
                return r

            return Tensor((len(rows),) + inner, fn)
        es = [_lift(x) for x in xs]
        if len({e.sort() for e in es}) > 1:
            es = [_toreal(e) for e in es]

        def fn(idx):
            r = es[-1]
            for k in range(len(es) - 2, -1, -1):
                r = z3.If(idx[0] == k, es[k], r)
            return r

        return Tensor((len(es),), fn)

    # -- basics ------------------------------------------------------------------------------------
    @property
    def ndim(self):
        return len(self._shape)

    @property
    def dtype(self):
        s = self.elem_sort()
        return "bool" if s == z3.BoolSort() else ("int" if s == z3.IntSort() else "float")

    def elem_sort(self):
        return self.fn(tuple(_IDX[: self.ndim])).sort()

    def el(self, *idx):
        return Sym(self.fn(tuple(_lift(i) for i in idx)))

    def __vt_len__(self):
        if not self.shape:
            raise documented(TypeError("len() of unsized object"))
        return self.shape[0]

    def __len__(self):
        d = self._shape[0]
        if isinstance(d, int):
            return d
        raise EngineLimit("len() of tensor with symbolic leading dim (module must shadow len)")

    def __repr__(self):
        try:
            return "Tensor%s[%s]" % (self.shape, z3.simplify(self.fn(tuple(_IDX[: self.ndim]))))
        except Exception:
            return "Tensor%s" % (self.shape,)

    def __hash__(self):
        return id(self)

    def __bool__(self):
        raise EngineLimit("truth value of a tensor")

    def __iter__(self):
        d = self.shape[0]
        if isinstance(d, int):
            return iter([self[k] for k in range(d)])
        raise EngineLimit("iteration over tensor with symbolic length")

    def map(self, f):
        return Tensor(self.shape, lambda idx: _lift(f(Sym(self.fn(idx)))))

    def astype(self, dt):
        from .sym import cast_to, dtype_kind

        if dtype_kind(dt) is None:
            return self
        src = self.fn
        probe = cast_to(Sym(src(tuple(_IDX[: self.ndim]))), dt)
        if z3.eq(probe.e, src(tuple(_IDX[: self.ndim]))):
            return self
        return Tensor(self.shape, lambda idx: cast_to(Sym(src(idx)), dt).e)

    # -- indexing ----------------------------------------------------------------------------------
    def __getitem__(self, key):
        if not isinstance(key, tuple):
            key = (key,)
        # a concrete NumPy integer array as index (e.g. a precomputed grid of retained steps) is an advanced index
        key = tuple(Tensor.from_list([int(v) for v in k]) if type(k).__module__ == "numpy" and getattr(k, "ndim", 0) == 1 and k.dtype.kind in "iu" else k for k in key)
        if any(k is Ellipsis for k in key):
            n_explicit = sum(1 for k in key if k is not None and k is not Ellipsis)
            pos = [j for j, k in enumerate(key) if k is Ellipsis][0]
            key = key[:pos] + (slice(None),) * (self.ndim - n_explicit) + key[pos + 1 :]
        n_explicit = sum(1 for k in key if k is not None)
        if n_explicit > self.ndim:
            raise documented(IndexError("too many indices"))
        key = key + (slice(None),) * (self.ndim - n_explicit)
        out_shape = []
        plan = []  # per source axis: ("fix", term) | ("out", out_pos, start, step) | ("gather", tensor, out_positions)
        src = 0
        gathers = [k for k in key if isinstance(k, Tensor)]
        if len(gathers) > 1:
            raise EngineLimit("multiple advanced indices")
        for k in key:
            if k is None:
                out_shape.append(1)
                continue
            d = self.shape[src]
            if isinstance(k, slice):
                start, stop, step = k.start, k.stop, k.step
                if step is None or step == 1:
                    if start is None and stop is None:
                        plan.append(("out", len(out_shape), 0, 1))
                        out_shape.append(d)
                    else:
                        st = 0 if start is None else start
                        if isinstance(st, int) and st < 0:
                            st = _dterm(d) + st
                        en = d if stop is None else stop
                        if isinstance(en, int) and en < 0:
                            en = _dterm(d) + en
                        ln = z3.simplify(_lift(en) - _lift(st)) if not (isinstance(en, int) and isinstance(st, int)) else en - st
                        plan.append(("out", len(out_shape), st, 1))
                        out_shape.append(ln)
                elif step == -1 and start is None and stop is None:
                    plan.append(("rev", len(out_shape), d))
                    out_shape.append(d)
                elif stop is None and (isinstance(step, Sym) or (isinstance(step, int) and step > 1)):
                    # x[a::k] with a (possibly symbolic) positive step: entries a, a+k, a+2k, ... < d; their number L
                    # is a fresh integer constrained by L*k >= d-a and (L-1)*k < d-a (no division by a symbolic step)
                    from .sym import engine, fresh

                    kk = _lift(step)
                    st = 0 if start is None else start
                    if isinstance(st, int) and st < 0:
                        st = _dterm(d) + st
                    st_t = _lift(st)
                    eng = engine()
                    eng.assume(kk >= 1)
                    L = fresh("slice_len", z3.IntSort())
                    rem = _dterm(d) - st_t
                    eng.assume(z3.If(rem <= 0, L == 0, z3.And(L >= 1, L * kk >= rem, (L - 1) * kk < rem)))
                    plan.append(("out", len(out_shape), st, kk))
                    out_shape.append(L)
                else:
                    raise EngineLimit("slice %r" % (k,))
            elif isinstance(k, Tensor):
                pos = list(range(len(out_shape), len(out_shape) + k.ndim))
                plan.append(("gather", k, pos, d))
                out_shape.extend(k.shape)
            else:
                t = _lift(k)
                if isinstance(k, int) and k < 0:
                    t = _dterm(d) + k
                plan.append(("fix", t))
            src += 1
        src_fn = self.fn

        def fn(idx):
            s = []
            for p in plan:
                if p[0] == "fix":
                    s.append(p[1])
                elif p[0] == "out":
                    s.append(idx[p[1]] * p[3] + _lift(p[2]) if not (p[2] == 0 and p[3] == 1) else idx[p[1]])
                elif p[0] == "rev":
                    s.append(_dterm(p[2]) - 1 - idx[p[1]])
                else:
                    # JAX gather semantics: an index past the end is CLAMPED to the last element (x[idx] never reads
                    # outside x); negative indices are not modelled beyond NumPy's wrap-around being absent here
                    gi = p[1].fn(tuple(idx[j] for j in p[2]))
                    nn = _dterm(p[3])
                    s.append(z3.If(gi >= nn, nn - 1, gi))
            return src_fn(tuple(s))

        if not out_shape:
            return Sym(fn(()))
        return Tensor(tuple(out_shape), fn)

    @property
    def at(self):  # jnp-style functional update: x.at[i].set(v)
        return _At(self)

    @property
    def T(self):
        if self.ndim < 2:
            return self
        rev = tuple(reversed(self.shape))
        return Tensor(rev, lambda idx: self.fn(tuple(reversed(idx))))

    def reshape(self, *shape):
        if len(shape) == 1 and isinstance(shape[0], (tuple, list)):
            shape = tuple(shape[0])
        if tuple(shape) == (-1,) and self.ndim == 1:
            return self
        if self.ndim == 0 or all(dim_eq(a, b) for a, b in zip(shape, self.shape)) and len(shape) == self.ndim:
            return self
        raise EngineLimit("reshape %r -> %r" % (self.shape, shape))

    # -- element-wise ------------------------------------------------------------------------------
    def _ew(self, other, op, reflected=False):
        if isinstance(other, (Sym, int, float, bool)) or isinstance(other, z3.ExprRef):
            o = _lift(other)

            def fn(idx):
                a, b = self.fn(idx), o
                if reflected:
                    a, b = b, a
                return op(a, b)

            return Tensor(self.shape, fn)
        if isinstance(other, Tensor):
            shp, ia, ib = broadcast_shapes(self.shape, other.shape)

            def fn(idx):
                a, b = self.fn(ia(idx)), other.fn(ib(idx))
                if reflected:
                    a, b = b, a
                return op(a, b)

            return Tensor(shp, fn)
        return NotImplemented

    def __add__(self, o):
        return self._ew(o, lambda a, b: _ar(a, b, lambda x, y: x + y))

    def __radd__(self, o):
        return self._ew(o, lambda a, b: _ar(a, b, lambda x, y: x + y), True)

    def __sub__(self, o):
        return self._ew(o, lambda a, b: _ar(a, b, lambda x, y: x - y))

    def __rsub__(self, o):
        return self._ew(o, lambda a, b: _ar(a, b, lambda x, y: x - y), True)

    def __mul__(self, o):
        return self._ew(o, ext_mul)

    def __rmul__(self, o):
        return self._ew(o, ext_mul, True)

    def __truediv__(self, o):
        return self._ew(o, lambda a, b: _toreal(a) / _toreal(b))

    def __rtruediv__(self, o):
        return self._ew(o, lambda a, b: _toreal(a) / _toreal(b), True)

    def __neg__(self):
        return Tensor(self.shape, lambda idx: -self.fn(idx))

    def __pow__(self, k):
        if isinstance(k, int) and k >= 1:
            r = self
            for _ in range(k - 1):
                r = r * self
            return r
        raise EngineLimit("tensor power")

    def __lt__(self, o):
        return self._ew(o, lambda a, b: _ar(a, b, lambda x, y: x < y))

    def __le__(self, o):
        return self._ew(o, lambda a, b: _ar(a, b, lambda x, y: x <= y))

    def __gt__(self, o):
        return self._ew(o, lambda a, b: _ar(a, b, lambda x, y: x > y))

    def __ge__(self, o):
        return self._ew(o, lambda a, b: _ar(a, b, lambda x, y: x >= y))

    def __eq__(self, o):  # type: ignore[override]
        return self._ew(o, lambda a, b: _ar(a, b, lambda x, y: x == y))

    def __ne__(self, o):  # type: ignore[override]
        return self._ew(o, lambda a, b: _ar(a, b, lambda x, y: x != y))

    def __invert__(self):
        return Tensor(self.shape, lambda idx: z3.Not(self.fn(idx)))

    def __and__(self, o):
        return self._ew(o, lambda a, b: z3.And(a, b))

    def __or__(self, o):
        return self._ew(o, lambda a, b: z3.Or(a, b))

    def __matmul__(self, o):
        if not isinstance(o, Tensor):
            return NotImplemented
        return matmul(self, o)

    def __rmatmul__(self, o):
        if not isinstance(o, Tensor):
            return NotImplemented
        return matmul(o, self)

    # -- reductions --------------------------------------------------------------------------------
    def _reduce(self, axis, mk):
        if self.ndim == 0:
            return Sym(self.fn(()))
        if axis is None:
            t = self
            while isinstance(t, Tensor):
                t = t._reduce(t.ndim - 1, mk)
            return t
        if axis < 0:
            axis += self.ndim
        n = self.shape[axis]
        rest = self.shape[:axis] + self.shape[axis + 1 :]

        def fn(idx):
            return mk(n, lambda i: self.fn(tuple(idx[:axis]) + (i,) + tuple(idx[axis:])))

        if not rest:
            return Sym(fn(()))
        return Tensor(rest, fn)

    def sum(self, axis=None, **kw):
        if self.elem_sort() == z3.BoolSort():
            t = Tensor(self.shape, lambda idx: z3.If(self.fn(idx), z3.RealVal(1), z3.RealVal(0)))
            return t._reduce(axis, mk_sum)
        return self._reduce(axis, mk_sum)

    def any(self, axis=None):
        return self._reduce(axis, mk_any)

    def mean(self, axis=None):
        if axis is None and self.ndim == 1:
            return self.sum() / Sym(_toreal(_dterm(self.shape[0])))
        raise EngineLimit("mean over axis")


def _ar(a, b, op):
    if a.sort() != b.sort() and z3.is_arith_sort(a.sort()) or a.sort() == z3.BoolSort() != b.sort():
        try:
            a, b = _num2(a, b)
        except EngineLimit:
            pass
    return op(a, b)


def _dims_equal(da, db):
    """decide equality of two dims; symbolic ones split the path (a shape either matches or it does not)"""
    if dim_eq(da, db):
        return True
    if isinstance(_dim(da), int) and isinstance(_dim(db), int):
        return False
    from .sym import Engine

    if Engine.current is None:
        raise EngineLimit("cannot decide equality of dims %s and %s outside an exploration" % (da, db))
    return engine().decide(_dterm(_dim(da)) == _dterm(_dim(db)))


def _dim_is_one(d):
    d = _dim(d)
    if isinstance(d, int):
        return d == 1
    return False  # a symbolic dim broadcasts only when it is equal to the other one


def broadcast_shapes(sa, sb):
    n = max(len(sa), len(sb))
    pa, pb = (1,) * (n - len(sa)) + tuple(sa), (1,) * (n - len(sb)) + tuple(sb)
    out, ma, mb = [], [], []
    for da, db in zip(pa, pb):
        if _dim_is_one(da) and not _dim_is_one(db):
            out.append(db)
            ma.append(False)
            mb.append(True)
        elif _dim_is_one(db) and not _dim_is_one(da):
            out.append(da)
            ma.append(True)
            mb.append(False)
        elif _dims_equal(da, db):
            out.append(da)
            ma.append(True)
            mb.append(True)
        else:
            raise documented(ValueError("operands could not be broadcast together with shapes %s %s" % (tuple(sa), tuple(sb))))
    oa, ob = n - len(sa), n - len(sb)

    def ia(idx):
        return tuple(idx[k] if ma[k] else z3.IntVal(0) for k in range(oa, n))

    def ib(idx):
        return tuple(idx[k] if mb[k] else z3.IntVal(0) for k in range(ob, n))

    return tuple(out), ia, ib


def matmul(a, b):
    Assumed.note("a @ b is sum_k a[..., k] * b[k, ...] (matrix/vector product)")
    if not (isinstance(a, Tensor) and isinstance(b, Tensor)):
        raise EngineLimit("matmul of non-tensors")
    if a.ndim == 2 and b.ndim == 2:
        if not _dims_equal(a.shape[1], b.shape[0]):
            raise documented(TypeError("matmul shape mismatch %s @ %s" % (a.shape, b.shape)))
        return Tensor((a.shape[0], b.shape[1]), lambda idx: mk_sum(a.shape[1], lambda k: a.fn((idx[0], k)) * b.fn((k, idx[1]))))
    if a.ndim == 2 and b.ndim == 1:
        if not _dims_equal(a.shape[1], b.shape[0]):
            raise documented(TypeError("matmul shape mismatch %s @ %s" % (a.shape, b.shape)))
        return Tensor((a.shape[0],), lambda idx: mk_sum(a.shape[1], lambda k: a.fn((idx[0], k)) * b.fn((k,))))
    if a.ndim == 1 and b.ndim == 2:
        if not _dims_equal(a.shape[0], b.shape[0]):
            raise documented(TypeError("matmul shape mismatch %s @ %s" % (a.shape, b.shape)))
        return Tensor((b.shape[1],), lambda idx: mk_sum(a.shape[0], lambda k: a.fn((k,)) * b.fn((k, idx[0]))))
    if a.ndim == 1 and b.ndim == 1:
        return Sym(mk_sum(a.shape[0], lambda k: a.fn((k,)) * b.fn((k,))))
    raise EngineLimit("matmul ranks %d @ %d" % (a.ndim, b.ndim))


class _At:
    def __init__(self, t):
        self.t = t

    def __getitem__(self, key):
        return _AtKey(self.t, key)


class _AtKey:
    def __init__(self, t, key):
        self.t, self.key = t, key

    def set(self, v):
        t, key = self.t, self.key
        # writing into an array converts the value to the ARRAY's dtype (a float written into an integer buffer is
        # truncated)
        if t.elem_sort() == z3.IntSort():
            from .sym import cast_to

            if isinstance(v, Tensor) and v.elem_sort() == z3.RealSort():
                v = v.astype("int")
            elif isinstance(v, Sym) and v.e.sort() == z3.RealSort():
                v = cast_to(v, "int")
        elif t.elem_sort() == z3.RealSort():
            if isinstance(v, Tensor) and v.elem_sort() == z3.IntSort():
                v = v.astype("float")
            elif isinstance(v, Sym) and v.e.sort() == z3.IntSort():
                v = Sym(z3.ToReal(v.e))
        if isinstance(key, tuple) or t.ndim < 1:
            raise EngineLimit(".at[tuple].set")
        n = _dterm(t.shape[0])
        if isinstance(key, slice):
            if key.step not in (None, 1):
                raise EngineLimit(".at[stepped slice].set")
            lo = 0 if key.start is None else key.start
            hi = n if key.stop is None else key.stop
            lo = (n + lo) if isinstance(lo, int) and lo < 0 else _lift(lo)
            hi = (n + hi) if isinstance(hi, int) and hi < 0 else _lift(hi)
            if not isinstance(v, Tensor):
                raise EngineLimit(".at[slice].set(scalar)")

            def fn(idx):
                inside = z3.And(idx[0] >= lo, idx[0] < hi)
                return z3.If(inside, v.fn((idx[0] - lo,) + tuple(idx[1:])), t.fn(idx))

            return Tensor(t.shape, fn)
        k = _lift(key)
        if isinstance(key, int) and key < 0:
            k = n + key

        def fn(idx):
            new = _lift(v) if not isinstance(v, Tensor) else v.fn(idx[1:])
            return z3.If(idx[0] == k, new, t.fn(idx))

        return Tensor(t.shape, fn)


def t_where(c, a, b):
    def as_t(x):
        if isinstance(x, Tensor):
            return x
        e = _lift(x)
        return Tensor((), lambda idx: e)

    c, a, b = as_t(c), as_t(a), as_t(b)
    s1, ia, ib = broadcast_shapes(a.shape, b.shape)
    ab = Tensor(s1, lambda idx: (a.fn(ia(idx)), b.fn(ib(idx))))
    s2, ic, iab = broadcast_shapes(c.shape, s1)

    def fn(idx):
        x, y = ab.fn(iab(idx))
        if x.sort() != y.sort():
            x, y = _num2(x, y)
        return z3.If(c.fn(ic(idx)), x, y)

    return Tensor(s2, fn) if s2 else Sym(fn(()))


def t_map2(f, a, b):
    def as_t(x):
        if isinstance(x, Tensor):
            return x
        e = _lift(x)
        return Tensor((), lambda idx: e)

    a, b = as_t(a), as_t(b)
    s, ia, ib = broadcast_shapes(a.shape, b.shape)
    return Tensor(s, lambda idx: _lift(f(Sym(a.fn(ia(idx))), Sym(b.fn(ib(idx))))))


def stack_lanes(n, lane_fn):
    """Tensor with leading axis n whose lane i is lane_fn(i) (a Sym / Tensor / python scalar)."""
    probe = lane_fn(_IDX[7])
    if isinstance(probe, Tensor):
        inner = probe.shape
        return Tensor((n,) + inner, lambda idx: lane_fn(idx[0]).fn(tuple(idx[1:])))
    return Tensor((n,), lambda idx: _lift(lane_fn(idx[0])))


def lane(x, i, axis=0):
    """slice lane i of a batched leaf along `axis`"""
    if isinstance(x, Tensor):
        if axis < 0:
            axis += x.ndim
        if axis >= x.ndim:
            raise documented(ValueError("vmap in_axes %d out of range for rank %d" % (axis, x.ndim)))
        key = (slice(None),) * axis + (Sym(i) if not isinstance(i, Sym) else i,)
        return x[key]
    raise documented(ValueError("vmap was requested to map its argument along axis %d, which implies that its rank should be at least %d, but is only 0" % (axis, axis + 1)))
