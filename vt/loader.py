"""Import the repository's modules from the *current working tree* without running genjax/__init__.py.

The only thing skipped is `beartype_this_package(...)` (run-time type-check decorators, which would
reject proxy values).  Every function object is the one CPython compiled from /repo/src/genjax/*.py.
"""
import hashlib
import importlib
import inspect
import os
import sys
import types

REPO = os.environ.get("GENJAX_REPO", "/repo")
SRC = os.path.join(REPO, "src")
PKG = os.path.join(SRC, "genjax")


def install():
    if "genjax" in sys.modules and getattr(sys.modules["genjax"], "__vt__", False):
        return sys.modules["genjax"]
    if "genjax" in sys.modules:
        raise RuntimeError("genjax already imported through its __init__")
    pkg = types.ModuleType("genjax")
    pkg.__path__ = [PKG]
    pkg.__file__ = os.path.join(PKG, "__init__.py")
    pkg.__package__ = "genjax"
    pkg.__vt__ = True
    sys.modules["genjax"] = pkg
    # sub-packages whose __init__ only re-export are imported normally (inference, extras, adev)
    return pkg


def load(name):
    """load('core') -> module genjax.core from the working tree."""
    install()
    return importlib.import_module("genjax." + name)


def resolve(qual):
    """'genjax.core:Vmap.update' -> (module, owner, function object)."""
    modname, _, path = qual.partition(":")
    assert modname.startswith("genjax.")
    mod = load(modname[len("genjax."):])
    obj = mod
    owner = mod
    for part in path.split("."):
        owner = obj
        if not hasattr(obj, part):
            raise MissingTarget(qual)
        obj = inspect.getattr_static(obj, part) if inspect.isclass(obj) else getattr(obj, part)
    if isinstance(obj, (staticmethod, classmethod)):
        obj = obj.__func__
    return mod, owner, obj


class MissingTarget(Exception):
    pass


def source_hash(fn):
    try:
        src = inspect.getsource(fn)
    except (OSError, TypeError):
        return None
    return hashlib.sha256(src.encode()).hexdigest()[:16]


def native_genjax():
    """Import the package the normal way (with beartype) — used by native replays, in a fresh process."""
    if SRC not in sys.path:
        sys.path.insert(0, SRC)
    import genjax  # noqa
    return genjax
