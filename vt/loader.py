"""Import the repository's modules from the *current working tree* without running genjax/__init__.py.

The only thing skipped is `beartype_this_package(...)` (run-time type-check decorators, which would
reject proxy values).  Every function object is the one CPython compiled from /repo/src/genjax/*.py.
"""
import hashlib
import importlib
import inspect
import os
import sys
import types

REPO = os.environ.get("GENJAX_REPO", "/repo")
SRC = os.path.join(REPO, "src")
PKG = os.path.join(SRC, "genjax")


def install():
    if "genjax" in sys.modules and getattr(sys.modules["genjax"], "__vt__", False):
        return sys.modules["genjax"]
    if "genjax" in sys.modules:
        raise RuntimeError("genjax already imported through its __init__")
    pkg = types.ModuleType("genjax")
    pkg.__path__ = [PKG]
    pkg.__file__ = os.path.join(PKG, "__init__.py")
    pkg.__package__ = "genjax"
    pkg.__vt__ = True
    sys.modules["genjax"] = pkg
    # sub-packages whose __init__ only re-export are imported normally (inference, extras, adev)
    return pkg


_ORIG: dict = {}


def load(name):
    """load('core') -> module genjax.core from the working tree."""
    install()
    first = ("genjax." + name) not in sys.modules
    mod = importlib.import_module("genjax." + name)
    if first or name not in _ORIG:
        # the module-level objects as CPython compiled them, before any contract module patches dependencies in
        # the module's namespace: contracts always target THESE (a name another contract replaced by a stub, such as
        # pjax.stage, still resolves to the real function)
        _ORIG.setdefault(name, {k: v for k, v in vars(mod).items() if inspect.isfunction(v) or inspect.isclass(v)})
    return mod


def original(modname, attr):
    load(modname)
    return _ORIG[modname][attr]


def resolve(qual):
    """'genjax.core:Vmap.update' -> (module, owner, function object)."""
    modname, _, path = qual.partition(":")
    assert modname.startswith("genjax.")
    mod = load(modname[len("genjax."):])
    obj = mod
    owner = mod
    first = True
    for part in path.split("."):
        owner = obj
        if first:
            first = False
            orig = _ORIG.get(modname[len("genjax."):], {}).get(part)
            if orig is not None and getattr(orig, "__module__", None) == modname:
                obj = orig
                continue
        if not hasattr(obj, part):
            raise MissingTarget(qual)
        obj = inspect.getattr_static(obj, part) if inspect.isclass(obj) else getattr(obj, part)
    if isinstance(obj, (staticmethod, classmethod)):
        obj = obj.__func__
    return mod, owner, obj


class MissingTarget(Exception):
    pass


def source_hash(fn):
    try:
        src = inspect.getsource(fn)
    except (OSError, TypeError):
        return None
    return hashlib.sha256(src.encode()).hexdigest()[:16]


def native_genjax():
    """Import the package the normal way (with beartype) — used by native replays, in a fresh process."""
    if SRC not in sys.path:
        sys.path.insert(0, SRC)
    import genjax  # noqa
    return genjax
