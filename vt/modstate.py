"""Frame condition on MODULE-LEVEL state of the code under verification.

A function of the repository may keep interpreter-wide state in a module global (a mode flag, a stack, a cache).  After
a call - whether it returned or raised - such state must be what it was before, unless the state's whole purpose is to
change (listed in EXPECTED_TO_CHANGE with the reason).  A flag left set by a call that raised silently changes what
every later call computes (history dependence no single-call postcondition sees).

mark():  {(module, name): token} for every module-level name of the loaded genjax modules bound to an immutable scalar
         (bool / int / float / str / None): a mode flag, a counter
check(): one clause per run: nothing changed except the allow-list
"""
from __future__ import annotations

import sys

# (module suffix, name) -> why a change is the state's purpose
EXPECTED_TO_CHANGE = {}


def _token(v):
    if v is None or isinstance(v, (bool, int, float, str)):
        return ("value", v)
    # containers are NOT watched: a memo cache that grows is legitimate as long as it is keyed on everything the result
    # depends on (that is what the history cases of the contracts and the native batteries check)
    return None


def mark():
    out = {}
    for mname, mod in list(sys.modules.items()):
        if not (mname == "genjax" or mname.startswith("genjax.")) or mod is None:
            continue
        for k, v in list(vars(mod).items()):
            if k.startswith("__"):
                continue
            t = _token(v)
            if t is not None:
                out[(mname, k)] = t
    return out


def changed(before):
    now = mark()
    diffs = []
    for key, t in before.items():
        if key in EXPECTED_TO_CHANGE:
            continue
        t2 = now.get(key, ("gone",))
        if t2 != t:
            diffs.append((key, t, t2))
    return diffs


def check(before):
    d = changed(before)
    name = "module_level_state_is_left_as_it_was_found"
    if d:
        name += "(changed: %s)" % ", ".join("%s.%s %r -> %r" % (m, k, a[1] if len(a) > 1 else a, b[1] if len(b) > 1 else b) for (m, k), a, b in d[:3])
    return [(name, not d)]
