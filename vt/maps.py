"""Collections with symbolic keys / symbolic length, used where the real code keeps dicts keyed by
addresses (`trace_map`, `choice_map`, `discard`, `DictSel.d`, `visited_addresses`) or tuple addresses.
"""
from __future__ import annotations

import z3

from .sym import documented, Atom, EngineLimit, Sym, _lift, atom, engine, fresh


def key_term(k):
    if isinstance(k, Sym):
        if k.e.sort() != Atom:
            raise EngineLimit("map key of sort %s" % k.e.sort())
        return k.e
    if isinstance(k, str):
        return atom(k)
    if isinstance(k, z3.ExprRef):
        return k
    raise EngineLimit(f"map key {k!r}")


class _Deleted:
    def __repr__(self):
        return "<deleted>"


DELETED = _Deleted()


class SymDict(dict):
    """dict keyed by Atoms.  Content = uninterpreted initial content + explicit writes.

    init_has(k) -> z3 Bool ; init_get(k) -> python object (may be a proxy built from k).
    Subclass of dict so that `isinstance(v, dict)` in the real code sees a dict; the base storage is unused.
    """

    def __init__(self, name="m", init_has=None, init_get=None, nonempty=None, generic_items=None):
        super().__init__()
        self.name = name
        self._init_has = init_has or (lambda k: z3.BoolVal(False))
        self._init_get = init_get
        self.writes: list = []  # (key term, value)
        self._nonempty = nonempty  # z3 Bool or None
        self._generic_items = generic_items  # list of (key, value) to yield from items()

    # -- spec-side API ---------------------------------------------------------------------------
    def has(self, k) -> z3.BoolRef:
        k = key_term(k)
        r = self._init_has(k)
        for wk, wv in self.writes:  # later writes / deletions win
            r = z3.If(k == wk, z3.BoolVal(wv is not DELETED), r)
        return z3.simplify(r)

    @property
    def mutated(self):
        """was the map written to or deleted from (frame conditions)"""
        return bool(self.writes)

    def initial_has(self, k):
        return self._init_has(key_term(k))

    def initial_get(self, k):
        return self._init_get(key_term(k))

    def lookup_cases(self, k):
        """[(condition, value)] partitioning `has(k)`; later writes win."""
        k = key_term(k)
        out, none_before = [], []
        for wk, wv in reversed(self.writes):
            if wv is not DELETED:
                out.append((z3.And(*none_before, k == wk), wv))
            none_before.append(k != wk)
        if self._init_get is not None:
            out.append((z3.And(*none_before, self._init_has(k)), self._init_get(k)))
        return out

    def map_values(self, f):
        """lazy element-wise map (used by the jtu.tree_map stub)"""
        g = self._init_get
        d = SymDict(self.name + "'", init_has=self._init_has, init_get=(lambda k: f(g(k))) if g else None,
                    nonempty=self._nonempty)
        d.writes = [(k, v if v is DELETED else f(v)) for k, v in self.writes]
        return d

    def written_keys(self):
        return [wk for wk, _ in self.writes]

    # -- dict API used by the real code ----------------------------------------------------------
    def __contains__(self, k):  # `in` coerces to bool -> path split
        if isinstance(k, tuple):  # keys are strings; a tuple is never a key
            return False
        return bool(Sym(self.has(k)))

    def __getitem__(self, k):
        if isinstance(k, tuple):
            raise documented(KeyError(k))
        kt = key_term(k)
        for wk, wv in reversed(self.writes):
            if engine().decide(kt == wk):
                return wv
        if self._init_get is not None and engine().decide(self._init_has(kt)):
            return self._init_get(kt)
        raise documented(KeyError(k))

    def get(self, k, default=None):
        try:
            return self[k]
        except KeyError:
            return default

    def __setitem__(self, k, v):
        self.writes.append((key_term(k), v))

    def __bool__(self):
        if self.writes:
            return True
        if self._nonempty is None:
            raise EngineLimit("emptiness of symbolic dict %s" % self.name)
        return engine().decide(self._nonempty)

    def __len__(self):
        raise EngineLimit("len of symbolic dict")

    def items(self):
        if self._generic_items is None:
            raise EngineLimit("iteration over symbolic dict %s" % self.name)
        return list(self._generic_items)

    def keys(self):
        if self._generic_items is None:
            raise EngineLimit("iteration over symbolic dict %s" % self.name)
        return [k for k, _ in self._generic_items]

    def values(self):
        return [v for _, v in self.items()]

    def __iter__(self):
        return iter(self.keys())

    def __repr__(self):
        return f"SymDict<{self.name} writes={[(z3.simplify(k), v) for k, v in self.writes]}>"

    def __eq__(self, o):
        return self is o

    def __hash__(self):
        return id(self)


class SymSet:
    """set of Atoms with uninterpreted initial membership."""

    def __init__(self, name="s", init_has=None):
        self.name = name
        self._init_has = init_has or (lambda k: z3.BoolVal(False))
        self.added: list = []

    def has(self, k):
        k = key_term(k)
        return z3.Or(*[k == a for a in self.added], self._init_has(k))

    def __contains__(self, k):
        return bool(Sym(self.has(k)))

    def add(self, k):
        self.added.append(key_term(k))


class SymSeq:
    """tuple of Atoms with symbolic length (z3 Seq(Atom))."""

    def __init__(self, e):
        self.e = e

    @staticmethod
    def fresh(name):
        return SymSeq(fresh(name, z3.SeqSort(Atom)))

    @staticmethod
    def of(xs):
        ts = [z3.Unit(key_term(x)) for x in xs]
        if not ts:
            return SymSeq(z3.Empty(z3.SeqSort(Atom)))
        return SymSeq(z3.Concat(*ts) if len(ts) > 1 else ts[0])

    def length(self):
        return Sym(z3.Length(self.e))

    def __bool__(self):
        return engine().decide(z3.Length(self.e) > 0)

    def __len__(self):
        raise EngineLimit("len() of symbolic tuple (module must shadow len)")

    def __getitem__(self, i):
        if isinstance(i, slice):
            if i.step not in (None, 1):
                raise EngineLimit("stepped slice of symbolic tuple")
            start = 0 if i.start is None else i.start
            if i.stop is not None or not isinstance(start, int) or start < 0:
                raise EngineLimit("general slice of symbolic tuple")
            n = z3.Length(self.e)
            return SymSeq(z3.SubSeq(self.e, z3.IntVal(start), n - start))
        if isinstance(i, int) and i >= 0:
            return Sym(self.e[i])
        raise EngineLimit("index of symbolic tuple")

    def __eq__(self, o):
        if isinstance(o, SymSeq):
            return Sym(self.e == o.e)
        if isinstance(o, tuple):
            return Sym(self.e == SymSeq.of(o).e)
        return False

    def __hash__(self):
        return id(self)

    def __iter__(self):
        raise EngineLimit("iteration over symbolic tuple")

    def __repr__(self):
        return f"SymSeq({z3.simplify(self.e)})"


def vt_len(x):
    """shadow of builtin len for repository modules: symbolic lengths are Sym ints."""
    if isinstance(x, SymSeq):
        return x.length()
    sl = getattr(x, "__vt_len__", None)
    if sl is not None:
        return sl()
    return len(x)
