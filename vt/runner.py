"""Check runner: runs the contracts of one property, writes evidence, prints verdict lines.

Exit codes: 0 all expected obligations proved (open known findings reported as KNOWN-FINDING lines)
            1 >= 1 violation (refuted obligation not listed as an open finding)
            2 undecided (unknown / engine limit / target missing / fewer obligations than expected)
            3 checker crash (including a canary that was not refuted)
"""
from __future__ import annotations

import argparse
import importlib
import json
import os
import re
import sys
import time
import traceback

ROOT = os.path.dirname(os.path.dirname(os.path.abspath(__file__)))


def _load_json(p, default):
    try:
        with open(p) as f:
            return json.load(f)
    except FileNotFoundError:
        return default


def _safe(name):
    return re.sub(r"[^A-Za-z0-9_.\-\[\]]+", "_", name)[:180]


def run_property(pid, tier, seed, only=None):
    from . import contract as C
    from .sym import Assumed
    import contracts as CT

    t_start = time.time()
    Assumed.reset()
    mods = CT.PROPERTY_MODULES.get(pid)
    if not mods:
        print(f"property {pid}: no contracts registered (see MANIFEST.not_applicable)")
        return 2
    for m in mods:
        importlib.import_module("contracts." + m)
    classes = [c for c in C.REGISTRY if pid in c.properties]
    if only:
        classes = [c for c in classes if only in c.target]
    gated = [c for c in classes if tier not in getattr(c, "tiers", ("quick", "thorough"))]
    classes = [c for c in classes if tier in getattr(c, "tiers", ("quick", "thorough"))]
    known = _load_json(os.path.join(ROOT, "known_findings.json"), {"findings": []})
    open_findings = {
        f["obligation"]: f for f in known.get("findings", []) if f.get("property") == pid and f.get("status") == "open"
    }
    expected = _load_json(os.path.join(ROOT, "expected_counts.json"), {})
    results, metas = [], []
    for cls in classes:
        try:
            res, meta = C.run_contract(cls, tier=tier, cross=(tier == "thorough"), no_replay=set(open_findings))
        except Exception as e:  # crash of the machinery itself
            r = C.Result(cls.target + "/machinery", cls.target, "-", "machinery", cls.kind)
            r.verdict = "crash"
            r.detail = "".join(traceback.format_exception(type(e), e, e.__traceback__))[-3000:]
            res, meta = [r], {"target": cls.target}
        if cls.kind == "canary" and not any(r.clause.startswith("must_fail") for r in res) and not any(r.clause == "explore" for r in res):
            r = C.Result(cls.target + "/canary_missing", cls.target, "-", "canary_produced_no_obligation", "canary")
            r.verdict, r.detail = "crash", "canary %s produced no must_fail obligation" % cls.__name__
            res = res + [r]
        meta["kind"] = cls.kind
        meta["doc"] = (cls.__doc__ or "").strip()[:600]
        results += res
        metas.append(meta)

    # a function whose unbounded contract went undecided (restructured code) is handed to its slower bounded stand-in
    # even in the quick tier: the stand-in then decides the same specification on the restructured code
    undecided_targets = {r.target for r in results if r.verdict == "unknown" and r.kind not in ("canary",)}
    for cls in gated:
        if cls.target in undecided_targets and cls.kind == "bounded":
            try:
                res, meta = C.run_contract(cls, tier=tier, cross=False, no_replay=set(open_findings))
            except Exception as e:
                continue
            meta["kind"], meta["doc"] = cls.kind, (cls.__doc__ or "").strip()[:600]
            results += res
            metas.append(meta)
    canaries = [r for r in results if r.kind == "canary" and r.clause not in ("cover",)]
    obls = [r for r in results if r.kind not in ("canary", "bounded")]
    bounded = [r for r in results if r.kind == "bounded"]
    violations, known_hit, undecided, crashes = [], [], [], []
    for r in obls + bounded:
        if r.verdict == "proved":
            continue
        if r.verdict == "refuted":
            f = open_findings.get(r.name)
            # an open finding suppresses exactly the listed failure: same obligation AND (where given) the same symptom
            if f is not None and (not f.get("detail_contains") or f["detail_contains"] in r.detail):
                known_hit.append(r)
            else:
                violations.append(r)
        elif r.verdict == "crash":
            crashes.append(r)
        elif r.replay and r.replay.get("confirmed") and r.name not in open_findings:
            # undecided by the verifier (engine limit), but the contract's native cross-check of the same function
            # fails on this tree with a concrete input: a violation, reported with that input
            r.detail = "verifier undecided (%s); the native cross-check of this function fails on this tree" % r.detail[:300]
            violations.append(r)
        else:
            undecided.append(r)
    positive = {(r.target, r.clause, r.case): r.verdict for r in obls + bounded}
    # a canary is the negation of a clause that holds; if that clause itself is refuted on this tree (a real
    # violation, reported as such) its negation is of course not refutable: that is not a checker error
    bad_canaries = [
        r for r in canaries
        if r.clause.startswith("must_fail") and r.verdict != "refuted"
        and positive.get((r.target, r.clause[len("must_fail/"):], r.case)) == "proved"
    ]
    # a canary whose exploration hit an engine limit (restructured function) is undecided, like its contract
    undecided += [r for r in canaries if not r.clause.startswith("must_fail") and r.verdict == "unknown"]
    bad_canaries += [r for r in canaries if not r.clause.startswith("must_fail") and r.verdict not in ("proved", "unknown")]

    os.makedirs(os.path.join(ROOT, "replays", pid), exist_ok=True)
    lines = []
    for r in known_hit:
        lines.append(f"KNOWN-FINDING: property={pid} {r.name}: {open_findings[r.name].get('what_fails', '')}")
    fallback = None
    for r in violations:
        path = os.path.join(ROOT, "replays", pid, _safe(r.name) + ".json")
        rep = r.replay or {}
        confirmed = bool(rep.get("confirmed"))
        if not confirmed and not os.environ.get("VT_NO_NATIVE_FALLBACK"):
            # no counter-model replayed for this obligation: look for a failing input of the PROPERTY on the same tree
            # with the property-level native batteries (once per run); they pass on the tree the contracts were
            # written against, so a failure is a concrete input on which the real code breaks the property
            if fallback is None:
                from . import thorough as TH

                fallback = TH.property_level_native(pid)
            hit = [x for x in fallback if x.get("confirmed")]
            if hit:
                rep = {"tier": "native-property-battery", "confirmed": True, "obligation_replay": rep,
                       "note": "the obligation's own counter-model was not replayed; a property-level native battery fails on this tree (real package, concrete inputs)",
                       "failing_inputs": hit}
                confirmed = True
        doc = {
            "property": pid,
            "obligation": r.name,
            "function": r.target,
            "case": r.case,
            "clause": r.clause,
            "verifier_output": r.detail,
            "replay": rep,
            "replay_tier": rep.get("tier", "none"),
            "confirmed_on_real_code": confirmed,
            "rerun": f"./check {pid} --tier {tier} --only '{r.target}'",
        }
        with open(path, "w") as f:
            json.dump(doc, f, indent=1, default=str)
        suffix = "" if confirmed else " no-failing-input-found"
        lines.append(f"VIOLATION property={pid} replay={path} obligation={r.name}{suffix}")
    if undecided and not violations and not os.environ.get("VT_NO_NATIVE_FALLBACK"):
        # the verifier could not decide some obligation on this tree (restructured code, unmodelled dependency, solver
        # limit): the property-level native batteries (real package, concrete inputs; they pass on the tree the
        # contracts were written against) may still find a concrete failing input.  A failing battery = a violation with
        # that input; a passing battery leaves the run undecided (exit 2)
        from . import thorough as TH

        if fallback is None:
            fallback = TH.property_level_native(pid)
        hit = [x for x in fallback if x.get("confirmed")]
        if hit:
            r0 = undecided[0]
            path = os.path.join(ROOT, "replays", pid, _safe(r0.name) + ".json")
            doc = {"property": pid, "obligation": r0.name, "function": r0.target, "case": r0.case, "clause": r0.clause,
                   "verifier_output": "undecided: " + r0.detail, "replay": {"tier": "native-property-battery", "confirmed": True, "failing_inputs": hit,
                   "note": "the verifier left %d obligation(s) undecided on this tree; a property-level native battery fails on it (real package, concrete inputs)" % len(undecided)},
                   "replay_tier": "native-property-battery", "confirmed_on_real_code": True, "rerun": f"./check {pid} --tier {tier}"}
            with open(path, "w") as f:
                json.dump(doc, f, indent=1, default=str)
            lines.append(f"VIOLATION property={pid} replay={path} obligation={r0.name} (undecided by the verifier; native property battery fails)")
            violations.append(r0)
    # keep the machine-readable line format exact: VIOLATION property=<id> replay=<path>[ ... no-failing-input-found]
    # obligations expected to hold on this tree = all generated obligations minus the open known findings
    n_obl = len(obls) - sum(1 for r in known_hit if r.kind not in ("canary", "bounded"))
    n_dis = sum(1 for r in obls if r.verdict == "proved")
    few = (not only) and n_obl < expected.get(pid, 1)

    wall = time.time() - t_start
    ev = {
        "property_id": pid,
        "tier": tier,
        "seed": seed,
        "level": "proof",
        "coverage": {
            "obligations": n_obl,
            "discharged": n_dis,
            "known_findings": [r.name for r in known_hit],
            "violations": [r.name for r in violations],
            "undecided": [r.name + ": " + r.detail[:200] for r in undecided + crashes],
            "checker_cmd": f"./check {pid} --tier {tier}",
            "trusted_base": sorted(Assumed.used) + CT.STANDING_ASSUMPTIONS.get(pid, []),
            "functions_under_contract": [
                {"function": m["target"], "source_sha256_16": m.get("source_hash"), "paths": m.get("paths", 0), "kind": m.get("kind")}
                for m in metas
            ],
            "paths_explored": sum(m.get("paths", 0) for m in metas),
            "solver_seconds": round(sum(r.seconds for r in results), 3),
            "backends": sorted({b for r in results if r.backend for b in r.backend.split("+")}),
            "canaries": [{"obligation": r.name, "verdict": r.verdict} for r in canaries],
            "bounded": [r.to_json() for r in bounded],
            "samples": [r.to_json() for r in obls[:: max(1, len(obls) // 12)]][:14],
            "obligation_list": [
                {"o": r.name, "v": r.verdict, "b": r.backend, "s": round(r.seconds, 4), "p": r.paths} for r in obls
            ],
            "explanation": CT.EXPLANATION.get(pid, ""),
        },
        "assumptions": sorted(Assumed.used) + CT.STANDING_ASSUMPTIONS.get(pid, []),
        "wall_s": round(wall, 2),
        "violations": len(violations),
    }
    thorough_lines = []
    native_viol = []
    if tier == "thorough" and not only:
        from . import thorough as TH

        extra, thorough_lines = TH.run(pid)
        ev["coverage"]["thorough"] = extra
        native_viol = [x for x in extra["native_cross_checks"] if x["confirmed_violation"]]
        if any(l["verdict"] != "proved" for l in extra.get("lean_lemmas", [])):
            undecided.append(C.Result(pid + "/lean_lemma", "lean", "-", "lean_lemma", "lemma"))
    if tier == "quick" and (not only or only == "genjax"):
        # behaviour the verifier's model of numbers cannot express (NaN densities, exact -inf) is covered by NATIVE
        # stand-ins with stated inputs, run on every change; they are listed as bounded checks, never as proved
        from . import thorough as TH
        from contracts.native import run_native

        qn = []
        for spec in TH.QUICK_NATIVE.get(pid, []):
            r = run_native(*spec, timeout=600)
            qn.append({"script": list(spec), "confirmed_violation": bool(r.get("confirmed")), "tier": r.get("tier"), "kind": "bounded (native stand-in, stated inputs)", "detail": {k: v for k, v in r.items() if k != "tier"}})
        if qn:
            ev["coverage"]["quick_native_stand_ins"] = qn
            native_viol = [x for x in qn if x["confirmed_violation"]]
    os.makedirs(os.path.join(ROOT, "evidence"), exist_ok=True)
    if not only:
        with open(os.path.join(ROOT, "evidence", pid + ".json"), "w") as f:
            json.dump(ev, f, indent=1, default=str)

    for x in native_viol:
        path = os.path.join(ROOT, "replays", pid, "native_" + "_".join(x["script"]) + ".json")
        with open(path, "w") as f:
            json.dump({"property": pid, "obligation": "native cross-check " + " ".join(x["script"]), "function": "native", "replay": x}, f, indent=1, default=str)
        lines.append(f"VIOLATION property={pid} replay={path} obligation=native-cross-check:{'/'.join(x['script'])}")
    for ln in lines + thorough_lines:
        print(ln)
    for r in undecided:
        print(f"UNDECIDED property={pid} {r.name}: {r.detail[:300]}")
    for r in crashes + bad_canaries:
        print(f"CHECKER-ERROR property={pid} {r.name} ({r.verdict}): {r.detail[-1500:]}")
    print(
        f"{pid} [{tier}] functions={len(metas)} obligations={n_obl} discharged={n_dis} "
        f"known={len(known_hit)} violations={len(violations)} undecided={len(undecided)} "
        f"canaries={len(canaries) - len(bad_canaries)}/{len(canaries)} paths={ev['coverage']['paths_explored']} wall={wall:.1f}s"
    )
    if violations or native_viol:
        return 1
    if crashes or bad_canaries:
        return 3
    if undecided or few or n_obl == 0:
        if few:
            print(f"UNDECIDED property={pid}: only {n_obl} obligations generated, expected >= {expected.get(pid)}")
        return 2
    return 0


def main(argv=None):
    ap = argparse.ArgumentParser()
    ap.add_argument("property", nargs="?")
    ap.add_argument("--tier", default=os.environ.get("VERIF_TIER", "quick"), choices=["quick", "thorough"])
    ap.add_argument("--only", default=None, help="restrict to contracts whose target contains this text (no evidence written)")
    ap.add_argument("--replay", default=None)
    args = ap.parse_args(argv)
    seed = int(os.environ.get("VERIF_SEED", "0"))
    sys.path.insert(0, ROOT)
    if args.replay:
        doc = _load_json(args.replay, None)
        if doc is None:
            print("no such replay file")
            return 2
        print(json.dumps(doc, indent=1)[:4000])
        return run_property(doc["property"], args.tier, seed, only=doc["function"])
    try:
        return run_property(args.property, args.tier, seed, only=args.only)
    except Exception:
        traceback.print_exc()
        return 3


if __name__ == "__main__":
    sys.exit(main())
