"""Thorough-tier self-checks of the machinery (run in addition to the obligations with the long solver budget and
the cvc5 cross-check): mutant corpus (must be detected), benign-refactor corpus (must still verify), native
cross-checks of the real package.  Scratch copies live under mktemp -d and are removed."""
from __future__ import annotations

import concurrent.futures as cf
import json
import os
import shutil
import subprocess
import sys
import tempfile

ROOT = os.path.dirname(os.path.dirname(os.path.abspath(__file__)))
REPO = os.environ.get("GENJAX_REPO", "/repo")

NATIVE = {
    "C01": [("gfi_battery", "generic")], "C02": [("gfi_battery", "generic"), ("static_dim_length",)], "C03": [("gfi_battery", "generic"), ("gfi_battery", "cond_update")],
    "C04": [("gfi_battery", "generic"), ("gfi_battery", "scan_regenerate"), ("gfi_battery", "cond_dist_branches")], "C05": [("gfi_battery", "generic"), ("gfi_battery", "condtr_args")],
    "C08": [("gfi_battery", "vmap_int_axes")], "C09": [("mcmc_noise", "mala"), ("mcmc_noise", "hmc"), ("mcmc_offsupport",)], "C11": [("adev_native", "parallel"), ("adev_native", "geometric")],
    "C12": [("smc_resample",)], "C13": [("distributions_native",)], "C15": [("adev_native", "estimate")], "C16": [("filter_vs_spec",), ("merge_vs_spec",)],
    "C20": [("state_space_native", "hmm"), ("state_space_native", "kalman")],
    "C06": [("seed_sites",), ("seed_context",)], "C07": [("seed_sites",)], "C19": [("state_collect",)],
}


# property-level native batteries (full stack through the JAX compatibility shims, native/_compat.py)
STACK = {"C01", "C02", "C03", "C04", "C05", "C08", "C16"}
# native stand-ins that run in the QUICK tier too: behaviour outside the verifier's model of numbers (NaN log densities
# outside a support: every comparison with NaN is false, so how an accept test is WRITTEN decides what happens)
QUICK_NATIVE = {"C09": [("mcmc_offsupport",)], "C19": [("state_collect",)]}  # C19: context that exists only while the function is TRACED (open namespaces)
# further public-interface batteries with an oracle independent of the implementation
PUBLIC = {"C13": [("distributions_native",)], "C09": [("mcmc_offsupport",)], "C06": [("seed_sites",), ("seed_context",)], "C07": [("seed_sites",)], "C12": [("smc_resample",)], "C10": [("smc_resample",)], "C20": [("state_space_native", "kalman"), ("state_space_native", "hmm")]}


def property_level_native(pid):
    from contracts.native import run_native

    out = []
    # only batteries that reach the code through its PUBLIC interface with an independent oracle: the demonstrations of
    # the seeded changes (demo_battery) bring their own stand-ins for samplers and are not robust to behaviour-preserving
    # rewrites (a momentum draw written with array parameters made one fail: a false alarm) - they are cross-checks of
    # the thorough tier on the unchanged tree, never a verdict on a changed one
    specs = [("stack_battery", "all")] if pid in STACK else []
    specs += PUBLIC.get(pid, [])
    for spec in specs:
        r = run_native(*spec, timeout=1800)
        r["script"] = list(spec)
        out.append(r)
    return out


def _run_variant(entry, pid):
    d = tempfile.mkdtemp(prefix="vtmut")
    try:
        shutil.copytree(os.path.join(REPO, "src"), os.path.join(d, "src"))
        if "patch" in entry:
            r = subprocess.run(["patch", "-p1", "-s", "-i", os.path.join(ROOT, "refactors", entry["patch"])], cwd=d, capture_output=True, text=True)
            if r.returncode != 0:
                return entry["id"], "not-applicable", "patch does not apply"
        else:
            f = os.path.join(d, entry["file"])
            s = open(f).read()
            if entry["find"] not in s:
                return entry["id"], "not-applicable", "pattern not found"
            open(f, "w").write(s.replace(entry["find"], entry["repl"], 1))
        env = dict(os.environ, GENJAX_REPO=d, PYTHONDONTWRITEBYTECODE="1", JAX_PLATFORMS="cpu")
        out = subprocess.run([sys.executable, "-m", "vt.runner", pid, "--tier", "quick", "--only", "genjax"], cwd=ROOT, env=env, capture_output=True, text=True, timeout=1500)
        return entry["id"], out.returncode, out.stdout
    except subprocess.TimeoutExpired:
        return entry["id"], "timeout", ""
    finally:
        shutil.rmtree(d, ignore_errors=True)


def _run_seed(sid, pid):
    d = tempfile.mkdtemp(prefix="vtseed")
    try:
        shutil.copytree(os.path.join(REPO, "src"), os.path.join(d, "src"))
        r = subprocess.run(["patch", "-p1", "-s", "-i", os.path.join(ROOT, "seeded", sid, "patch.diff")], cwd=d, capture_output=True, text=True)
        if r.returncode != 0:
            return sid, "not-applicable", ""
        env = dict(os.environ, GENJAX_REPO=d, PYTHONDONTWRITEBYTECODE="1", JAX_PLATFORMS="cpu")
        out = subprocess.run([sys.executable, "-m", "vt.runner", pid, "--tier", "quick", "--only", "genjax"], cwd=ROOT, env=env, capture_output=True, text=True, timeout=1500)
        return sid, out.returncode, out.stdout
    except subprocess.TimeoutExpired:
        return sid, "timeout", ""
    finally:
        shutil.rmtree(d, ignore_errors=True)


LEAN = {"C12": [("lean/Counting.lean", ["int_mem_Ioc_floor", "card_int_Ioc_real", "systematic_copies", "copies_floor_or_succ"],
                 "counting integers in a half-open interval = floor difference (the step from the systematic sampler's index formula to the copy counts)")]}


def run_lean(pid):
    """machine-checked mathematical lemmas behind a property's contracts (Lean 4 + Mathlib, offline): the file must
    elaborate without errors and every theorem must depend on the standard axioms only (no sorryAx)"""
    import time

    out = []
    for rel, theorems, what in LEAN.get(pid, []):
        t0 = time.time()
        try:
            r = subprocess.run(["lean", os.path.join(ROOT, rel)], capture_output=True, text=True, timeout=3000, cwd=os.path.join(ROOT, "lean"))
            txt = r.stdout + r.stderr
            ok = r.returncode == 0 and "error" not in txt.lower() and "sorryAx" not in txt and all(("'%s' depends on axioms" % t) in txt or ("'%s' does not depend on any axioms" % t) in txt for t in theorems)
            detail = txt[-800:]
        except Exception as e:  # lean missing / timeout
            ok, detail = False, repr(e)
        out.append({"file": rel, "lemma": what, "theorems": theorems, "back_end": "lean 4 + mathlib", "verdict": "proved" if ok else "unknown", "seconds": round(time.time() - t0, 1), "detail": "" if ok else detail})
    return out


def run(pid):
    """returns dict for the evidence file and a list of printable lines"""
    lines = []
    res = {"mutants": [], "refactors": [], "native_cross_checks": [], "seeded_changes": [], "lean_lemmas": run_lean(pid)}
    for l in res["lean_lemmas"]:
        if l["verdict"] != "proved":
            lines.append(f"UNDECIDED property={pid} lean lemma {l['file']}: {l['detail'][-300:]}")
    import glob

    seeds = []
    for mp in sorted(glob.glob(os.path.join(ROOT, "seeded", "C*", "meta.json"))):
        m = json.load(open(mp))
        if pid in m.get("detected_by", []):
            seeds.append(os.path.basename(os.path.dirname(mp)))
    with cf.ThreadPoolExecutor(max_workers=4) as ex:
        for sid, rc, out in ex.map(lambda s_: _run_seed(s_, pid), seeds):
            status = "detected" if rc == 1 else ("not-applicable" if rc == "not-applicable" else "MISSED(rc=%s)" % rc)
            res["seeded_changes"].append({"seed": sid, "status": status})
            if status.startswith("MISSED"):
                lines.append(f"SEED-MISSED property={pid} seeded/{sid} (rc={rc})")
    muts = [m for m in json.load(open(os.path.join(ROOT, "mutants", "corpus.json"))) if pid in m["props"]]
    refs = [m for m in json.load(open(os.path.join(ROOT, "refactors", "corpus.json"))) if pid in m["props"]]
    with cf.ThreadPoolExecutor(max_workers=8) as ex:
        futs = {ex.submit(_run_variant, m, pid): ("mutant", m) for m in muts}
        futs.update({ex.submit(_run_variant, m, pid): ("refactor", m) for m in refs})
        for fu in cf.as_completed(futs):
            kind, m = futs[fu]
            mid, rc, out = fu.result()
            if kind == "mutant":
                killed = rc == 1 and (not m.get("expect") or m["expect"] in out)
                status = "killed" if killed else ("not-applicable" if rc == "not-applicable" else "SURVIVED(rc=%s)" % rc)
                res["mutants"].append({"id": mid, "status": status, "expect": m.get("expect")})
                if status.startswith("SURVIVED"):
                    lines.append(f"MUTANT-SURVIVED property={pid} {mid}: {m['find'][:60]!r} -> {m['repl'][:60]!r} (rc={rc})")
            else:
                ok = rc == 0
                if rc == 2 and m.get("allow_undecided"):
                    # an honest "undecided" on a restructuring the unbounded contract cannot follow is not an alarm
                    status = "undecided (accepted: %s)" % m["allow_undecided"]
                else:
                    status = "still-verifies" if ok else ("not-applicable" if rc == "not-applicable" else "ALARM(rc=%s)" % rc)
                res["refactors"].append({"id": mid, "status": status, "note": m.get("note")})
                if status.startswith("ALARM"):
                    lines.append(f"REFACTOR-ALARM property={pid} {mid}: {m.get('note')} (rc={rc})")
    sys.path.insert(0, ROOT)
    from contracts.native import run_native

    for spec in NATIVE.get(pid, []) + [("demo_battery", pid)] + ([("stack_battery", "all")] if pid in STACK else []):
        r = run_native(*spec, timeout=1800)
        res["native_cross_checks"].append({"script": list(spec), "confirmed_violation": bool(r.get("confirmed")), "tier": r.get("tier"), "detail": {k: v for k, v in r.items() if k not in ("tier",)}})
    return res, lines
