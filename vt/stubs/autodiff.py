"""Assumed contracts of JAX autodiff as used by genjax/adev: symbolic zeros (ad.Zero), float0 tangents of
integer/boolean primals, instantiate_zeros, primitive_jvps, and jax.jvp on the small Python lambdas of the ADEV
primitives (forward mode by dual numbers over proxies)."""
from __future__ import annotations

import types
from .ns import StubNS

import z3

from ..sym import Assumed, EngineLimit, Sym, V, _lift, documented, engine
from ..tensor import Tensor, _toreal

AD = "JAX autodiff API model: ad.Zero / Zero.from_primal_value / instantiate_zeros, float0 = tangent dtype of integer and boolean primals, ad.primitive_jvps[p](primals, tangents, **params), jax.jvp(f, primals, tangents) = forward-mode derivative"


class Float0:
    """a float0-typed zero tangent (the tangent type of integer / boolean primals)"""

    __vt_leaf__ = True

    def __init__(self, shape=()):
        self.shape = tuple(shape)
        self.dtype = "float0"

    def __repr__(self):
        return "Float0%s" % (self.shape,)


class Zero:
    """ad.Zero: symbolic zero tangent"""

    __vt_leaf__ = True

    def __init__(self, primal):
        self.primal = primal

    @staticmethod
    def from_primal_value(v):
        Assumed.note(AD)
        return Zero(v)

    def __repr__(self):
        return "Zero(%r)" % (self.primal,)


def tangent_kind(v):
    """'float' | 'float0' | 'abstract' for the tangent type of primal v"""
    if isinstance(v, (bool, int)) and not isinstance(v, float):
        return "float0"
    if isinstance(v, float):
        return "float"
    if isinstance(v, Sym):
        s = v.e.sort()
        if s == z3.RealSort():
            return "float"
        if s in (z3.IntSort(), z3.BoolSort()):
            return "float0"
        return "abstract"
    if isinstance(v, Tensor):
        s = v.elem_sort()
        if s == z3.RealSort():
            return "float"
        if s in (z3.IntSort(), z3.BoolSort()):
            return "float0"
        return "abstract"
    raise EngineLimit("tangent type of %r" % type(v))


ZeroV = z3.Function("ZeroTangentOf", V, V)


def zeros_like_tangent(v):
    k = tangent_kind(v)
    shape = v.shape if isinstance(v, Tensor) else ()
    if k == "float0":
        return Float0(shape)
    if k == "float":
        if isinstance(v, Tensor):
            return Tensor(v.shape, lambda idx: z3.RealVal(0))
        return Sym(z3.RealVal(0))
    if isinstance(v, Tensor):
        return Tensor(v.shape, lambda idx: ZeroV(v.fn(idx)))
    return Sym(ZeroV(_lift(v)))


def instantiate_zeros(t):
    Assumed.note(AD)
    if isinstance(t, Zero):
        return zeros_like_tangent(t.primal)
    return t


def is_zero_tangent(t):
    """is this tangent (semantically) zero: symbolic Zero, float0, or the literal zeros built above"""
    if isinstance(t, (Zero, Float0)):
        return True
    if isinstance(t, Sym):
        e = z3.simplify(t.e)
        return (z3.is_rational_value(e) and e.numerator_as_long() == 0) or (z3.is_app(e) and e.decl().name() == "ZeroTangentOf")
    if isinstance(t, Tensor):
        e = z3.simplify(t.fn(tuple(z3.Int("zz!%d" % k) for k in range(t.ndim))))
        return (z3.is_rational_value(e) and e.numerator_as_long() == 0) or (z3.is_app(e) and e.decl().name() == "ZeroTangentOf")
    if isinstance(t, (int, float)):
        return t == 0
    return False


class ShapedArray:
    def __init__(self, shape, dtype):
        self.shape, self.dtype = shape, dtype


FLOAT0 = "float0"


def get_aval(v):
    Assumed.note(AD)
    if isinstance(v, Float0):
        return ShapedArray(v.shape, FLOAT0)
    if isinstance(v, Tensor):
        return ShapedArray(v.shape, v.dtype)
    if isinstance(v, Sym):
        return ShapedArray((), v.dtype)
    if isinstance(v, (int, float, bool)):
        return ShapedArray((), type(v).__name__)
    raise documented(TypeError("Value %r of type %s is not a valid JAX type" % (v, type(v))))


class PrimitiveJvps(dict):
    pass


# ------------------------------------------------------------------------------------------------
# dual numbers


class DN:
    """dual number over proxies (Sym / Tensor / python numbers); tangent None = zero"""

    __vt_leaf__ = True
    __array_priority__ = 5000

    def __init__(self, p, t=None):
        self.p, self.t = p, (None if (t is None or is_zero_tangent(t)) else t)

    @staticmethod
    def lift(x):
        return x if isinstance(x, DN) else DN(x, None)

    def tan(self):
        return self.t if self.t is not None else zeros_like_tangent(self.p) if not isinstance(self.p, (int, float)) else 0.0

    @property
    def shape(self):
        return getattr(self.p, "shape", ())

    @property
    def ndim(self):
        return len(self.shape)

    @property
    def T(self):
        return DN(self.p.T, None if self.t is None else self.t.T)

    def _add_t(a, b):
        if a is None:
            return b
        if b is None:
            return a
        return a + b

    def __add__(self, o):
        o = DN.lift(o)
        return DN(self.p + o.p, DN._add_t(self.t, o.t))

    __radd__ = __add__

    def __neg__(self):
        return DN(-self.p, None if self.t is None else -self.t)

    def __sub__(self, o):
        return self + (-DN.lift(o))

    def __rsub__(self, o):
        return DN.lift(o) + (-self)

    def __mul__(self, o):
        o = DN.lift(o)
        t = DN._add_t(None if self.t is None else self.t * o.p, None if o.t is None else self.p * o.t)
        return DN(self.p * o.p, t)

    __rmul__ = __mul__

    def __truediv__(self, o):
        if isinstance(o, DN):
            raise EngineLimit("division by a dual number")
        return DN(self.p / o, None if self.t is None else self.t / o)

    def __matmul__(self, o):
        o = DN.lift(o)
        t = DN._add_t(None if self.t is None else self.t @ o.p, None if o.t is None else self.p @ o.t)
        return DN(self.p @ o.p, t)

    def __rmatmul__(self, o):
        return DN.lift(o) @ self

    # comparisons look at the primal only (piecewise-constant: no tangent)
    def __gt__(self, o):
        return self.p > (o.p if isinstance(o, DN) else o)

    def __lt__(self, o):
        return self.p < (o.p if isinstance(o, DN) else o)

    def __ge__(self, o):
        return self.p >= (o.p if isinstance(o, DN) else o)

    def __le__(self, o):
        return self.p <= (o.p if isinstance(o, DN) else o)

    def sum(self, axis=None):
        from .jnp import sum as jsum

        return DN(jsum(self.p, axis=axis), None if self.t is None else jsum(self.t, axis=axis))


def jvp(f, primals, tangents):
    """jax.jvp(f, primals, tangents): every primal / tangent argument may be a PYTREE (tuples, lists, dicts of arrays)
    with matching structure; the outputs are pytrees too"""
    Assumed.note(AD)
    import jax.tree_util as real_jtu

    from ..sym import Sym
    from ..tensor import Tensor

    is_leaf = lambda x: isinstance(x, (Sym, Tensor, DN)) or x is None or type(x).__name__ in ("Zero", "Float0")
    if len(primals) != len(tangents):
        raise documented(TypeError("primal and tangent arguments to jax.jvp must have the same tree structure"))

    def pair(p, t):
        pl, pd = real_jtu.tree_flatten(p, is_leaf=is_leaf)
        tl, td = real_jtu.tree_flatten(t, is_leaf=is_leaf)
        if pd != td:
            raise documented(TypeError("primal and tangent arguments to jax.jvp must have the same tree structure"))
        return real_jtu.tree_unflatten(pd, [DN(a, b) for a, b in zip(pl, tl)])

    dns = [pair(p, t) for p, t in zip(primals, tangents)]
    out = f(*dns)
    if isinstance(out, DN):
        return out.p, out.tan()
    leaves, td = real_jtu.tree_flatten(out, is_leaf=lambda x: isinstance(x, (Sym, Tensor, DN)))
    if not any(isinstance(l, DN) for l in leaves):
        return out, zeros_like_tangent(out)
    ps = [l.p if isinstance(l, DN) else l for l in leaves]
    ts = [l.tan() if isinstance(l, DN) else zeros_like_tangent(l) for l in leaves]
    return real_jtu.tree_unflatten(td, ps), real_jtu.tree_unflatten(td, ts)


def namespace():
    return StubNS(
        Zero=Zero, instantiate_zeros=instantiate_zeros, primitive_jvps=PrimitiveJvps(),
    )
