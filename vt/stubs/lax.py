"""Assumed contracts of jax.lax control flow on proxies.

scan is an *induction schema*: the body is run once on a generic step t (0 <= t < T) with carry C(t)
(fresh uninterpreted functions of t, one per carry leaf); recorded facts: C(0) = init and, for the generic
t, C(t+1) = body_carry(C(t), xs[t]); returns C(T) and the stacked outputs.
"""
from __future__ import annotations

import jax.tree_util as real_jtu
import z3

from ..sym import documented, Assumed, EngineLimit, Sym, _lift, engine, fresh, ite
from ..tensor import Tensor, dim_eq, lane
from . import jtu as jtu_stub
from .vmap import _stack


def _leaf_fn(name, leaf, tvar_sort=z3.IntSort()):
    """uninterpreted carry function for one carry leaf: returns (at: t -> leaf-like)"""
    eng = engine()
    if isinstance(leaf, Tensor):
        f = z3.Function(eng.fresh_name(name), z3.IntSort(), *([z3.IntSort()] * leaf.ndim), leaf.elem_sort())
        return lambda t: Tensor(leaf.shape, lambda idx: f(t, *idx))
    e = _lift(leaf)
    f = z3.Function(eng.fresh_name(name), z3.IntSort(), e.sort())
    return lambda t: Sym(f(t))


def _snapshot(eng):
    """per-path recorder state, so that a discarded first trace of a scan body leaves no records behind"""
    from ..contract import _snap
    from ..gfi import AbsGF

    extra = {k: (list(v) if isinstance(v, list) else v) for k, v in eng.extra.items()}
    calls = [(g, list(g.calls)) for g in (AbsGF._live or ())]
    return _snap(), extra, calls


def _restore_state(eng, state):
    from ..contract import _restore

    snap, extra, calls = state
    _restore(snap)
    for k in list(eng.extra):
        if k not in extra:
            del eng.extra[k]
    for k, v in extra.items():
        if isinstance(v, list) and isinstance(eng.extra.get(k), list):
            eng.extra[k][:] = v
        else:
            eng.extra[k] = v
    for g, c in calls:
        g.calls[:] = c


def scan(f, init, xs=None, length=None, reverse=False, unroll=1, **kw):
    if kw:
        raise EngineLimit("jax.lax.scan with %s" % ", ".join(kw))
    Assumed.note("jax.lax.scan: carry threaded through T = length iterations over the leading axis of xs, outputs stacked (induction schema: C(0)=init, C(t+1)=step(C(t), xs[t]))")
    eng = engine()
    if isinstance(length, Sym):
        length = length.e
    sizes = []

    def collect(leaf):
        if isinstance(leaf, Tensor):
            sizes.append(leaf.shape[0])
        return leaf

    jtu_stub.tree_map(collect, xs)
    T = length if length is not None else (sizes[0] if sizes else None)
    if T is None:
        raise documented(ValueError("scan got no length and no xs"))
    for s in sizes:
        if not dim_eq(s, T):
            if isinstance(s, int) and isinstance(T, int):
                raise documented(ValueError("scan got `length` argument of %s which disagrees with leading axis sizes %s" % (T, s)))
            raise EngineLimit("cannot decide scan length consistency %s / %s" % (s, T))
    if isinstance(T, Sym):
        T = T.e
    Tt = z3.IntVal(T) if isinstance(T, int) else T
    t = fresh("step", z3.IntSort())
    eng.assume(z3.And(t >= 0, t < Tt))
    init_leaves, treedef = real_jtu.tree_flatten(init, is_leaf=lambda x: isinstance(x, (Sym, Tensor)))
    cfs = [_leaf_fn("C%d" % k, l) if isinstance(l, (Sym, Tensor, int, float, bool)) else (lambda t, l=l: l) for k, l in enumerate(init_leaves)]
    pos = (Tt - 1 - t) if reverse else t
    x_t = jtu_stub.tree_map(lambda leaf: lane(leaf, Sym(pos), 0) if isinstance(leaf, Tensor) else leaf, xs)

    def trace_body(cfs):
        carry_t = real_jtu.tree_unflatten(treedef, [c(t) for c in cfs])
        lanes = eng.extra.setdefault("lanes", [])
        lanes.append(t)
        try:
            new_carry, y = f(carry_t, x_t)
        finally:
            lanes.pop()
        new_leaves, treedef2 = real_jtu.tree_flatten(new_carry, is_leaf=lambda x: isinstance(x, (Sym, Tensor)))
        if treedef2 != treedef:
            raise documented(TypeError("scan body function carry input and carry output must have the same pytree structure"))
        return carry_t, new_carry, y, new_leaves

    # a Python int in the initial carry is WEAKLY typed: when the body hands back a float for it, JAX promotes the carry
    # to float and traces the body again with the promoted carry (a body that hands back an int keeps it an int)
    weak_int = [isinstance(l, int) and not isinstance(l, bool) for l in init_leaves]
    state = _snapshot(eng) if any(weak_int) else None
    carry_t, new_carry, y, new_leaves = trace_body(cfs)
    promote = [k for k, (w, nl) in enumerate(zip(weak_int, new_leaves)) if w and isinstance(nl, Sym) and nl.e.sort() == z3.RealSort()]
    if promote:
        Assumed.note("jax.lax.scan: a weakly typed (Python int) initial carry whose body returns a float is promoted to float and the body is traced again with the promoted carry")
        _restore_state(eng, state)
        for k in promote:
            cfs[k] = _leaf_fn("C%d" % k, float(init_leaves[k]))
        carry_t, new_carry, y, new_leaves = trace_body(cfs)
    eng.extra.setdefault("scans", []).append(
        {"T": Tt, "t": t, "carry_at": lambda tt: real_jtu.tree_unflatten(treedef, [c(tt) for c in cfs]),
         "init": init, "new_carry": new_carry, "y": y, "x_t": x_t, "carry_t": carry_t, "reverse": reverse}
    )
    final = real_jtu.tree_unflatten(treedef, [c(Tt) for c in cfs])
    ys = _stack(y, T, t)
    if reverse:
        ys = jtu_stub.tree_map(lambda l: l[::-1] if isinstance(l, Tensor) else l, ys)
    return final, ys


def select(p, a, b):
    Assumed.note("jax.lax.select(p, t, f) = t where p else f")
    from .jnp import where

    return where(p, a, b)


def select_n(which, *cases):
    Assumed.note("jax.lax.select_n(which, c0, c1) = c1 where which else c0 (boolean predicate: two cases)")
    if len(cases) != 2:
        raise EngineLimit("select_n with %d cases" % len(cases))
    from .jnp import where

    return where(which, cases[1], cases[0])


def cond(p, tf, ff, *ops):
    Assumed.note("jax.lax.cond(p, tf, ff, *ops) = tf(*ops) if p else ff(*ops) (both branches traced)")
    if isinstance(p, bool):
        return tf(*ops) if p else ff(*ops)
    engine().extra.setdefault("cond_calls", []).append({"pred": p, "operands": ops})
    a, b = tf(*ops), ff(*ops)
    from .jnp import where

    return real_jtu.tree_map(lambda x, y: where(p, x, y), a, b, is_leaf=lambda x: isinstance(x, (Sym, Tensor)))
