"""Assumed contracts of the built-in distributions as *used by inference code* (uniform / normal /
categorical .sample / .logpdf): a sample is a fresh draw (one independent draw per element of
sample_shape and per broadcast parameter element), logpdf is an element-wise uninterpreted density."""
from __future__ import annotations

import z3

from ..sym import Assumed, EngineLimit, Sym, _lift, engine
from ..tensor import Tensor, broadcast_shapes, _toreal

DrawR = z3.Function("DrawR", z3.IntSort(), z3.IntSort(), z3.RealSort(), z3.RealSort(), z3.RealSort())  # (dist id, nonce, p1, p2)
DrawRI = z3.Function("DrawRI", z3.IntSort(), z3.IntSort(), z3.IntSort(), z3.RealSort(), z3.RealSort(), z3.RealSort())  # + coordinate
DrawRI2 = z3.Function("DrawRI2", z3.IntSort(), z3.IntSort(), z3.IntSort(), z3.IntSort(), z3.RealSort(), z3.RealSort(), z3.RealSort())  # + two coordinates


class StubDist:
    _ids = {"uniform": 1, "normal": 2, "categorical": 3}

    def __init__(self, name):
        self.name = name
        self.id = z3.IntVal(self._ids.get(name, 9))
        self.LP = z3.Function("LP_" + name, z3.RealSort(), z3.RealSort(), z3.RealSort(), z3.RealSort())
        self.sample_calls, self.logpdf_calls = [], []

    def reset(self):
        self.sample_calls, self.logpdf_calls = [], []

    def sample(self, *args, sample_shape=(), **kw):
        from ..gfi import next_nonce

        Assumed.note("A-TFP/A-PRNG: <dist>.sample(params, sample_shape=S) returns |S| x broadcast(params) independent draws of <dist>(params); logpdf is its element-wise log density")
        nu = next_nonce()
        self.sample_calls.append({"args": args, "sample_shape": sample_shape, "nonce": nu})
        p = [_toreal(_lift(a)) if not isinstance(a, Tensor) else a for a in args] + [z3.RealVal(0)] * (2 - len(args))
        if any(isinstance(a, Tensor) for a in p):
            if sample_shape not in ((), None):
                raise EngineLimit("stub sample with tensor parameters and sample_shape")
            ts = [a if isinstance(a, Tensor) else Tensor((), lambda idx, a=a: a) for a in p[:2]]
            shp, ia, ib = broadcast_shapes(ts[0].shape, ts[1].shape)
            if len(shp) == 2:  # one independent draw per element of the rank-2 broadcast shape
                return Tensor(shp, lambda idx: DrawRI2(self.id, nu, idx[0], idx[1], _toreal(ts[0].fn(ia(idx))), _toreal(ts[1].fn(ib(idx)))))
            if len(shp) != 1:
                raise EngineLimit("stub sample with rank-%d parameters" % len(shp))
            return Tensor(shp, lambda idx: DrawRI(self.id, nu, idx[0], _toreal(ts[0].fn(ia(idx))), _toreal(ts[1].fn(ib(idx)))))
        shape = tuple(sample_shape) if isinstance(sample_shape, (tuple, list)) else (sample_shape,)
        if not shape:
            d = DrawR(self.id, nu, p[0], p[1])
            if self.name == "uniform":
                Assumed.note("A-TFP: a uniform draw lies in [low, high)")
                engine().assume(z3.Implies(p[1] > p[0], z3.And(d >= p[0], d < p[1])))
            return Sym(d)
        if len(shape) == 2:
            return Tensor(shape, lambda idx: DrawRI2(self.id, nu, idx[0], idx[1], p[0], p[1]))
        if len(shape) != 1:
            raise EngineLimit("stub sample with rank-%d sample_shape" % len(shape))
        return Tensor(shape, lambda idx: DrawRI(self.id, nu, idx[0], p[0], p[1]))

    def logpdf(self, v, *args, **kw):
        self.logpdf_calls.append({"v": v, "args": args})
        ops = [v] + list(args) + [0.0] * (2 - len(args))

        def as_t(x):
            if isinstance(x, Tensor):
                return x
            e = _toreal(_lift(x))
            return Tensor((), lambda idx: e)

        ts = [as_t(o) for o in ops]
        shp = ts[0]._shape
        maps = []
        cur = ts[0]
        # broadcast all three
        s01, i0, i1 = broadcast_shapes(ts[0].shape, ts[1].shape)
        s012, i01, i2 = broadcast_shapes(s01, ts[2].shape)

        def fn(idx):
            j = i01(idx)
            return self.LP(_toreal(ts[0].fn(i0(j))), _toreal(ts[1].fn(i1(j))), _toreal(ts[2].fn(i2(idx))))

        if not s012:
            return Sym(fn(()))
        return Tensor(s012, fn)
