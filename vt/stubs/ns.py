"""Stub namespaces that stand for modules of dependencies: an attribute the model does not provide is an ENGINE
LIMIT (the obligation becomes undecided), never an AttributeError of the code under verification."""
import types

from ..sym import EngineLimit


class StubNS(types.SimpleNamespace):
    def __getattr__(self, name):
        if name.startswith("__") and name.endswith("__"):
            raise AttributeError(name)
        raise EngineLimit("the dependency model has no attribute %r" % name)
