"""Assumed contracts of jax.numpy on proxies (scalars here; tensors are added by vt.tensor)."""
from __future__ import annotations

import types
from .ns import StubNS

import z3

from ..sym import documented, Assumed, EngineLimit, Sym, V, _lift, ite


def _is_tensor(x):
    return getattr(x, "__vt_tensor__", False)


def array(x, dtype=None):
    if isinstance(x, Sym) or _is_tensor(x):
        from ..sym import cast_to

        return x.astype(dtype) if _is_tensor(x) else cast_to(x, dtype)
    if isinstance(x, bool):
        return Sym(z3.BoolVal(x))
    if isinstance(x, int):
        return Sym(z3.IntVal(x), weak=dtype is None) if dtype is None or "int" in str(dtype) else Sym(z3.RealVal(x))
    if isinstance(x, float):
        from ..sym import cast_to

        return Sym(_lift(x), weak=True) if dtype is None else cast_to(Sym(_lift(x)), dtype)
    if isinstance(x, (list, tuple)):
        from ..tensor import Tensor

        return Tensor.from_list(x)
    raise EngineLimit("jnp.array(%r)" % type(x))


asarray = array


def shape(x):
    Assumed.note("jnp.shape(x) is the shape tuple of x")
    if isinstance(x, (Sym, bool, int, float)):
        return ()
    if _is_tensor(x):
        return x.shape
    if isinstance(x, dict):
        raise documented(TypeError("shape requires ndarray or scalar arguments, got %s" % type(x)))
    raise EngineLimit("jnp.shape(%r)" % type(x))


def ndim(x):
    return len(shape(x))


def where(c, a, b):
    Assumed.note("jnp.where(c, a, b) selects a where c else b, element-wise with broadcasting")
    from .autodiff import DN

    if isinstance(a, DN) or isinstance(b, DN):
        # forward mode through a select: the tangent is selected by the same predicate (JAX's select_n JVP)
        Assumed.note("JVP of jnp.where(c, a, b) = where(c, da, db): the tangent of the branch not selected is dropped")
        a, b = DN.lift(a), DN.lift(b)
        cp = c.p if isinstance(c, DN) else c
        return DN(where(cp, a.p, b.p), where(cp, a.tan(), b.tan()))
    if _is_tensor(c) or _is_tensor(a) or _is_tensor(b):
        from ..tensor import t_where

        return t_where(c, a, b)
    if isinstance(c, bool):
        return a if c else b
    return ite(c, a, b)


def sum(x, axis=None, where=None, **kw):  # noqa: A001
    Assumed.note("jnp.sum reduces by addition")
    unknown = [k for k in kw if k not in ("dtype", "keepdims", "initial") or kw[k] not in (None, False, 0)]
    if unknown:
        raise EngineLimit("jnp.sum with %s" % ", ".join(unknown))  # never ignore an argument that changes the meaning
    if where is not None:
        Assumed.note("jnp.sum(x, where=m) adds the elements of x where m holds (the others count as 0)")
        x = _masked(where, x)
    if isinstance(x, Sym):
        return x
    if isinstance(x, (int, float)):
        return array(x)
    if _is_tensor(x):
        return x.sum(axis=axis)
    if isinstance(x, dict):
        raise documented(TypeError("sum requires ndarray or scalar arguments, got %s" % type(x)))
    raise EngineLimit("jnp.sum(%r)" % type(x))


def _masked(mask, x):
    """x where mask else 0 (element-wise)"""
    return where(mask, x, zeros_like(x))


def any(x, axis=None):  # noqa: A001
    Assumed.note("jnp.any raises TypeError on non-array arguments such as dict/None (observed natively on jax 0.11)")
    if isinstance(x, Sym):
        return x
    if isinstance(x, bool):
        return Sym(z3.BoolVal(x))
    if _is_tensor(x):
        return x.any()
    if isinstance(x, (dict, list, tuple)) or x is None:
        raise documented(TypeError("any requires ndarray or scalar arguments, got %s" % type(x)))
    raise EngineLimit("jnp.any(%r)" % type(x))


def all(x, axis=None):  # noqa: A001
    Assumed.note("jnp.all(x) = not any(not x)")
    if isinstance(x, Sym):
        return x
    if isinstance(x, bool):
        return Sym(z3.BoolVal(x))
    if _is_tensor(x):
        return ~((~x).any(axis))
    raise EngineLimit("jnp.all(%r)" % type(x))


def allclose(a, b, rtol=1e-05, atol=1e-08, equal_nan=False):
    Assumed.note("jnp.allclose(a, b, rtol, atol) = all(|a - b| <= atol + rtol |b|) element-wise with broadcasting (defaults rtol = 1e-5, atol = 1e-8)")
    mag = lambda v: where(v >= 0, v, -v)
    b = array(b)
    d = mag(array(a) - b)
    bound = mag(b) * Sym(z3.RealVal(repr(float(rtol)))) + Sym(z3.RealVal(repr(float(atol))))
    return all(d <= bound)


def minimum(a, b):
    if _is_tensor(a) or _is_tensor(b):
        from ..tensor import t_map2

        return t_map2(minimum, a, b)
    a, b = array(a), array(b)
    return ite(a <= b, a, b)


def maximum(a, b):
    a, b = array(a), array(b)
    return ite(a >= b, a, b)


_LOG = z3.Function("log", z3.RealSort(), z3.RealSort())
_EXP = z3.Function("exp", z3.RealSort(), z3.RealSort())


def _real(e):
    return z3.ToReal(e) if e.sort() == z3.IntSort() else e


def log(x):
    Assumed.note("log/exp are uninterpreted real functions; only the algebraic facts an obligation states explicitly are used")
    if _is_tensor(x):
        return x.map(log)
    xe = _real(_lift(x))
    le = _LOG(xe)
    # the SIGN of a logarithm is part of the model (log x < 0 below 1, = 0 at 1, > 0 above): e.g. the log of a uniform
    # draw on [0, 1) is negative, which makes a clamp min(0, .) of the acceptance ratio redundant
    from ..sym import engine

    engine().assume(z3.And(z3.Implies(z3.And(xe >= 0, xe < 1), le < 0), z3.Implies(xe == 1, le == 0), z3.Implies(xe > 1, le > 0)))  # log 0 = -inf < 0
    return Sym(le)


def exp(x):
    Assumed.note("log/exp are uninterpreted real functions; only the algebraic facts an obligation states explicitly are used")
    if _is_tensor(x):
        return x.map(exp)
    return Sym(_EXP(_real(_lift(x))))


def add(a, b):
    return a + b


def arange(*a, **k):
    from ..tensor import Tensor, _dim

    if [x for x in k if x != "dtype"]:
        raise EngineLimit("jnp.arange with %s" % ", ".join(k))

    Assumed.note("jnp.arange(n) = [0, 1, ..., n-1]; arange(a, b, s) = a + s*k for 0 <= k < ceil((b-a)/s)")
    if len(a) == 1:
        n = _dim(a[0])
        return Tensor((n,), lambda idx: idx[0])
    start, stop = _lift(a[0]), _lift(a[1])
    if len(a) > 2 and isinstance(a[2], int) and a[2] < 0:
        if a[2] != -1:
            raise EngineLimit("arange with step %r" % a[2])
        ln = z3.If(start > stop, start - stop, z3.IntVal(0))
        return Tensor((z3.simplify(ln),), lambda idx: start - idx[0])
    step = _lift(a[2]) if len(a) > 2 else z3.IntVal(1)
    import builtins as _b

    if _b.any(e.sort() == z3.RealSort() for e in (start, stop, step)):
        # non-integer arange: the length is ceil((stop - start) / step) evaluated in FLOATING POINT - when the quotient
        # is mathematically an integer it may come out one larger (NumPy / JAX document this and recommend linspace)
        Assumed.note("jnp.arange with non-integer arguments: length = ceil((stop-start)/step) computed in floating point: exact, or one more when the quotient is mathematically an integer")
        from ..sym import engine, fresh
        from ..tensor import _toreal

        st, sp, se = _toreal(start), _toreal(stop), _toreal(step)
        q = (sp - st) / se
        exact = -z3.ToInt(-q)
        ln = fresh("arange_len", z3.IntSort())
        engine().assume(z3.And(ln >= 0, ln >= exact, ln <= exact + 1, z3.Implies(ln == exact + 1, z3.ToReal(z3.ToInt(q)) == q)))
        return Tensor((ln,), lambda idx: st + se * z3.ToReal(idx[0]))
    # length = ceil((stop-start)/step) for step > 0 (integers)
    ln = z3.If(stop > start, (stop - start + step - 1) / step, z3.IntVal(0))
    return Tensor((z3.simplify(ln),), lambda idx: start + step * idx[0])


def mean(x, axis=None):
    from ..tensor import Tensor, _dterm, _toreal

    Assumed.note("jnp.mean = sum / count along the axis")
    if isinstance(x, Sym):
        return x
    if axis is None:
        if x.ndim != 1:
            tot = x.sum()
            n = Sym(z3.IntVal(1))
            for d in x.shape:
                n = n * d
            return tot / n
        return x.sum() / Sym(_toreal(_dterm(x.shape[0])))
    if axis < 0:
        axis += x.ndim
    return x.sum(axis=axis) / Sym(_toreal(_dterm(x.shape[axis])))


def repeat(x, n, axis=0):
    from ..tensor import Tensor, _dim

    Assumed.note("jnp.repeat(x, n, axis=0) of an array with leading dim 1 is n copies along axis 0")
    if not isinstance(x, Tensor) or axis != 0 or not (isinstance(x.shape[0], int) and x.shape[0] == 1):
        raise EngineLimit("jnp.repeat beyond (1, ...) -> (n, ...)")
    return Tensor((_dim(n),) + tuple(x.shape[1:]), lambda idx: x.fn((z3.IntVal(0),) + tuple(idx[1:])))


CumF = z3.Function("CumSum", z3.ArraySort(z3.IntSort(), z3.RealSort()), z3.IntSort(), z3.RealSort())
SearchF = z3.Function("SearchSortedLeft", z3.ArraySort(z3.IntSort(), z3.RealSort()), z3.IntSort(), z3.RealSort(), z3.IntSort())
CALLS = {"cumsum": [], "searchsorted": [], "logsumexp": [], "concatenate": []}


def cumsum(x, axis=None):
    from ..tensor import Tensor, _toreal

    Assumed.note("jnp.cumsum(w)[i] = sum_{k<=i} w[k]")
    if not isinstance(x, Tensor) or x.ndim != 1:
        raise EngineLimit("cumsum of non-vector")
    i = z3.Int("cum!i")
    lam = z3.Lambda([i], _toreal(x.fn((i,))))
    out = Tensor(x.shape, lambda idx: CumF(lam, idx[0]))
    CALLS["cumsum"].append({"x": x, "out": out})
    return out


def searchsorted(a, v, side="left"):
    from ..tensor import Tensor, _toreal, _dterm

    Assumed.note("jnp.searchsorted(a, v, side='left')[j] = #{i : a[i] < v[j]} for sorted a")
    if side != "left":
        raise EngineLimit("searchsorted side=%r" % side)
    i = z3.Int("ss!i")
    lam = z3.Lambda([i], _toreal(a.fn((i,))))
    n = _dterm(a.shape[0])
    out = Tensor(v.shape, lambda idx: SearchF(lam, n, _toreal(v.fn(idx))))
    CALLS["searchsorted"].append({"a": a, "v": v, "side": side, "out": out})
    return out


def logsumexp(x, axis=None, keepdims=False):
    from ..tensor import Tensor, mk_lse

    Assumed.note("logsumexp(x, axis) = log sum exp along the axis")
    if keepdims:
        r = logsumexp(x, axis=axis)
        ax = axis if axis >= 0 else axis + x.ndim
        shp = tuple(x.shape[:ax]) + (1,) + tuple(x.shape[ax + 1:])
        return Tensor(shp, lambda idx: r.fn(tuple(idx[:ax]) + tuple(idx[ax + 1:])))
    if isinstance(x, Sym):
        return x
    if not isinstance(x, Tensor) or x.ndim != 1 or axis not in (None, 0, -1):
        if isinstance(x, Tensor) and x.ndim == 2 and axis in (0, 1, -1):
            return x._reduce(axis, mk_lse)
        raise EngineLimit("logsumexp of rank-%s" % getattr(x, "ndim", "?"))
    r = Sym(mk_lse(x.shape[0], lambda i: x.fn((i,))))
    CALLS["logsumexp"].append({"x": x, "out": r})
    return r


def concatenate(parts, axis=0):
    from ..tensor import Tensor, _dterm, _dim

    Assumed.note("jnp.concatenate along axis 0 stacks the parts in order")
    if axis != 0 or len(parts) != 2:
        raise EngineLimit("concatenate beyond two parts along axis 0")
    a, b = parts
    na = _dterm(a.shape[0])
    shape = (_dim(na + _dterm(b.shape[0])),) + tuple(a.shape[1:])
    out = Tensor(shape, lambda idx: z3.If(idx[0] < na, a.fn(idx), b.fn((idx[0] - na,) + tuple(idx[1:]))))
    CALLS["concatenate"].append({"parts": parts, "out": out})
    return out


def diag(x):
    from ..tensor import Tensor

    Assumed.note("jnp.diag(v) is the square matrix with v on the diagonal and 0 elsewhere")
    if not isinstance(x, Tensor) or x.ndim != 1:
        raise EngineLimit("diag of non-vector")
    n = x.shape[0]
    return Tensor((n, n), lambda idx: z3.If(idx[0] == idx[1], x.fn((idx[0],)), z3.RealVal(0)))


InvV = z3.Function("MatInv", V, z3.IntSort(), z3.IntSort(), z3.RealSort())
MvnLP = z3.Function("MvnLogPdf", V, V, V, z3.RealSort())


def mat_key(m):
    """an abstract value standing for the matrix m as the ARGUMENT of an uninterpreted matrix function (inverse,
    log-determinant): two matrices get the same key iff they are equal ELEMENT-WISE.  Congruence is stated by explicit
    extensionality axioms (forall i j. A[i,j] = B[i,j]) -> key(A) = key(B) rather than by equality of lambda terms: a
    solver may treat two lambdas with different but equivalent bodies - (C P) C^T vs C (P C^T) - as different arrays,
    which gave a spurious counter-model for a re-associated Kalman update; with the axiom it has to exhibit indices at
    which the matrices differ"""
    import builtins as _b

    from ..sym import engine, fresh
    from ..tensor import Tensor, _dim, dim_eq

    from .. import sym as _sym

    seen = _sym.MAT_SEEN
    idx = tuple(z3.Int("mk!i%d" % k) for k in range(m.ndim))
    body = z3.simplify(m.fn(idx))
    for m2, body2, key2 in seen:
        if m2.ndim == m.ndim and _b.all(dim_eq(a, b2) for a, b2 in zip(m.shape, m2.shape)) and z3.eq(body, body2):
            return key2
    key = fresh("matrix", V)
    for m2, body2, key2 in seen:
        if m2.ndim != m.ndim or not _b.all(dim_eq(a, b2) for a, b2 in zip(m.shape, m2.shape)):
            continue
        rng = z3.And(*[z3.And(i >= 0, i < (z3.IntVal(d) if isinstance(_dim(d), int) else _dim(d))) for i, d in zip(idx, m.shape)])
        _sym.EXTRA_AXIOMS.append(z3.Implies(z3.ForAll(list(idx), z3.Implies(rng, body == body2)), key == key2))
    seen.append((m, body, key))
    return key


def inv(m):
    from ..tensor import Tensor

    Assumed.note("jnp.linalg.inv: uninterpreted matrix inverse (only congruence is used: element-wise equal matrices have equal inverses)")
    me = mat_key(m)
    return Tensor(m.shape, lambda idx: InvV(me, idx[0], idx[1]))


LogDetV = z3.Function("LogDet", V, z3.RealSort())


def slogdet(m):
    from ..gfi import enc

    Assumed.note("jnp.linalg.slogdet(M) = (sign, log|det M|): uninterpreted log-determinant (covariances: sign 1)")
    return Sym(z3.RealVal(1)), Sym(LogDetV(mat_key(m)))


def mvn_logpdf(x, mean, cov):
    """log N(x; mean, cov) = -1/2 (d log 2 pi + log det cov + (x-mean)^T cov^-1 (x-mean)), with uninterpreted
    inverse and log-determinant: hand-written Gaussian densities can be compared against the library call"""
    from ..tensor import Tensor, _dterm, _toreal

    Assumed.note("jax.scipy.stats.multivariate_normal.logpdf(x, m, S) = -1/2 (d log(2 pi) + log det S + (x-m)^T S^-1 (x-m))")
    diff = x - mean
    if isinstance(mean, Tensor):
        import z3 as _z

        probe = _z.simplify(mean.fn(tuple(_z.Int("mz!%d" % k) for k in range(mean.ndim))))
        if _z.is_rational_value(probe) and probe.numerator_as_long() == 0:
            diff = x
    d = Sym(_toreal(_dterm(x.shape[0])))
    quad = diff @ inv(cov) @ diff
    return (d * log(2.0 * 3.141592653589793) + slogdet(cov)[1] + quad) * -0.5


# jnp.inf: an unknown positive real bound.  Comparisons against +-inf are NOT simplified away, so code that
# special-cases infinite entries (e.g. `w > -jnp.inf`) is analysed for both outcomes: an entry at or below -INF
# stands for a -inf entry.
INF = Sym(z3.Real("INF"))


def isfinite(x):
    from ..tensor import Tensor

    if isinstance(x, Tensor):
        return (x > -INF) & (x < INF)
    return (array(x) > -INF) & (array(x) < INF)


def zeros(shape, dtype=None):
    from ..sym import dtype_kind
    from ..tensor import Tensor

    if isinstance(shape, (int, Sym)) or isinstance(shape, z3.ExprRef):
        shape = (shape,)
    k = dtype_kind(dtype)
    zero = z3.IntVal(0) if k == "int" else (z3.BoolVal(False) if k == "bool" else z3.RealVal(0))
    if not shape:
        return Sym(zero)
    return Tensor(tuple(shape), lambda idx: zero)


def zeros_like(x, dtype=None, shape=None):
    """zeros with the shape (or the given shape) and the DTYPE of x (or the given dtype)"""
    if dtype is None:
        srt = x.elem_sort() if _is_tensor(x) else (_lift(x).sort() if isinstance(x, (Sym, int, float, bool)) else None)
        dtype = "int" if srt == z3.IntSort() else ("bool" if srt == z3.BoolSort() else "float")
    if shape is None:
        shape = x.shape if hasattr(x, "shape") and x.shape else ()
    return zeros(tuple(shape) if shape != () else (), dtype=dtype)


def full(shape, fill_value, dtype=None):
    from ..sym import cast_to
    from ..tensor import Tensor

    if isinstance(shape, (int, Sym)) or isinstance(shape, z3.ExprRef):
        shape = (shape,)
    v = cast_to(Sym(_lift(fill_value)), dtype).e
    if not shape:
        return Sym(v)
    return Tensor(tuple(shape), lambda idx: v)


def ones(shape, dtype=None):
    return full(shape, 1.0 if dtype is None else 1, dtype=dtype if dtype is not None else "float")


def _like(x, value, dtype=None, shape=None):
    if dtype is None:
        srt = x.elem_sort() if _is_tensor(x) else (_lift(x).sort() if isinstance(x, (Sym, int, float, bool)) else None)
        dtype = "int" if srt == z3.IntSort() else ("bool" if srt == z3.BoolSort() else "float")
    if shape is None:
        shape = x.shape if hasattr(x, "shape") and x.shape else ()
    return full(tuple(shape) if shape != () else (), value, dtype=dtype)


def ones_like(x, dtype=None, shape=None):
    return _like(x, 1, dtype, shape)


def full_like(x, fill_value, dtype=None, shape=None):
    return _like(x, fill_value, dtype, shape)


_KINDS = {"floating": {"float", "float32", "float16", "float64"}, "integer": {"int", "int32", "int64"}, "complexfloating": {"complex", "complex64"},
          "inexact": {"float", "float32", "float16", "float64", "complex", "complex64"}, "bool": {"bool"}}
_KINDS["number"] = _KINDS["inexact"] | _KINDS["integer"]


def result_type(*xs):
    Assumed.note("jnp.result_type / issubdtype: dtype lattice bool < int < float < complex (kinds floating/integer/inexact/complexfloating)")
    order = ["bool", "int", "float", "complex"]
    best = 0
    for x in xs:
        d = getattr(x, "dtype", None)
        if d is None:
            d = "bool" if isinstance(x, bool) else "int" if isinstance(x, int) else "float" if isinstance(x, float) else "complex" if isinstance(x, complex) else None
        if d is None:
            raise EngineLimit("result_type of %r" % type(x))
        d = {"float32": "float", "float64": "float", "int32": "int", "complex64": "complex"}.get(d, d)
        if d not in order:
            raise EngineLimit("result_type of dtype %r" % (d,))
        best = max(best, order.index(d))
    return order[best]


def issubdtype(d, kind):
    if kind in _KINDS:
        return d in _KINDS[kind]
    return d == kind


def cholesky(m):
    """uninterpreted: only congruence is used (cholesky(m) is a function of m)"""
    Assumed.note("jnp.linalg.cholesky(m) is a function of m (uninterpreted)")
    if isinstance(m, Sym):
        f = z3.Function("Cholesky_%s" % m.e.sort(), m.e.sort(), m.e.sort())
        return Sym(f(m.e))
    from ..sym import EngineLimit

    raise EngineLimit("cholesky of %r" % type(m))


def logical_xor(a, b):
    Assumed.note("jnp.logical_xor / logical_and / logical_or are the element-wise boolean connectives")
    if _is_tensor(a) or _is_tensor(b):
        from ..tensor import Tensor, broadcast_shapes

        ta = a if _is_tensor(a) else Tensor((), lambda idx, a=a: _lift(a))
        tb = b if _is_tensor(b) else Tensor((), lambda idx, b=b: _lift(b))
        shp, ia, ib = broadcast_shapes(ta.shape, tb.shape)
        return Tensor(shp, lambda idx: z3.Xor(ta.fn(ia(idx)), tb.fn(ib(idx))))
    if isinstance(a, bool) and isinstance(b, bool):
        return a != b
    return Sym(z3.Xor(_lift(a), _lift(b)))


_FillV = {}


def take(x, indices, axis=None, mode=None, **kw):
    if kw:
        raise EngineLimit("jnp.take with %s" % ", ".join(kw))  # never ignore an argument that changes the meaning
    """jnp.take(x, indices, axis=0): gather along the leading axis.  DOCUMENTED difference to x[indices]: the default
    mode is "fill" - an out-of-range index yields NaN / the minimum integer instead of being clamped"""
    Assumed.note("jnp.take(x, idx, axis=0) = x[idx] for 0 <= idx < n; with the default mode='fill' an out-of-range index yields a fill value (NaN), with mode='clip' the index is clamped")
    from ..sym import EngineLimit
    from ..tensor import Tensor, _dterm

    if axis not in (0, None) or not _is_tensor(x) or not _is_tensor(indices) or indices.ndim != 1:
        raise EngineLimit("jnp.take beyond axis=0 gather with a vector of indices")
    if axis is None and x.ndim != 1:
        raise EngineLimit("jnp.take with axis=None on a non-vector")
    n = _dterm(x.shape[0])
    g = x[indices]
    if mode in ("clip", "wrap"):
        if mode == "wrap":
            raise EngineLimit("jnp.take mode='wrap'")
        return Tensor(g.shape, lambda idx: x.fn((z3.If(indices.fn((idx[0],)) < 0, 0, z3.If(indices.fn((idx[0],)) >= n, n - 1, indices.fn((idx[0],)))),) + tuple(idx[1:])))
    srt = x.elem_sort()
    key = str(srt)
    if key not in _FillV:
        _FillV[key] = z3.Const("TakeFillValue_%s" % key, srt)
    fill = _FillV[key]

    def fn(idx):
        i = indices.fn((idx[0],))
        return z3.If(z3.And(i >= 0, i < n), g.fn(idx), fill)

    return Tensor(g.shape, fn)


def namespace(**extra):
    ns = StubNS(
        result_type=result_type, issubdtype=issubdtype, floating="floating", integer="integer", inexact="inexact", complexfloating="complexfloating", number="number",
        array=array, asarray=asarray, shape=shape, ndim=ndim, where=where, logical_xor=logical_xor, take=take, sum=sum, any=any,
        minimum=minimum, maximum=maximum, log=log, exp=exp, add=add, ndarray=object, arange=arange, zeros=zeros, ones=ones, mean=mean, repeat=repeat, nan=float('nan'), inf=INF, isfinite=isfinite, isinf=lambda x: ~isfinite(x), cumsum=cumsum, searchsorted=searchsorted, diag=diag, linalg=StubNS(inv=inv, slogdet=slogdet, cholesky=cholesky), zeros_like=zeros_like, ones_like=ones_like, negative=lambda x: -x, logical_not=lambda x: ~x, all=all, allclose=allclose, full=full, full_like=full_like, concatenate=concatenate,
        float32="float32", int32="int32", bool_="bool", pi=3.141592653589793,
    )
    for k, v in extra.items():
        setattr(ns, k, v)

    return ns
