"""Assumed contract of `modular_vmap` / `jax.vmap` *as seen from callers*: a lane-wise map.

The function is run once on a generic lane i (0 <= i < n) with arguments sliced per `in_axes`; every
result leaf is abstracted over i into a tensor with a leading lane axis.  Draws made inside are
lane-indexed (independent per lane).  That pjax's *implementation* of modular_vmap meets this
contract is property C08's job, not assumed there.
"""
from __future__ import annotations

import z3

from ..sym import documented, Assumed, EngineLimit, Sym, engine, fresh
from ..tensor import Tensor, dim_eq, lane
from . import jtu as jtu_stub

ASSUME = "modular_vmap/jax.vmap (seen from callers): lane-wise map per in_axes (int | None | tuple | pytree prefix), axis size from axis_size or the first mapped leaf, results stacked along axis 0, one independent draw per lane at sampling sites; accepts positional arguments only (pjax.modular_vmap's wrapper is `wrapped(*args)`)"


def _is_arraylike(x):
    return isinstance(x, (Sym, Tensor))


def _slice(spec, tree, i, sizes):
    if spec is None:
        return tree
    if isinstance(spec, int):
        def f(leaf):
            if isinstance(leaf, Tensor):
                ax = spec if spec >= 0 else spec + leaf.ndim
                if ax >= leaf.ndim:
                    raise documented(ValueError("vmap in_axes %d out of bounds for array of rank %d" % (spec, leaf.ndim)))
                sizes.append(leaf.shape[ax])
                return lane(leaf, i, spec)
            if isinstance(leaf, Sym):
                raise documented(ValueError("vmap was requested to map its argument along axis %d, but its rank is only 0" % spec))
            if leaf is None or not _is_arraylike(leaf):
                return leaf  # non-array leaves (static objects) are passed through
            return leaf

        return jtu_stub.tree_map(f, tree)
    if isinstance(spec, (tuple, list)):
        if not isinstance(tree, (tuple, list)) or len(tree) != len(spec):
            raise documented(ValueError("vmap in_axes specification must be a tree prefix of the corresponding value, got %r for %r" % (spec, type(tree))))
        return type(tree)(_slice(s, t, i, sizes) for s, t in zip(spec, tree)) if not isinstance(tree, list) else [
            _slice(s, t, i, sizes) for s, t in zip(spec, tree)
        ]
    if isinstance(spec, dict):
        return {k: _slice(spec[k], tree[k], i, sizes) for k in tree}
    raise documented(TypeError("vmap in_axes must be an int, None, or a tuple/pytree of those, got %r" % (spec,)))


def _stack(tree, n, ivar):
    def f(leaf):
        if isinstance(leaf, Sym):
            e = leaf.e
            return Tensor((n,), lambda idx: z3.substitute(e, (ivar, idx[0])))
        if isinstance(leaf, Tensor):
            return Tensor((n,) + leaf.shape, lambda idx: z3.substitute(leaf.fn(tuple(idx[1:])), (ivar, idx[0])))
        if isinstance(leaf, bool):
            return Tensor((n,), lambda idx: z3.BoolVal(leaf))
        if isinstance(leaf, (int, float)):
            from ..sym import _lift

            return Tensor((n,), lambda idx: _lift(leaf))
        return leaf

    return jtu_stub.tree_map(f, tree)


def modular_vmap(f, in_axes=0, axis_size=None, axis_name=None, spmd_axis_name=None):
    def wrapped(*args):
        Assumed.note(ASSUME)
        eng = engine()
        ivar = fresh("lane", z3.IntSort())
        sizes = []
        if isinstance(in_axes, (tuple, list)):
            if len(in_axes) != len(args):
                raise documented(ValueError(
                    "vmap in_axes specification must be a tree prefix of the corresponding value, got specification %r for %d arguments"
                    % (in_axes, len(args))
                ))
            specs = list(in_axes)
        elif in_axes is None or isinstance(in_axes, int):
            specs = [in_axes] * len(args)
        else:
            raise documented(TypeError("vmap in_axes must be an int, None, or a tuple of entries corresponding to the positional arguments, got %r" % (in_axes,)))
        lane_args = [_slice(s, a, Sym(ivar), sizes) for s, a in zip(specs, args)]
        n = axis_size
        if isinstance(n, Sym):
            n = n.e
        if n is None:
            if not sizes:
                raise documented(ValueError("vmap must have at least one non-None value in in_axes"))
            n = sizes[0]
        for s in sizes:
            if not dim_eq(s, n):
                if isinstance(s, int) and isinstance(n, int):
                    raise documented(ValueError("vmap got inconsistent sizes for array axes to be mapped"))
                raise EngineLimit("cannot decide consistency of mapped axis sizes %s / %s" % (s, n))
        if isinstance(n, Sym):
            n = n.e
        nt = z3.IntVal(n) if isinstance(n, int) else n
        eng.assume(z3.And(ivar >= 0, ivar < nt))
        lanes = eng.extra.setdefault("lanes", [])
        lanes.append(ivar)
        eng.extra.setdefault("vmap_calls", []).append({"in_axes": in_axes, "axis_size": axis_size, "n": n, "lane": ivar, "f": f, "args": args})
        try:
            out = f(*lane_args)
        finally:
            lanes.pop()
        return _stack(out, n, ivar)

    return wrapped
