"""JAX >=0.7,<0.8 API model for the Jaxpr interpreters (the installed JAX 0.11 is incompatible; the
repository was written and tested against 0.7).  Every item is an assumption (DESIGN Appendix B).

Jaxpr(constvars, invars, eqns, outvars); Eqn(primitive, invars, outvars, params); Var(count); Literal(val);
DropVar; primitives with get_bind_params / bind / multiple_results; jrand as a free key algebra;
switch / scan as assumed contracts; stage(f) returns the Jaxpr a stub function carries.
"""
from __future__ import annotations

import itertools
import types

import z3

from ..sym import Assumed, EngineLimit, Sym, V, _lift, engine, fresh
from ..tensor import Tensor

API = "JAX-0.7 API model: Jaxpr/eqn/Var/Literal/DropVar shapes, Primitive.get_bind_params(params) = ([], params), bind returns a list iff multiple_results, cond_p params['branches'], scan_p params (jaxpr,length,reverse,num_consts,num_carry), jaxpr_as_fun"

# ------------------------------------------------------------------------------------------------
# PRNG keys: free algebra (A-PRNG)

Key = z3.Datatype("Key")
Key.declare("root")
Key.declare("tainted")  # any key that is not derived from the caller's key (global counter, fake key)
Key.declare("L", ("l_of", Key))
Key.declare("R", ("r_of", Key))
Key.declare("F", ("f_of", Key), ("f_idx", z3.IntSort()))
Key.declare("FromInt", ("from_int", z3.IntSort()))
Key = Key.create()


class _JRand:
    @staticmethod
    def split(k, num=2):
        Assumed.note("A-PRNG: jax.random.split/fold_in/key form a free algebra (distinct derivation paths = independent streams)")
        if num != 2:
            raise EngineLimit("split num != 2")
        return Sym(Key.L(_lift(k))), Sym(Key.R(_lift(k)))

    @staticmethod
    def fold_in(k, i):
        Assumed.note("A-PRNG: jax.random.split/fold_in/key form a free algebra (distinct derivation paths = independent streams)")
        return Sym(Key.F(_lift(k), _lift(i)))

    @staticmethod
    def key(n):
        return Sym(Key.FromInt(_lift(n)))

    PRNGKey = key


jrand = _JRand()


class Tracer:
    """jax.core.Tracer of the API model: values flowing through a jit / vmap / scan trace"""


class TracerSym(Sym, Tracer):
    """a symbolic value that is a Tracer (as under jit); plain Sym values stand for concrete (eager) values"""

    __slots__ = ()


def key_const(name):
    return Sym(fresh(name, Key))


def mentions(e, what):
    """does z3 term e contain sub-term `what` (syntactically)"""
    if z3.eq(e, what):
        return True
    return any(mentions(c, what) for c in e.children())


def key_uses_tainted(e):
    if e.sort() == Key and z3.is_app(e):
        n = e.decl().name()
        if n in ("tainted", "FromInt"):
            return True
    return any(key_uses_tainted(c) for c in e.children())


# ------------------------------------------------------------------------------------------------
# Jaxpr objects

_counter = itertools.count(1)


class _Model:
    """objects of the API model: an attribute the model does not have is a limit of the model (undecided), never
    an AttributeError attributed to the code under test"""

    def __getattr__(self, name):
        if name.startswith("__"):
            raise AttributeError(name)
        raise EngineLimit("the JAX-0.7 API model of %s has no attribute %r" % (type(self).__name__, name))


class Var(_Model):
    # what a jax Var is KNOWN not to have (so that `hasattr(v, "val")` / duck typing on Literal-ness answers as in JAX)
    _absent = ("val",)

    def __getattr__(self, name):
        if name in type(self)._absent:
            from ..sym import documented

            raise documented(AttributeError("'%s' object has no attribute '%s'" % (type(self).__name__, name)))
        return _Model.__getattr__(self, name)

    def __init__(self, name=None):
        self.count = next(_counter)
        self.name = name or "v%d" % self.count
        self.aval = None

    def __repr__(self):
        return self.name


class DropVar(Var):
    pass


class Literal(_Model):
    _absent = ("count",)

    def __getattr__(self, name):
        if name in type(self)._absent:
            from ..sym import documented

            raise documented(AttributeError("'%s' object has no attribute '%s'" % (type(self).__name__, name)))
        return _Model.__getattr__(self, name)

    def __init__(self, val):
        self.val = val


EQNS: list = []


class Eqn(_Model):
    def __init__(self, primitive, invars, outvars, params=None):
        self.primitive, self.invars, self.outvars, self.params = primitive, list(invars), list(outvars), dict(params or {})
        self.source_info = types.SimpleNamespace(traceback=None)
        # frame: a staged program is shared (the staging cache hands the same Jaxpr to every later interpretation), so
        # interpreting it must not change it
        self._frame = (primitive, tuple(self.invars), tuple(self.outvars), dict(self.params))
        EQNS.append(self)

    def unmutated(self):
        p0 = self._frame[3]
        return (self.primitive is self._frame[0] and tuple(self.invars) == self._frame[1] and tuple(self.outvars) == self._frame[2]
                and set(self.params) == set(p0) and all(self.params[k] is p0[k] or self.params[k] == p0[k] for k in p0))


def _frame_mark():
    return len(EQNS)


def _frame_check(mark):
    bad = [e for e in EQNS[mark:] if not e.unmutated()]
    if not EQNS[mark:]:
        return []
    return [("staged_program_not_mutated(equations, their params and operands are as staged)", not bad)]


class Jaxpr(_Model):
    def __init__(self, constvars, invars, eqns, outvars):
        self.constvars, self.invars, self.eqns, self.outvars = list(constvars), list(invars), list(eqns), list(outvars)
        self.debug_info = None


class ClosedJaxpr(_Model):
    def __init__(self, jaxpr, consts):
        self.jaxpr, self.consts = jaxpr, list(consts)
        self.literals = self.consts

    eqns = property(lambda self: self.jaxpr.eqns)


class Prim(_Model):
    """first-order primitive of the model; `bind` of an unknown primitive is uninterpreted"""

    def __init__(self, name, multiple_results=False, n_out=1):
        self.name, self.multiple_results, self.n_out = name, multiple_results, n_out
        self.binds = []

    def get_bind_params(self, params):
        # JAX's default: the equation's OWN params dict is handed back (no copy) - writing into it writes into the
        # staged program
        Assumed.note(API)
        return [], params

    def bind(self, *args, **params):
        Assumed.note(API)
        self.binds.append((args, params))
        from ..gfi import enc

        pe_ = enc(tuple(sorted((k, str(v)) for k, v in params.items() if isinstance(v, (int, float, str, bool)))))
        outs = []
        n_out = self.n_out
        # higher-order primitives bound as they are (no interpretation): as many results as the body / branches have
        body = params.get("jaxpr") if self.name == "scan" else (params.get("branches") or [None])[0] if self.name == "cond" else None
        if body is not None:
            n_out = len(getattr(body, "jaxpr", body).outvars)
        for k in range(n_out):
            f = z3.Function("Bind_%s_%d" % (self.name, k), V, V, V)
            outs.append(Sym(f(enc(tuple(args)), pe_)))
        return outs if self.multiple_results else outs[0]

    def __repr__(self):
        return "<prim %s>" % self.name


cond_p = Prim("cond", multiple_results=True)
scan_p = Prim("scan", multiple_results=True)


def jaxpr_as_fun(closed):
    Assumed.note(API)

    def fun(*args):
        """plain evaluation (jax.core.eval_jaxpr): every equation is bound as it is — a sampling site runs its
        keyless implementation"""
        Assumed.note("jaxpr_as_fun(closed)(*args) evaluates the jaxpr by binding each equation (no interpretation)")
        jp = closed.jaxpr
        env = {}
        rd = lambda v: v.val if isinstance(v, Literal) else env[v.count]
        for v, c in zip(jp.constvars, closed.consts):
            env[v.count] = c
        for v, a in zip(jp.invars, args):
            env[v.count] = a
        for eqn in jp.eqns:
            outs = eqn.primitive.bind(*[rd(v) for v in eqn.invars], **eqn.params)
            if not eqn.primitive.multiple_results:
                outs = [outs]
            for v, o in zip(eqn.outvars, outs):
                env[v.count] = o
        return [rd(v) for v in jp.outvars]

    fun.__vt_jaxpr__ = closed
    return fun


class _Stage:
    """stage(f): for functions that carry a model Jaxpr, returns it with the caller's flat args"""

    def __init__(self):
        self.calls = []

    def __call__(self, f, **params):
        def wrapped(*args, **kwargs):
            Assumed.note("stage(f)(*args): returns f's Jaxpr (model), the flat arguments in order and the output tree (jax tracing itself is not modelled)")
            self.calls.append((f, args, kwargs, params))
            closed = getattr(f, "__vt_jaxpr__", None)
            by_structure = getattr(f, "__vt_jaxpr_fn__", None)
            if by_structure is not None:
                # tracing a Python function depends on the STRUCTURE of its arguments (which are None, keyword names,
                # dict keys): the function supplies its Jaxpr per call structure
                closed = by_structure(args, kwargs)
            inner = f
            # functools.partial chains (ModularVmap.stage_and_run partials) are unwrapped by the caller
            if closed is None:
                raise EngineLimit("stage of a function without a model Jaxpr: %r" % (f,))
            import jax.tree_util as jtu

            flat_args, in_tree = jtu.tree_flatten((args, kwargs) if kwargs else args, is_leaf=lambda x: isinstance(x, (Sym, Tensor)))
            n_out = len(closed.jaxpr.outvars)
            out_tree = lambda: jtu.tree_structure(tuple(range(n_out))) if getattr(f, "__vt_out_tree__", None) is None else f.__vt_out_tree__
            return closed, (flat_args, in_tree, out_tree)

        return wrapped


def switch(index, branches, *operands):
    Assumed.note("jax.lax.switch(i, branches, *ops) runs branches[clamp(i)] on ops (only the taken branch's effects happen)")
    eng = engine()
    eng.extra.setdefault("switch_calls", []).append({"index": index, "branches": branches, "operands": operands})
    outs = [b(*operands) for b in branches]
    # merge by index
    res = outs[-1]
    import jax.tree_util as jtu
    from .jnp import where

    for k in range(len(outs) - 2, -1, -1):
        res = jtu.tree_map(lambda a, b, k=k: where(_lift(index) == k, a, b) if isinstance(a, (Sym, Tensor)) else a, outs[k], res,
                           is_leaf=lambda x: isinstance(x, (Sym, Tensor)))
    return res


def split_list(xs, ns):
    xs = list(xs)
    out = []
    for n in ns:
        out.append(xs[:n])
        xs = xs[n:]
    out.append(xs)
    return out


def safe_map(f, *xs):
    from ..sym import documented

    xs = [list(x) for x in xs]
    n = len(xs[0])
    for x in xs[1:]:
        if len(x) != n:
            # jax.util.safe_map asserts equal lengths: part of its contract, hence an outcome of the code under test
            raise documented(AssertionError("length mismatch: %s" % [len(a) for a in xs]))
    return [f(*a) for a in zip(*xs)]


from ..contract import FRAME_HOOKS as _FH  # noqa: E402

if not any(m is _frame_mark for m, _ in _FH):
    _FH.append((_frame_mark, _frame_check))
