"""jax.tree_util with one extension: SymDict (symbolic-key dict) is mapped lazily.  Everything else is
delegated to the real jax.tree_util (proxies are leaves to it), one level at a time."""
from __future__ import annotations

import types
from .ns import StubNS

import jax.tree_util as real

from ..maps import SymDict
from ..sym import Assumed, Sym


def _is_proxy_leaf(x):
    return isinstance(x, Sym) or getattr(x, "__vt_tensor__", False) or getattr(x, "__vt_leaf__", False)


def _children_are_self(x):
    lv = real.tree_leaves(x, is_leaf=lambda y: y is not x)
    return len(lv) == 1 and lv[0] is x


def tree_map(f, tree, *rest, is_leaf=None):
    if is_leaf is not None and is_leaf(tree):
        return f(tree, *rest)
    if isinstance(tree, SymDict):
        Assumed.note("jax.tree_util.tree_map over a dict maps every value (applied lazily to symbolic-key dicts)")
        if rest:
            from ..sym import EngineLimit

            raise EngineLimit("multi-tree map over symbolic dict")
        return tree.map_values(lambda v: tree_map(f, v, is_leaf=is_leaf))
    if _is_proxy_leaf(tree) or _children_are_self(tree):
        return f(tree, *rest)
    return real.tree_map(
        lambda c, *rc: tree_map(f, c, *rc, is_leaf=is_leaf), tree, *rest, is_leaf=lambda y: y is not tree
    )


def namespace():
    ns = StubNS()
    for k in dir(real):
        if not k.startswith("_"):
            setattr(ns, k, getattr(real, k))
    ns.tree_map = tree_map
    return ns
