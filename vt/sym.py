"""Symbolic scalar proxies and the path engine.

A `Sym` wraps a z3 term.  Python operators applied by the *real* repository code build terms;
`bool(sym)` asks the path engine for a decision, so every feasible path of the real function is
explored by re-execution over decision prefixes.

Standing assumption A-REAL: floats are mathematical reals, ints mathematical ints.
"""
from __future__ import annotations

import itertools
import z3

# ------------------------------------------------------------------------------------------------
# sorts

Atom = z3.DeclareSort("Atom")  # address atoms (strings of the address alphabet)
V = z3.DeclareSort("V")  # abstract values (choices, return values, arguments)
PathSort = z3.SeqSort(Atom)

_atom_consts: dict[str, z3.ExprRef] = {}


def atom(s: str) -> z3.ExprRef:
    """Concrete address string -> distinct Atom constant (distinctness asserted by `atom_axioms`)."""
    if s not in _atom_consts:
        _atom_consts[s] = z3.Const("atom!" + s, Atom)
    return _atom_consts[s]


# congruence axioms of uninterpreted matrix functions (vt/stubs/jnp.py: mat_key): part of every obligation's hypotheses of
# the contract case they were generated in (call and ensures phases alike); reset at the start of each case
EXTRA_AXIOMS: list = []
MAT_SEEN: list = []


def atom_axioms() -> list:
    cs = list(_atom_consts.values())
    return [z3.Distinct(*cs)] if len(cs) > 1 else []


class EngineLimit(Exception):
    """The real code did something the proxies/stubs do not model: the obligation is *undecided*."""


def documented(exc):
    """an error a stub raises *on purpose* because the modelled dependency documents it (it is part of
    the assumed contract); anything else raised from inside /verif while real code runs is a checker bug"""
    exc.__vt_documented__ = True
    return exc


class Assumed:
    """Registry of assumed contracts actually exercised in this run (printed into evidence)."""

    used: dict[str, int] = {}

    @classmethod
    def note(cls, text: str):
        cls.used[text] = cls.used.get(text, 0) + 1

    @classmethod
    def reset(cls):
        cls.used = {}


# ------------------------------------------------------------------------------------------------
# engine


class Path:
    def __init__(self, pc, decisions, outcome, value, extra):
        self.pc = pc  # list of z3 Bool
        self.decisions = decisions
        self.outcome = outcome  # "return" | "raise"
        self.value = value  # returned object or exception instance
        self.extra = extra  # dict: whatever the harness recorded (ghost state)

    def __repr__(self):
        return f"<Path {self.outcome} {self.decisions} {self.value!r}>"


class Engine:
    current: "Engine | None" = None

    def __init__(self, timeout_ms=10000, max_paths=4096):
        self.timeout_ms = timeout_ms
        self.max_paths = max_paths
        self.pc: list = []
        self.prefix: list = []
        self.taken: list = []
        self.work: list = []
        self.counter = itertools.count()
        self.extra: dict = {}
        self.solver_time = 0.0
        self.sat_calls = 0

    # -- fresh names (deterministic per execution) ------------------------------------------------
    def fresh_name(self, base):
        return f"{base}!{next(self.counter)}"

    # -- feasibility ------------------------------------------------------------------------------
    def _sat(self, extra):
        import time

        s = z3.Solver()
        s.set("timeout", self.timeout_ms)
        s.add(*atom_axioms())
        s.add(*self.pc)
        s.add(extra)
        t = time.time()
        r = s.check()
        self.solver_time += time.time() - t
        self.sat_calls += 1
        if r == z3.unknown:
            raise EngineLimit("path feasibility unknown: " + s.reason_unknown())
        return r == z3.sat

    def assume(self, cond):
        cond = _b(cond)
        self.pc.append(cond)

    def decide(self, cond: z3.BoolRef) -> bool:
        c = z3.simplify(cond)
        if z3.is_true(c):
            return True
        if z3.is_false(c):
            return False
        idx = len(self.taken)
        if idx < len(self.prefix):
            choice = self.prefix[idx]
        else:
            t_ok = self._sat(c)
            f_ok = self._sat(z3.Not(c))
            if t_ok and f_ok:
                choice = True
                self.work.append(self.taken + [False])
            elif t_ok:
                choice = True
            elif f_ok:
                choice = False
            else:
                raise EngineLimit("infeasible path reached (contradictory assumptions)")
        self.taken.append(choice)
        self.pc.append(c if choice else z3.Not(c))
        return choice

    def explore(self, thunk, expected_exceptions=(Exception,)):
        """Run `thunk()` once per feasible path.  Returns list[Path]."""
        paths = []
        self.work = [[]]
        prev = Engine.current
        Engine.current = self
        try:
            while self.work:
                if len(paths) >= self.max_paths:
                    raise EngineLimit("path budget exceeded")
                self.prefix = self.work.pop()
                self.taken = []
                self.pc = []
                self.extra = {}
                self.counter = itertools.count()
                try:
                    val = thunk()
                    outcome = "return"
                except EngineLimit:
                    raise
                except expected_exceptions as e:  # an exception of the real code is an outcome
                    val = e
                    outcome = "raise"
                # a path whose accumulated assumptions are contradictory proves everything: drop it (the cover
                # obligation then reports a case without feasible paths)
                if self.pc and not self._sat(z3.BoolVal(True)):
                    self.infeasible = getattr(self, "infeasible", 0) + 1
                    continue
                paths.append(Path(list(self.pc), list(self.taken), outcome, val, self.extra))
        finally:
            Engine.current = prev
        return paths


def engine() -> Engine:
    if Engine.current is None:
        raise EngineLimit("symbolic value used outside an exploration")
    return Engine.current


def fresh(base, sort):
    eng = Engine.current
    name = eng.fresh_name(base) if eng is not None else base
    return z3.Const(name, sort)


# ------------------------------------------------------------------------------------------------
# Sym


def _lift(x, like: z3.ExprRef | None = None):
    """Python value or Sym -> z3 term (sort guided by `like`)."""
    if isinstance(x, Sym):
        return x.e
    if isinstance(x, z3.ExprRef):
        return x
    if isinstance(x, bool):
        return z3.BoolVal(x)
    if isinstance(x, int):
        if like is not None and like.sort() == z3.RealSort():
            return z3.RealVal(x)
        return z3.IntVal(x)
    if isinstance(x, float):
        if x != x or x in (float("inf"), float("-inf")):
            raise EngineLimit("non-finite float literal")
        return z3.RealVal(repr(x))
    if isinstance(x, str):
        return atom(x)
    try:
        import numpy as np

        if isinstance(x, np.generic) or (isinstance(x, np.ndarray) and x.shape == ()):
            return _lift(x.item(), like)
    except ImportError:
        pass
    raise EngineLimit(f"cannot lift {type(x).__name__} to a term")


def _b(x):
    if isinstance(x, Sym):
        return x.e
    if isinstance(x, bool):
        return z3.BoolVal(x)
    return x


def _num2(a, b):
    """coerce two numeric terms to a common sort"""
    if a.sort() == b.sort():
        return a, b
    if a.sort() == z3.IntSort() and b.sort() == z3.RealSort():
        return z3.ToReal(a), b
    if a.sort() == z3.RealSort() and b.sort() == z3.IntSort():
        return a, z3.ToReal(b)
    if a.sort() == z3.BoolSort() and z3.is_arith_sort(b.sort()):
        return _num2(z3.If(a, z3.IntVal(1), z3.IntVal(0)), b)
    if b.sort() == z3.BoolSort() and z3.is_arith_sort(a.sort()):
        return _num2(a, z3.If(b, z3.IntVal(1), z3.IntVal(0)))
    raise EngineLimit(f"sort mismatch {a.sort()} / {b.sort()}")


# ------------------------------------------------------------------------------------------------
# extended-real multiplication: log densities / weights of abstract generative functions may be -inf, and
# 0 * -inf is NaN in floating point.  A product with a factor that mentions such a value (and no non-zero
# numeric literal factor) equals the real product only when those values are finite.

DENSITY_PREFIXES = ("D_", "GenW_", "P_", "LP_")
IsFinite = z3.Function("IsFinite", z3.RealSort(), z3.BoolSort())
NanMul = z3.Function("NanMul", z3.RealSort(), z3.RealSort(), z3.RealSort())
_dens_memo = {}


def _density_apps(e):
    k = e.get_id()
    r = _dens_memo.get(k)
    if r is not None:
        return r[1]
    out = {}
    if z3.is_app(e) and e.decl().kind() == z3.Z3_OP_UNINTERPRETED and e.decl().name().startswith(DENSITY_PREFIXES) and e.sort() == z3.RealSort():
        out[k] = e
    elif z3.is_app(e):
        for c in e.children():
            out.update(_density_apps(c))
    elif z3.is_quantifier(e):
        out.update(_density_apps(e.body()))
    if len(_dens_memo) > 200000:
        _dens_memo.clear()
    _dens_memo[k] = (e, out)  # keep e alive so the id is not reused
    return out


def _nonzero_literal(e):
    e = z3.simplify(e) if not z3.is_rational_value(e) and not z3.is_int_value(e) else e
    if z3.is_int_value(e):
        return e.as_long() != 0
    if z3.is_rational_value(e):
        return e.numerator_as_long() != 0
    return False


def ext_mul(a, b):
    try:
        a, b = _num2(a, b)
    except EngineLimit:
        return a * b
    if a.sort() != z3.RealSort():
        return a * b
    apps = {}
    apps.update(_density_apps(a))
    apps.update(_density_apps(b))
    if not apps or _nonzero_literal(a) or _nonzero_literal(b):
        return a * b
    if any(z3.is_var(t) or _has_var(t) for t in apps.values()):
        return a * b  # under a binder: the guard cannot be stated outside; treated as the real product
    Assumed.note("A-EXTREAL: a product whose factors mention a log density / weight of an abstract generative function equals the real product when those values are finite and is unconstrained (NaN) otherwise; sums and selects of such values are modelled in real arithmetic")
    return z3.If(z3.And(*[IsFinite(t) for t in apps.values()]), a * b, NanMul(a, b))


def _has_var(e):
    if z3.is_var(e):
        return True
    return any(_has_var(c) for c in e.children())


class Sym:
    """Scalar symbolic proxy."""

    __slots__ = ("e", "weak", "fp")
    __array_priority__ = 1000

    def __init__(self, e, weak=False, fp=0):
        assert isinstance(e, z3.ExprRef), e
        self.e = e
        # floating-point provenance of a real-valued scalar computed by the code (A-REAL treats its VALUE as exact):
        # 0 = exact (integers, constants, inputs), 1 = ONE correctly rounded operation (a quotient: exact whenever the
        # true result is representable, e.g. an integer), 2 = arithmetic ON rounded values (errors accumulate: when the
        # true value is an integer the computed one may land on either side of it).  Only ceil / floor / int() look at it
        self.fp = fp
        # JAX weak type: a Python scalar turned into an array WITHOUT a dtype keeps taking the dtype of whatever it is
        # combined with; an explicit dtype fixes it.  Only recorded (for contracts that say a scalar argument must reach a
        # user function as weakly typed as it was given); arithmetic drops the mark
        self.weak = weak

    # -- introspection ---------------------------------------------------------------------------
    @property
    def sort(self):
        return self.e.sort()

    def is_bool(self):
        return self.e.sort() == z3.BoolSort()

    def __repr__(self):
        return f"Sym({z3.simplify(self.e)})"

    # numpy-ish attributes the real code reads on scalars
    shape = ()
    ndim = 0

    @property
    def dtype(self):
        s = self.e.sort()
        return "bool" if s == z3.BoolSort() else ("int" if s == z3.IntSort() else "float")

    def __hash__(self):
        raise EngineLimit("symbolic value used as a key of a concrete dict/set")

    def __bool__(self):
        if not self.is_bool():
            if z3.is_arith_sort(self.e.sort()):
                return engine().decide(self.e != 0)
            raise EngineLimit(f"truth value of a {self.e.sort()} term")
        return engine().decide(self.e)

    def __index__(self):
        """concretise a (small, bounded) symbolic integer by case analysis: one path per feasible value"""
        if self.e.sort() != z3.IntSort():
            raise EngineLimit("non-integer symbolic value used as a concrete index")
        eng = engine()
        for k in range(0, 16):
            if eng.decide(self.e == k):
                return k
        raise EngineLimit("symbolic value used as a concrete index (not within 0..15)")

    def __int__(self):
        if self.e.sort() == z3.RealSort():
            return self._round_to_int("trunc").__index__()
        return self.__index__()

    def _round_to_int(self, how):
        """math.ceil / math.floor / int() of a real-valued scalar -> integer Sym.  Exact for values computed exactly or
        by one correctly rounded operation; for arithmetic on rounded values (fp == 2) the result is the exact one, or -
        when the true value is an integer - possibly the neighbour on the unstable side (documented floating-point
        behaviour: 100/3 - 10/3 = 30.000000000000004, whose ceil is 31)"""
        e = self.e
        if e.sort() == z3.IntSort():
            return self
        if e.sort() != z3.RealSort():
            raise EngineLimit("rounding of a %s term" % e.sort())
        fl = z3.ToInt(e)
        is_int = z3.ToReal(fl) == e
        exact = {"floor": fl, "ceil": z3.If(is_int, fl, fl + 1), "trunc": z3.If(e >= 0, fl, z3.If(is_int, fl, fl + 1))}[how]
        if self.fp < 2:
            return Sym(exact)
        Assumed.note("floating point: ceil / floor / int() of a value computed by arithmetic on ROUNDED quantities (e.g. a difference of two inexact quotients) may fall on either side of an integer the true value equals")
        r = fresh("rounded_" + how, z3.IntSort())
        engine().assume(z3.And(r >= exact - 1, r <= exact + 1, z3.Implies(r != exact, is_int)))
        return Sym(r)

    def __ceil__(self):
        return self._round_to_int("ceil")

    def __floor__(self):
        return self._round_to_int("floor")

    def __trunc__(self):
        return self._round_to_int("trunc")

    # -- arithmetic ------------------------------------------------------------------------------
    def _bin(self, other, op, reflected=False):
        try:
            o = _lift(other, self.e)
        except EngineLimit:
            return NotImplemented
        a, b = (o, self.e) if reflected else (self.e, o)
        a, b = _num2(a, b)
        try:
            r = Sym(op(a, b))
        except (z3.Z3Exception, TypeError) as e:
            # e.g. an ordering comparison on an abstract value (sort V): outside what the proxies model
            raise EngineLimit("operation not defined on these proxy sorts (%s / %s): %s" % (a.sort(), b.sort(), str(e)[:80]))
        if r.e.sort() == z3.RealSort():
            ofp = other.fp if isinstance(other, Sym) else 0
            if max(self.fp, ofp) >= 1:
                r.fp = 2
            elif getattr(op, "__vt_rounds__", False) and not z3.is_rational_value(z3.simplify(r.e)):
                r.fp = 1
        return r

    def __add__(self, o):
        return self._bin(o, lambda a, b: a + b)

    def __radd__(self, o):
        return self._bin(o, lambda a, b: a + b, True)

    def __sub__(self, o):
        return self._bin(o, lambda a, b: a - b)

    def __rsub__(self, o):
        return self._bin(o, lambda a, b: a - b, True)

    def __mul__(self, o):
        return self._bin(o, ext_mul)

    def __rmul__(self, o):
        return self._bin(o, ext_mul, True)

    def __truediv__(self, o):
        def div(a, b):
            if a.sort() == z3.IntSort():
                a = z3.ToReal(a)
            if b.sort() == z3.IntSort():
                b = z3.ToReal(b)
            return a / b

        div.__vt_rounds__ = True
        return self._bin(o, div)

    def __rtruediv__(self, o):
        def div(a, b):
            if a.sort() == z3.IntSort():
                a = z3.ToReal(a)
            if b.sort() == z3.IntSort():
                b = z3.ToReal(b)
            return a / b

        div.__vt_rounds__ = True
        return self._bin(o, div, True)

    def __floordiv__(self, o):
        def fd(a, b):
            if a.sort() == z3.IntSort() and b.sort() == z3.IntSort():
                return a / b  # z3 integer division (floor for positive divisor)
            raise EngineLimit("floor division of reals")

        return self._bin(o, fd)

    def __mod__(self, o):
        return self._bin(o, lambda a, b: a % b)

    def __neg__(self):
        if self.is_bool():
            raise EngineLimit("negation of a Bool")
        return Sym(-self.e)

    def __pos__(self):
        return self

    def __pow__(self, o):
        if isinstance(o, int) and o >= 0:
            r = Sym(z3.RealVal(1)) if self.e.sort() == z3.RealSort() else Sym(z3.IntVal(1))
            for _ in range(o):
                r = r * self
            return r
        raise EngineLimit("general power")

    # -- comparisons -----------------------------------------------------------------------------
    def __eq__(self, o):  # type: ignore[override]
        if isinstance(o, tuple) or o is None:
            return False
        try:
            b = _lift(o, self.e)
        except EngineLimit:
            return NotImplemented
        a = self.e
        if a.sort() != b.sort():
            if z3.is_arith_sort(a.sort()) and z3.is_arith_sort(b.sort()):
                a, b = _num2(a, b)
            else:
                return False
        return Sym(a == b)

    def __ne__(self, o):  # type: ignore[override]
        r = self.__eq__(o)
        if r is NotImplemented:
            return r
        if isinstance(r, bool):
            return not r
        return Sym(z3.Not(r.e))

    def __lt__(self, o):
        return self._bin(o, lambda a, b: a < b)

    def __le__(self, o):
        return self._bin(o, lambda a, b: a <= b)

    def __gt__(self, o):
        return self._bin(o, lambda a, b: a > b)

    def __ge__(self, o):
        return self._bin(o, lambda a, b: a >= b)

    # -- boolean algebra (element-wise, as on jnp bool arrays) -----------------------------------
    def __invert__(self):
        if not self.is_bool():
            raise EngineLimit("~ on non-Bool")
        return Sym(z3.Not(self.e))

    def __and__(self, o):
        return Sym(z3.And(self.e, _lift(o)))

    __rand__ = __and__

    def __or__(self, o):
        return Sym(z3.Or(self.e, _lift(o)))

    __ror__ = __or__

    def __xor__(self, o):
        return Sym(z3.Xor(self.e, _lift(o)))

    __rxor__ = __xor__

    def astype(self, dt):
        return cast_to(self, dt)

    def sum(self, *a, **k):
        return self

    def __getitem__(self, key):
        """scalar indexing as on a 0-d array: x[None], x[None, ...], x[...]"""
        from .tensor import Tensor

        if not isinstance(key, tuple):
            key = (key,)
        if all(k is None or k is Ellipsis for k in key):
            n_new = sum(1 for k in key if k is None)
            if n_new == 0:
                return self
            e = self.e
            return Tensor((1,) * n_new, lambda idx: e)
        raise documented(IndexError("too many indices for array: array is 0-dimensional"))


def real(name):
    return Sym(fresh(name, z3.RealSort()))


def integer(name):
    return Sym(fresh(name, z3.IntSort()))


def boolean(name):
    return Sym(fresh(name, z3.BoolSort()))


def atom_sym(name):
    return Sym(fresh(name, Atom))


def value(name):
    return Sym(fresh(name, V))


def ite(c, a, b):
    """leaf-wise If for Sym/python scalars (a numeric predicate means non-zero, as in jnp.where / lax.cond)"""
    c = _lift(c)
    if z3.is_arith_sort(c.sort()):
        c = c != 0
    if z3.is_true(z3.simplify(c)):
        return a
    if z3.is_false(z3.simplify(c)):
        return b
    ae, be = _lift(a), _lift(b, _lift(a))
    if ae.sort() != be.sort():
        ae, be = _num2(ae, be)
    return Sym(z3.If(c, ae, be))


def dtype_kind(dt):
    """'int' | 'float' | 'bool' | None for a dtype designator (numpy / jax dtype object, python type, string, or the
    stubs' own 'int' / 'float' / 'bool' strings)"""
    if dt is None:
        return None
    if dt in (int,):
        return "int"
    if dt in (float,):
        return "float"
    if dt in (bool,):
        return "bool"
    n = getattr(dt, "name", None) or getattr(dt, "__name__", None) or str(dt)
    n = str(n).lower()
    if "bool" in n:
        return "bool"
    if "int" in n:
        return "int"
    if "float" in n or "double" in n or "bfloat" in n:
        return "float"
    return None


def trunc_to_int(e):
    """float -> integer conversion as JAX / NumPy do it: truncation toward zero"""
    return z3.If(e >= 0, z3.ToInt(e), -z3.ToInt(-e))


def cast_to(x, dt):
    """value conversion of .astype / asarray(dtype=...): float -> int TRUNCATES (a change of value, not only of type),
    int -> float and bool -> number are exact; unknown dtypes leave the value as it is"""
    k = dtype_kind(dt)
    if k is None or not isinstance(x, Sym):
        return x
    s = x.e.sort()
    if k == "int":
        if s == z3.RealSort():
            Assumed.note("dtype conversion float -> int truncates toward zero (JAX / NumPy astype, asarray(dtype=int), writes into an integer array)")
            return Sym(trunc_to_int(x.e))
        if s == z3.BoolSort():
            return Sym(z3.If(x.e, z3.IntVal(1), z3.IntVal(0)))
        return x
    if k == "float":
        if s == z3.IntSort():
            return Sym(z3.ToReal(x.e))
        if s == z3.BoolSort():
            return Sym(z3.If(x.e, z3.RealVal(1), z3.RealVal(0)))
        return x
    if k == "bool" and z3.is_arith_sort(s):
        return Sym(x.e != 0)
    return x
