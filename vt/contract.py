"""Contracts on real functions, obligation generation and discharge.

A contract names a real function (`"genjax.core:Vmap.update"`), declares concrete *cases*, builds
symbolic inputs (`given`), calls the real function object taken from the working tree (`call`), and
yields named postcondition clauses (`ensures`).  Every clause becomes one obligation per case:

    AND over explored paths:  pre /\\ pc_path  =>  clause_path

discharged by z3 (negation unsat).  Verdicts: proved / refuted(model) / unknown.
"""
from __future__ import annotations

import time
import traceback

import z3

from . import loader
from .sym import Assumed, Engine, EngineLimit, Sym, atom_axioms

REGISTRY: list = []
FRAME_HOOKS: list = []  # (mark(), check(mark) -> [(clause name, bool)]) pairs registered by dependency models
import os as _os

_ROOT = _os.path.dirname(_os.path.dirname(_os.path.abspath(__file__)))


def contract(target, properties, **kw):
    def deco(cls):
        cls.target = target
        cls.properties = list(properties)
        for k, v in kw.items():
            setattr(cls, k, v)
        REGISTRY.append(cls)
        return cls

    return deco


TRACKED: list = []


def track(*items):
    """register module-level recorders (a list, or an (object, attribute) pair holding a list) whose
    content is per-path state: it is snapshotted after each path and restored before that path's ensures"""
    for it in items:
        if isinstance(it, tuple):
            if not any(isinstance(t, tuple) and t[0] is it[0] and t[1] == it[1] for t in TRACKED):
                TRACKED.append(it)
        elif not any(it is t for t in TRACKED):
            TRACKED.append(it)


def _snap():
    out = []
    for it in TRACKED:
        if isinstance(it, tuple):
            out.append(list(getattr(it[0], it[1])))
        else:
            out.append(list(it))
    return out


def _restore(snap):
    for it, val in zip(TRACKED, snap):
        if isinstance(it, tuple):
            setattr(it[0], it[1], list(val))
        else:
            it[:] = val


class RealRaise(Exception):
    """An exception raised while the *real* function was running (an outcome, matched against the contract)."""

    def __init__(self, exc):
        super().__init__(repr(exc))
        self.exc = exc
        self.tb = "".join(traceback.format_exception(type(exc), exc, exc.__traceback__))[-2500:]


class Contract:
    """Base class.  Subclasses define:
    cases: list[str]
    call(self, case) -> value          (runs the real function on proxies; executed once per path)
    ensures(self, case, path) -> iterable[(clause_name, z3 Bool | bool)]
    Optional: pre(self, case) -> list[z3 Bool] extra assumptions (already in pc if made via engine.assume)
              replay(self, case, clause, model, path) -> dict | None   (native re-run)
    """

    target: str
    properties: list
    cases = ["default"]
    kind = "contract"  # or "lemma" (pure SMT over contracts), "canary", "bounded"
    expected_exceptions = (RealRaise,)
    max_paths = 4096

    def __init__(self):
        self.mod = self.owner = self.fn = None
        if self.target and self.target.startswith("genjax."):
            self.mod, self.owner, self.fn = loader.resolve(self.target)

    # helpers ------------------------------------------------------------------------------------
    def real(*a, **kwargs):
        """self.real(fn, *args, **kwargs): run real code; its exceptions are outcomes, exceptions
        elsewhere in the harness are crashes"""
        _self, fn, *args = a
        from . import modstate
        from .sym import engine as _engine

        ms = [modstate.mark()]
        try:
            return Contract._real(ms, fn, args, kwargs)
        finally:
            # frame condition on module-level state of the code under verification, around THIS call of real code
            # (also when it raised): see vt/modstate.py
            if ms[0] is not None:
                try:
                    _engine().extra.setdefault("frame_always", []).extend(modstate.check(ms[0]))
                except Exception:
                    pass

    @staticmethod
    def _real(ms, fn, args, kwargs):
        try:
            return fn(*args, **kwargs)
        except EngineLimit:
            ms[0] = None  # the run left the verifier's reach: nothing is claimed about it
            raise
        except RecursionError:
            ms[0] = None
            raise EngineLimit("recursion limit")
        except Exception as e:
            # an undocumented exception raised from inside the checker's own code is a checker bug
            tb = e.__traceback__
            last = None
            while tb is not None:
                last = tb
                tb = tb.tb_next
            origin = last.tb_frame.f_code.co_filename if last is not None else ""
            in_checker = origin.startswith(_ROOT) or "/site-packages/z3/" in origin
            if "/site-packages/jax/" in origin and "tree_util" not in origin:
                # a JAX function that is not part of the dependency model (everything but jax.tree_util, which runs for
                # real) was handed a proxy value and failed on it: a limit of the model (undecided), not an outcome of
                # the code under verification
                ms[0] = None
                raise EngineLimit("unmodelled JAX function raised on a proxy value: %s" % (str(e)[:200],))
            if in_checker and not getattr(e, "__vt_documented__", False):
                ms[0] = None
                raise
            import re as _re

            if isinstance(e, (TypeError, AttributeError)) and not getattr(e, "__vt_documented__", False) and _re.search(r"\b(DN|Sym|Tensor|SymDict|SymSeq|StubNS|AbsTrace|AbsGF)\b( object|'|\))", str(e)):
                # the real code tripped over one of the verifier's own proxy types (a dependency model handed it a value
                # of the wrong shape, e.g. a dual number where a tuple of dual numbers was due): a limit of the model
                # (undecided), not an outcome of the code under verification
                ms[0] = None
                raise EngineLimit("the code failed on a proxy value of the verifier: %s" % (str(e)[:200],))
            raise RealRaise(e)

    def call(self, case):
        raise NotImplementedError

    def ensures(self, case, path):
        raise NotImplementedError

    def replay(self, case, clause, model, path):
        return None


def canary(cls, case, clause):
    """register a canary for an existing contract: the NEGATION of one of its proved clauses must be refuted
    (with a model) on every run — shows that the pipeline can say no on this very function"""

    class Canary(cls):
        pass

    Canary.kind = "canary"
    Canary.cases = [case]
    Canary.__name__ = "Canary_" + cls.__name__
    Canary.__doc__ = "canary: negation of %s/%s[%s] must be refuted" % (cls.target, clause, case)
    parent_ensures = cls.ensures

    def ensures(self, c, path):
        found = False
        for name, f in parent_ensures(self, c, path):
            if name == clause:
                found = True
                if isinstance(f, Sym):
                    f = f.e
                if isinstance(f, bool):
                    f = z3.BoolVal(f)
                yield "must_fail/" + clause, z3.Not(f)
        return

    Canary.ensures = ensures
    Canary.replay = lambda self, *a: None
    Canary.target = cls.target
    Canary.properties = list(cls.properties)
    REGISTRY.append(Canary)
    return Canary


class Result:
    def __init__(self, name, target, case, clause, kind):
        self.name, self.target, self.case, self.clause, self.kind = name, target, case, clause, kind
        self.verdict = "unknown"
        self.backend = None
        self.seconds = 0.0
        self.paths = 0
        self.detail = ""
        self.model = None
        self.failing_path = None
        self.replay = None

    def to_json(self):
        return {
            "obligation": self.name,
            "function": self.target,
            "case": self.case,
            "clause": self.clause,
            "kind": self.kind,
            "verdict": self.verdict,
            "backend": self.backend,
            "seconds": round(self.seconds, 4),
            "paths": self.paths,
            "detail": self.detail[:2000],
        }


def _check(pc, goal, timeout_ms):
    from . import sym as _sym

    if _sym.EXTRA_AXIOMS:
        pc = list(pc) + list(_sym.EXTRA_AXIOMS)
    """returns (verdict, model|None, reason, backend)"""
    s = z3.Solver()
    has_red = bool(_reduction_apps(list(pc) + [goal]))
    s.set("timeout", 2000 if has_red else timeout_ms)
    s.add(*atom_axioms())
    s.add(*pc)
    s.add(z3.Not(goal))
    r = s.check()
    if r == z3.unknown and has_red:
        bm = _bounded_refute(pc, goal, timeout_ms)
        if bm is not None:
            return "refuted", bm[1], "counter-model with every reduction length = %d" % bm[0], "z3"
        s.set("timeout", timeout_ms)
        r = s.check()
    if r == z3.unsat:
        return "proved", None, "", "z3"
    if r == z3.sat:
        from . import numcheck

        kind, env = numcheck.validate(list(pc), goal, s.model())
        if kind == "spurious":
            return "unknown", None, "z3 counter-model interprets exp/log in a way no exponential behaves and no numeric counter-example was found (200 points): undecided", None
        if kind == "genuine":
            return "refuted", s.model(), "numeric counter-example (standard exp/log): %s" % ({k: (round(v, 6) if isinstance(v, float) else v) for k, v in list(env.items())[:12]},), "z3+numeric"
        return "refuted", s.model(), "", "z3"
    reason = s.reason_unknown()
    # reductions: try to *refute* with every reduction length fixed to a small N (finite sums are an
    # instance of the Sum/LSE/Any vocabulary, so a model here is a genuine counter-model)
    # second back end: cvc5 on the SMT-LIB dump
    v = _cvc5(s, timeout_ms)
    if v == "unsat":
        return "proved", None, "z3 unknown (%s); cvc5 unsat" % reason, "cvc5"
    return "unknown", None, "z3: %s; cvc5: %s" % (reason, v), None


_BINDERS = ("Sum", "LSE", "Any", "StackV", "CumSum", "SearchSortedLeft", "CategoricalDraw")


def _lam_arg(a):
    """index of the lambda (array) argument of a binder application, and of its length argument (or None)"""
    n = a.decl().name()
    if n in ("Sum", "LSE", "Any", "StackV"):
        return 1, 0
    if n == "CumSum":
        return 0, None
    return 0, 1  # SearchSortedLeft(lam, n, v), CategoricalDraw(lam, n, nonce, j)


def _reduction_apps(exprs):
    seen, out = set(), []

    def walk(e):
        if e.get_id() in seen:
            return
        seen.add(e.get_id())
        if z3.is_app(e) and e.decl().name() in _BINDERS and e.num_args() >= 2:
            out.append(e)
        if z3.is_quantifier(e):
            walk(e.body())
            return
        for c in e.children():
            walk(c)

    for e in exprs:
        walk(e)
    return out


def _int_consts(e, acc):
    if z3.is_const(e) and e.decl().kind() == z3.Z3_OP_UNINTERPRETED and e.sort() == z3.IntSort():
        acc[e.get_id()] = e
    for c in e.children():
        _int_consts(c, acc)


def _finite_instance(a, N, env=None):
    """the meaning of a binder application when its array length is concrete.  `env` maps the free integer
    constants occurring in length terms to the value N, so that lengths like n, n-1, T-1 become numerals."""
    name = a.decl().name()
    li, ni = _lam_arg(a)
    lam = a.arg(li)
    M = N
    side = []
    if ni is not None:
        n = a.arg(ni)
        if env:
            n = z3.simplify(z3.substitute(n, *env))
        if z3.is_int_value(n):
            M = n.as_long()
            if M > 16 or M < 0:
                return None
        else:
            side.append(n == N)
    elems = [z3.simplify(z3.Select(lam, z3.IntVal(k))) for k in range(M)]
    if name == "Sum":
        exp = z3.Sum(elems) if M > 1 else (elems[0] if M == 1 else z3.RealVal(0))
    elif name == "Any":
        exp = z3.Or(*elems) if elems else z3.BoolVal(False)
    elif name == "LSE":
        f = z3.Function("LSE_%d" % M, *([z3.RealSort()] * M), z3.RealSort()) if M else None
        exp = f(*elems) if M else z3.Real("lse_empty")
    elif name == "StackV":
        srt = lam.sort().range()
        f = z3.Function("Stack_%d_%s" % (M, srt), *([srt] * M), a.sort()) if M else None
        exp = f(*elems) if M else z3.Const("stack_empty", a.sort())
    elif name == "CumSum":
        i = a.arg(1)
        exp = z3.RealVal(0)
        for k in range(M - 1, -1, -1):
            part = z3.Sum(elems[: k + 1]) if k > 0 else elems[0]
            exp = z3.If(i >= k, part, exp) if k == M - 1 else z3.If(i == k, part, exp)
    elif name == "SearchSortedLeft":
        v = a.arg(2)
        exp = z3.Sum([z3.If(e < v, 1, 0) for e in elems]) if M > 1 else (z3.If(elems[0] < v, 1, 0) if M == 1 else z3.IntVal(0))
    else:  # CategoricalDraw(lam, n, nonce, j)
        f = z3.Function("Cat_%d" % M, *([z3.RealSort()] * M), z3.IntSort(), z3.IntSort(), z3.IntSort())
        exp = f(*elems, a.arg(2), a.arg(3))
    return exp, side


def _top_level_apps(exprs):
    """binder applications that are not under a lambda / quantifier (closed terms: safe to substitute)"""
    seen, out = set(), []

    def walk(e):
        if e.get_id() in seen:
            return
        seen.add(e.get_id())
        if z3.is_quantifier(e):
            return
        if z3.is_app(e) and e.decl().name() in _BINDERS and e.num_args() >= 2:
            out.append(e)
            # its non-lambda arguments may contain further closed applications
            li = _lam_arg(e)[0]
            for k in range(e.num_args()):
                if k != li:
                    walk(e.arg(k))
            return
        for c in e.children():
            walk(c)

    for e in exprs:
        walk(e)
    return out


def _bounded_refute(pc, goal, timeout_ms):
    """look for a counter-model among FINITE INSTANCES: every array has N entries (N = 1, 2, 3, or its concrete
    length); binder applications are expanded outermost first (beta-reducing their lambdas exposes the inner
    ones as closed terms) until no lambda is left.  A model of (pc and not goal) there is a genuine counter-model."""
    forms = list(pc) + [z3.Not(goal)]
    if not _reduction_apps(forms):
        return None
    # free integer constants occurring in array-length positions get the value N
    len_consts = {}
    for a in _reduction_apps(forms):
        ni = _lam_arg(a)[1]
        if ni is not None:
            _int_consts(a.arg(ni), len_consts)
    def _candidate_envs():
        # (a) every length constant = N (uniform instances)
        for N in (1, 2, 3, 4):
            yield N, [(c, z3.IntVal(N)) for c in len_consts.values()]
        # (b) lengths related by side conditions (n - burn_in, a thinned length L with L*k >= n-b, ...): let the solver
        # pick small values for the length constants that satisfy the binder-free part of the formulas
        lens = []
        for a in _reduction_apps(forms):
            ni = _lam_arg(a)[1]
            if ni is not None and not z3.is_int_value(a.arg(ni)):
                lens.append(a.arg(ni))
        skeleton = [f for f in forms if not _reduction_apps([f])]
        sk = z3.Solver()
        sk.set("timeout", 3000)
        sk.add(*atom_axioms())
        sk.add(*skeleton)
        for l in lens:
            sk.add(l >= 0, l <= 3)
        for c in len_consts.values():
            sk.add(c >= 0, c <= 8)
        consts = list(len_consts.values())
        for _ in range(10):
            if not consts or sk.check() != z3.sat:
                return
            m = sk.model()
            vals = [m.eval(c, model_completion=True) for c in consts]
            yield 3, list(zip(consts, vals))
            sk.add(z3.Or(*[c != v for c, v in zip(consts, vals)]))

    for N, env in _candidate_envs():
        fs = list(forms)
        side = [c == v for c, v in env]
        ok = True
        for _ in range(24):
            apps = _top_level_apps(fs)
            if not apps:
                break
            subs = []
            for a in apps:
                r = _finite_instance(a, N, env)
                if r is None:
                    ok = False
                    break
                subs.append((a, r[0]))
                side += r[1]
            if not ok:
                break
            fs = [z3.simplify(z3.substitute(f, *subs)) for f in fs]
            if sum(len(f.sexpr()) for f in fs) > 4_000_000:
                ok = False
                break
        else:
            ok = False
        if not ok:
            continue
        txt = " ".join(f.sexpr() for f in fs)
        if "lambda" in txt:
            continue  # some other lambda is left: do not claim a refutation
        s = z3.Solver()
        s.set("timeout", min(timeout_ms, 10000))
        s.add(*atom_axioms())
        s.add(*fs)
        s.add(*[z3.simplify(x) for x in side])
        if s.check() == z3.sat:
            from . import numcheck

            hyp, g = fs[:-1] + [z3.simplify(x) for x in side], z3.Not(fs[-1])
            kind, env = numcheck.validate(hyp, g, s.model())
            if kind == "spurious":
                continue  # exp/log interpreted non-standardly and no numeric counter-example: not a refutation
            return N, s.model()
    return None


def _cvc5(solver, timeout_ms):
    import subprocess, tempfile, os

    try:
        txt = solver.to_smt2()
    except Exception as e:  # pragma: no cover
        return "dump-failed: %s" % e
    if "lambda" in txt:
        return "not-in-fragment"
    txt = "(set-logic ALL)\n" + txt
    fd, p = tempfile.mkstemp(suffix=".smt2")
    try:
        with os.fdopen(fd, "w") as f:
            f.write(txt)
        out = subprocess.run(
            ["/usr/bin/cvc5", "--strings-exp", "--tlimit=%d" % timeout_ms, p],
            capture_output=True,
            text=True,
            timeout=timeout_ms / 1000 + 5,
        )
        first = (out.stdout.strip().splitlines() or ["?"])[0]
        return first
    except Exception as e:
        return "error: %s" % e
    finally:
        os.unlink(p)


def cross_check_cvc5(pc, goal, timeout_ms):
    from . import sym as _sym

    if _sym.EXTRA_AXIOMS:
        pc = list(pc) + list(_sym.EXTRA_AXIOMS)
    s = z3.Solver()
    s.add(*atom_axioms())
    s.add(*pc)
    s.add(z3.Not(goal))
    return _cvc5(s, timeout_ms)


def run_contract(cls, tier="quick", cross=False, no_replay=()):
    """Explore all paths of all cases, discharge all clauses.  Returns (results, meta)."""
    timeout_ms = 10000 if tier == "quick" else 60000
    results = []
    meta = {"target": cls.target, "paths": 0, "source_hash": None, "cases": {}}
    try:
        c = cls()
    except loader.MissingTarget as e:
        r = Result(cls.target + "/target", cls.target, "-", "target_exists", cls.kind)
        r.verdict, r.detail = "unknown", "contract target missing: %s" % e
        return [r], meta
    if c.fn is not None:
        meta["source_hash"] = loader.source_hash(c.fn)
    for case in c.cases:
        eng = Engine(timeout_ms=timeout_ms, max_paths=c.max_paths)
        t0 = time.time()
        try:
            base_state = dict(c.__dict__)

            from . import sym as _sym

            del _sym.EXTRA_AXIOMS[:], _sym.MAT_SEEN[:]
            def thunk(c=c, case=case, eng=eng):
                c.__dict__.clear()
                c.__dict__.update(base_state)
                marks = [m() for m, _ in FRAME_HOOKS]
                try:
                    return c.call(case)
                finally:
                    eng.extra["state"] = dict(c.__dict__)
                    eng.extra["tracked"] = _snap()
                    # frame conditions of the dependency models, evaluated at the end of the path (while its objects
                    # are still in the state the real code left them in)
                    eng.extra["frame"] = [cl for (_, chk), mk in zip(FRAME_HOOKS, marks) for cl in chk(mk)]

            paths = eng.explore(thunk, c.expected_exceptions)
        except EngineLimit as e:
            r = Result(f"{cls.target}/explore[{case}]", cls.target, case, "explore", cls.kind)
            r.verdict, r.detail = "unknown", "engine limit: %s" % e
            r.seconds = time.time() - t0
            # the function left the verifier's reach (restructured / unmodelled dependency): the contract's native
            # cross-check of this function may still find a concrete failing input on the real code
            if cls.kind != "canary":
                try:
                    r.replay = c.replay(case, "explore", None, None)
                except Exception as ee:
                    r.replay = {"error": "replay crashed: %r" % ee, "confirmed": False}
            results.append(r)
            continue
        except Exception as e:
            r = Result(f"{cls.target}/explore[{case}]", cls.target, case, "explore", cls.kind)
            r.verdict = "crash"
            r.detail = "".join(traceback.format_exception(type(e), e, e.__traceback__))[-3000:]
            results.append(r)
            continue
        explore_s = time.time() - t0
        meta["paths"] += len(paths)
        meta["cases"][case] = len(paths)
        # cover obligation: the case is reachable (pre /\ pc satisfiable on >= 1 path)
        cov = Result(f"{cls.target}/cover[{case}]", cls.target, case, "cover", "cover")
        cov.paths = len(paths)
        cov.seconds = explore_s
        cov.verdict = "proved" if paths else "unknown"  # explore() only keeps feasible paths
        cov.backend = "z3"
        cov.detail = "%d feasible path(s)" % len(paths)
        results.append(cov)
        # collect clauses per path
        by_clause: dict = {}
        err = None
        for p in paths:
            try:
                Engine.current = eng  # ensures may create fresh symbols
                c.__dict__.clear()
                c.__dict__.update(p.extra.get("state", {}))
                if "tracked" in p.extra:
                    _restore(p.extra["tracked"])
                eng.counter = __import__("itertools").count(10_000_000)
                for name, f in c.ensures(case, p):
                    by_clause.setdefault(name, []).append((p, f))
                if cls.kind != "canary" and p.outcome == "return":
                    for name, f in p.extra.get("frame", []):
                        by_clause.setdefault(name, []).append((p, f))
                if cls.kind != "canary":
                    # module-level state: also on paths where the real code RAISED (a flag left set by a failed call)
                    for name, f in p.extra.get("frame_always", []):
                        by_clause.setdefault(name, []).append((p, f))
            except EngineLimit as e:
                err = "engine limit in ensures: %s" % e
            except Exception as e:
                err = "crash in ensures: " + "".join(
                    traceback.format_exception(type(e), e, e.__traceback__)
                )[-3000:]
            finally:
                Engine.current = None
            if err:
                break
        if err:
            r = Result(f"{cls.target}/ensures[{case}]", cls.target, case, "ensures", cls.kind)
            r.verdict = "crash" if err.startswith("crash") else "unknown"
            r.detail = err
            results.append(r)
            continue
        for name, items in by_clause.items():
            r = Result(f"{cls.target}/{name}[{case}]", cls.target, case, name, cls.kind)
            r.paths = len(items)
            t0 = time.time()
            verdict = "proved"
            backends = set()
            some_sat = False
            for p, f in items:
                if isinstance(f, Sym):
                    f = f.e
                if isinstance(f, bool):
                    f = z3.BoolVal(f)
                v, model, reason, be = _check(p.pc, f, timeout_ms)
                if be:
                    backends.add(be)
                if v == "refuted":
                    verdict = "refuted"
                    r.model, r.failing_path = model, p
                    r.detail = "path %s: counter-model %s" % (p.decisions, _model_str(model))
                    if p.outcome == "raise":
                        r.detail += "\nreal code raised: " + getattr(p.value, "tb", repr(p.value))
                    break
                if v == "unknown":
                    verdict = "unknown"
                    r.detail = reason
                    break
                if cross:
                    cv = cross_check_cvc5(p.pc, f, timeout_ms)
                    if cv == "sat":
                        verdict = "unknown"
                        r.detail = "back ends disagree: z3 unsat, cvc5 sat"
                        break
                    if cv == "unsat":
                        backends.add("cvc5")
            r.verdict = verdict
            r.backend = "+".join(sorted(backends)) or None
            r.seconds = time.time() - t0
            if verdict == "unknown" and cls.kind not in ("canary",) and r.name not in no_replay:
                # undecided by the solvers: the contract's native cross-check of this function may still find a
                # concrete failing input (the runner turns undecided + confirmed into a violation)
                try:
                    r.replay = c.replay(case, name, None, None)
                except Exception as e:
                    r.replay = {"error": "replay crashed: %r" % e, "confirmed": False}
            if verdict == "refuted" and r.name not in no_replay:
                try:
                    r.replay = c.replay(case, name, r.model, r.failing_path)
                except Exception as e:
                    r.replay = {"error": "replay crashed: %r" % e, "confirmed": False}
            results.append(r)
    return results, meta


def _model_str(m):
    if m is None:
        return ""
    try:
        return ", ".join(f"{d.name()}={m[d]}" for d in m.decls())[:1500]
    except Exception:
        return str(m)[:1500]
