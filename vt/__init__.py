"""vt — contract verifier for femtomc/genjax: real functions executed on symbolic proxies,
obligations discharged by z3 (cvc5 as second back end)."""
