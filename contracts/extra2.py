"""More of the functions the properties rest on, put under contract (third batch): the staging entry point and the
abstract-value helper (C06 / C15 / C11 / C19), PPPrimitive's static helpers (C06-C08, C14), the pieces of the sample
batch rule (SamplerConfig.with_sample_shape, _compute_outer_batch_dim: C07 / C08 / C14), the density binding
(create_log_density_primitive: C08 / C13), the interpreters' entry points (ModularVmap.stage_and_run, State.eval), the
small GFI constructors (gen, GFI.repeat, GFI.cond, Vmap._callee_in_axes, Distribution.sample / logpdf), the address
collision checks (C01) and the trace helpers around Fixed (C02 / C05)."""
from __future__ import annotations

import dataclasses
import types

import jax.tree_util as real_jtu
import z3

from vt import loader
from vt.contract import Contract, contract
from vt.gfi import AbsGF
from vt.stubs import jaxpr07 as J
from vt.stubs.ns import StubNS
from vt.sym import EngineLimit, Sym, boolean, engine, fresh, value
from vt.tensor import Tensor
from . import _patch  # noqa: F401
from . import seed as S
from .core_gfi import same

core = loader.load("core")
pjax = loader.load("pjax")
state_mod = loader.load("state")
Key = J.Key


class _NoReplay(Contract):
    def replay(self, case, clause, model, path):
        return {"tier": "API-model", "confirmed": False, "note": "pjax internals cannot execute on the sandbox's JAX 0.11"}


class patched:
    """temporarily replace names in a module's namespace (restored on exit, also on exceptions)"""

    def __init__(self, mod, **kw):
        self.mod, self.kw, self.saved = mod, kw, {}

    def __enter__(self):
        for k, v in self.kw.items():
            self.saved[k] = getattr(self.mod, k, None)
            setattr(self.mod, k, v)
        return self

    def __exit__(self, *a):
        for k, v in self.saved.items():
            setattr(self.mod, k, v)
        return False


# ------------------------------------------------------------------------------------------------
# abstract values and staging


class Aval:
    """abstract value of the JAX-0.7 API model: shape, dtype and the weak-type flag of Python scalars"""

    def __init__(self, shape, dtype, weak_type=False):
        self.shape, self.dtype, self.weak_type = shape, dtype, weak_type


@contract("genjax.pjax:get_shaped_aval", ["C15", "C06", "C11"])
class GetShapedAval(_NoReplay):
    """the abstract value a function is staged on is JAX's own abstract value of the argument, with nothing dropped:
    shape, dtype AND weak_type (a Python scalar staged as a committed float32 changes dtype promotion, so the
    staged program is no longer the one jax.jvp / jax.grad / f run)"""

    cases = ["default"]

    def call(self, case):
        self.weak = boolean("weak_type")
        self.av = Aval(("n",), "f16", self.weak)
        self.x = value("x")
        jc = StubNS(get_aval=lambda x: self.av if x is self.x else None, ShapedArray=Aval)
        with patched(pjax, jc=jc):
            return self.real(self.fn, self.x)

    def ensures(self, case, path):
        yield "does_not_raise", path.outcome == "return"
        if path.outcome != "return":
            return
        r = path.value
        yield "shape_and_dtype_of_the_arguments_abstract_value", getattr(r, "shape", None) == ("n",) and getattr(r, "dtype", None) == "f16"
        wt = getattr(r, "weak_type", None)
        yield "weak_type_preserved", wt is self.weak or (isinstance(wt, Sym) and z3.eq(wt.e, self.weak.e))


@contract("genjax.pjax:stage", ["C06", "C15", "C11", "C19", "C08"])
class Stage(_NoReplay):
    """stage(f, **params)(*args, **kwargs): f (with params) is flattened over the tree of exactly (args, kwargs) -
    or args alone when there are no kwargs -, traced on the abstract value of every flat argument in order, through
    the cache keyed by (flat function, abstract values); returns the Jaxpr with (flat args, in tree, out tree)"""

    cases = ["args_only", "with_kwargs"]

    def call(self, case):
        rec = self.rec = {}
        outer = self

        def wrap_init(f, params, debug_info=None):
            rec["wrap"] = (f, dict(params))
            return ("wrapped", f)

        def flatten_fun(fun, in_tree):
            rec["flatten"] = ("kwargs", fun, in_tree)
            return ("flat", fun, in_tree), (lambda: "out-tree")

        def flatten_fun_nokwargs(fun, in_tree):
            rec["flatten"] = ("nokwargs", fun, in_tree)
            return ("flat", fun, in_tree), (lambda: "out-tree")

        def cached(flat_fun, avals):
            rec.setdefault("cached", []).append((flat_fun, avals))
            return "closed-jaxpr"

        self.f = lambda *a, **k: None
        self.a, self.b, self.c = value("a"), value("b"), value("c")
        avals = {id(self.a): Aval((), "f32", True), id(self.b): Aval((3,), "f32"), id(self.c): Aval((), "i32")}
        self.avals = avals
        is_leaf = lambda x: isinstance(x, (Sym, Tensor))
        jtu = StubNS(tree_flatten=lambda t: real_jtu.tree_flatten(t, is_leaf=is_leaf))
        kw = {"scale": self.c} if case == "with_kwargs" else {}
        with patched(pjax, lu=StubNS(wrap_init=wrap_init), api_util=StubNS(debug_info=lambda *a, **k: None, flatten_fun=flatten_fun, flatten_fun_nokwargs=flatten_fun_nokwargs),
                     cached_stage_dynamic=cached, get_shaped_aval=lambda x: avals[id(x)], jtu=jtu, safe_map=J.safe_map):
            return self.real(self.fn(self.f, p=1), {"x": self.a}, self.b, **kw)

    def ensures(self, case, path):
        yield "does_not_raise", path.outcome == "return"
        if path.outcome != "return":
            return
        rec = self.rec
        closed, (flat_args, in_tree, out_tree) = path.value
        want_flat = [self.a, self.b] + ([self.c] if case == "with_kwargs" else [])
        yield "flat_arguments_in_order", len(flat_args) == len(want_flat) and all(x is y for x, y in zip(flat_args, want_flat))
        tree = ({"x": 0}, 0)
        want_tree = real_jtu.tree_structure((tree, {"scale": 0})) if case == "with_kwargs" else real_jtu.tree_structure(tree)
        yield "in_tree_is_the_tree_of_(args,kwargs)_or_args", in_tree == want_tree
        yield "f_wrapped_with_the_given_params", rec.get("wrap") == (self.f, {"p": 1})
        fl = rec.get("flatten")
        yield "flattened_with_that_tree(kwargs_variant_iff_kwargs)", fl is not None and fl[0] == ("kwargs" if case == "with_kwargs" else "nokwargs") and fl[1] == ("wrapped", self.f) and fl[2] == want_tree
        ca = rec.get("cached", [])
        yield "traced_once_through_the_cache", len(ca) == 1
        if len(ca) == 1:
            flat_fun, avals = ca[0]
            yield "cache_key_is_the_flat_function_and_the_abstract_values_of_the_flat_arguments", flat_fun == ("flat", ("wrapped", self.f), want_tree) and isinstance(avals, tuple) and len(avals) == len(want_flat) and all(av is self.avals[id(x)] for av, x in zip(avals, want_flat))
        yield "returns_the_traced_jaxpr_and_the_out_tree_thunk", closed == "closed-jaxpr" and callable(out_tree) and out_tree() == "out-tree"


@contract("genjax.pjax:stage", ["C06", "C15", "C11"])
class StageContextHistory(Contract):
    """HISTORY of staging calls on ONE function object, through the real memoisation (JAX's lu.cache, executed, not
    modelled; only the tracing step pe.trace_to_jaxpr_dynamic is replaced by a recorder that notes the ambient
    configuration it runs under): the program handed back by every call is one traced under THAT call's ambient
    trace context (64-bit mode here), static params, calling convention and abstract values - whatever was staged
    before.  (A seeded function obtains the program it interprets from stage: were a program traced under another
    context handed back, seed(f)(key, x) would depend on the history of other seeded calls.)"""

    cases = ["default_then_x64_then_default", "x64_then_default"]

    def replay(self, case, clause, model, path):
        from .native import run_native

        return run_native("seed_context")

    def call(self, case):
        import jax
        import jax.numpy as jnp

        try:
            x64 = jax.enable_x64
        except AttributeError:  # pragma: no cover
            from jax.experimental import enable_x64 as x64
        calls = self.calls = []

        class Tok:
            def __init__(s, ctx, avals):
                s.ctx, s.avals = ctx, avals

        def trace(flat_fun, avals):
            t = Tok(bool(jax.config.jax_enable_x64), avals)
            calls.append(t)
            # run the flat function once, as tracing does (this is what fills the output-tree store)
            flat_fun.call_wrapped(*[jnp.zeros(a.shape, a.dtype) for a in avals])
            return t, None, []

        def f(d, b=None, p=None):
            return {"r": d["x"] + b.sum()}

        a, b, b4 = jnp.float32(1.0), jnp.ones(3, jnp.float32), jnp.ones(4, jnp.float32)
        stage = self.fn
        out = {}
        with patched(pjax, pe=StubNS(trace_to_jaxpr_dynamic=trace), ClosedJaxpr=lambda j, c: ("closed", j), get_shaped_aval=jax.typeof):
            order = [False, True, False] if case.startswith("default") else [True, False, True]
            for n, mode in enumerate(order):
                with x64(mode):
                    out["ctx%d" % n] = (mode, self.real(stage(f, p=1), {"x": a}, b))
            out["p2"] = self.real(stage(f, p=2), {"x": a}, b)
            out["kw"] = self.real(stage(f, p=1), {"x": a}, b=b)
            out["b4"] = self.real(stage(f, p=1), {"x": a}, b4)
            out["again"] = self.real(stage(f, p=1), {"x": a}, b)
        return out

    def ensures(self, case, path):
        yield "does_not_raise", path.outcome == "return"
        if path.outcome != "return":
            return
        o = path.value
        tok = lambda r: r[0][1]
        for n in range(3):
            mode, r = o["ctx%d" % n]
            yield "call_%d:program_was_traced_under_the_ambient_context_of_this_call" % n, tok(r).ctx is mode
            yield "call_%d:out_tree_is_the_functions_output_tree" % n, r[1][2]() == real_jtu.tree_structure({"r": 0})
        first = tok(o["ctx0"][1])
        yield "other_static_params_are_traced_separately", tok(o["p2"]) is not first and tok(o["p2"]) is not tok(o["ctx1"][1])
        yield "keyword_calling_convention_is_traced_separately_with_its_own_tree", tok(o["kw"]) is not first and o["kw"][1][1] == real_jtu.tree_structure((({"x": 0},), {"b": 0}))
        yield "other_abstract_values_are_traced_separately", tok(o["b4"]) is not first and tuple(tok(o["b4"]).avals[1].shape) == (4,)
        yield "a_later_identical_call_gets_a_program_of_its_own_context", tok(o["again"]).ctx is False
        yield "tracing_happened(non-vacuous)", len(self.calls) >= 5


# ------------------------------------------------------------------------------------------------
# PPPrimitive helpers


@contract("genjax.pjax:PPPrimitive.check", ["C06", "C07", "C08", "C14", "C19"])
class PPCheck(_NoReplay):
    """check(p, q): does (possibly wrapped) primitive p stand for q — the interpreters' site test"""

    cases = ["default"]

    def call(self, case):
        pp = object.__new__(pjax.PPPrimitive)
        pp.prim, pp.params = pjax.sample_p, {}
        pa = object.__new__(pjax.PPPrimitive)
        pa.prim, pa.params = pjax.adev_sample_p, {}
        c = self.real
        return (c(self.fn, pp, pjax.sample_p), c(self.fn, pp, pjax.adev_sample_p), c(self.fn, pa, pjax.adev_sample_p), c(self.fn, pa, pjax.sample_p),
                c(self.fn, pjax.sample_p, pjax.sample_p), c(self.fn, pjax.log_density_p, pjax.sample_p))

    def ensures(self, case, path):
        yield "does_not_raise", path.outcome == "return"
        if path.outcome == "return":
            yield "wrapped_and_bare_primitives_compare_by_the_inner_primitive", tuple(bool(x) for x in path.value) == (True, False, True, False, True, False)


@contract("genjax.pjax:PPPrimitive.unwrap", ["C06", "C08", "C19"])
class PPUnwrap(_NoReplay):
    cases = ["default"]

    def call(self, case):
        pp = object.__new__(pjax.PPPrimitive)
        self.params = {"flat_keyful_sampler": 1}
        pp.prim, pp.params = pjax.sample_p, self.params
        self.other = J.Prim("f")
        return self.real(self.fn, pp), self.real(self.fn, self.other)

    def ensures(self, case, path):
        yield "does_not_raise", path.outcome == "return"
        if path.outcome == "return":
            (p, prm), (q, qrm) = path.value
            yield "wrapped_gives_inner_primitive_and_hidden_params", p is pjax.sample_p and prm is self.params
            yield "bare_primitive_gives_itself_and_no_params", q is self.other and qrm == {}


@contract("genjax.pjax:PPPrimitive.rebind", ["C08", "C07", "C14"])
class PPRebind(_NoReplay):
    """rebind(primitive, inner_params, params, *args): a probabilistic site is re-wrapped with ALL its hidden parameters
    (sampler, batch rule, lowering exception ...) and bound on the given operands and visible params"""

    cases = ["initial_style", "plain"]

    def call(self, case):
        outer = self
        self.made = []

        class FakePP:
            def __init__(s, prim, **params):
                s.prim, s.params = prim, params
                outer.made.append(s)

            def bind(s, *a, **k):
                s.bound = (a, k)
                return ["out"]

        self.inner = {"flat_keyful_sampler": "fs", "batch": "rule", "lowering_exception": "exc"}
        self.vis = {"ctx": "modular_vmap", "axis_size": 3}
        self.a, self.b = value("a"), value("b")
        with patched(pjax, PPPrimitive=FakePP):
            if case == "initial_style":
                return self.real(self.fn, pjax.sample_p, self.inner, self.vis, self.a, self.b)
            self.p = J.Prim("g")
            return self.real(self.fn, self.p, self.inner, self.vis, self.a, self.b)

    def ensures(self, case, path):
        yield "does_not_raise", path.outcome == "return"
        if path.outcome != "return":
            return
        if case == "initial_style":
            yield "one_wrapper_over_the_same_primitive_with_every_hidden_param", len(self.made) == 1 and self.made[0].prim is pjax.sample_p and self.made[0].params == self.inner
            if len(self.made) == 1:
                a, k = self.made[0].bound
                yield "bound_on_the_operands_with_the_visible_params", a == (self.a, self.b) and a[0] is self.a and k == self.vis
            yield "returns_the_bound_outputs", path.value == ["out"]
        else:
            yield "plain_primitive_bound_directly", len(self.made) == 0 and len(self.p.binds) == 1 and self.p.binds[0][0][0] is self.a and self.p.binds[0][1] == self.vis


# ------------------------------------------------------------------------------------------------
# pieces of the sample batch rule


@contract("genjax.pjax:SamplerConfig.with_sample_shape", ["C07", "C08", "C14", "C13"])
class WithSampleShape(_NoReplay):
    """the re-binding of a vectorised site copies EVERY field of the site's configuration (sampler, name, support,
    primitive, primitive params and anything else the dataclass carries — e.g. what makes lowering raise) and
    replaces the sample shape only; the original configuration is not mutated"""

    cases = ["default"]

    def call(self, case):
        Cfg = pjax.SamplerConfig
        self.vals = {}
        kw = {}
        for f in dataclasses.fields(Cfg):
            if f.name == "sample_shape":
                v = (2,)
            elif f.name == "primitive":
                v = pjax.adev_sample_p
            elif f.name == "keyful_sampler":
                v = lambda *a, **k: None
            elif f.name == "name":
                v = "d"
            elif f.name == "support":
                v = lambda *a: None
            else:
                # any other field (today: primitive_params; tomorrow: whatever is added) gets a distinctive non-default value
                v = {"marker_" + f.name: object()}
            kw[f.name] = v
        self.kw = kw
        self.cfg = Cfg(**kw)
        self.S_ = (Sym(fresh("lanes", z3.IntSort())), 2)
        return self.real(self.cfg.with_sample_shape, self.S_)

    def ensures(self, case, path):
        yield "does_not_raise", path.outcome == "return"
        if path.outcome != "return":
            return
        new = path.value
        yield "returns_a_new_configuration", isinstance(new, pjax.SamplerConfig) and new is not self.cfg
        yield "sample_shape_replaced", new.sample_shape is self.S_ or new.sample_shape == self.S_
        for f in dataclasses.fields(pjax.SamplerConfig):
            if f.name == "sample_shape":
                continue
            a, b = getattr(new, f.name, None), self.kw[f.name]
            yield "field_%s_carried_over" % f.name, a is b or (isinstance(b, dict) and a == b)
        yield "original_not_mutated", all(getattr(self.cfg, k) is v for k, v in self.kw.items())


@contract("genjax.pjax:VmapBatchHandler._compute_outer_batch_dim", ["C07", "C08"])
class OuterBatchDim(_NoReplay):
    """a lane axis is ADDED to the sample shape exactly when no operand carries the lanes (n is None) and the map
    has a size; batched operands already provide one draw per lane"""

    cases = ["operands_batched", "nothing_batched", "nothing_batched_no_size"]

    def call(self, case):
        h = pjax.VmapBatchHandler(pjax.SamplerConfig(keyful_sampler=lambda *a, **k: None))
        self.ax = Sym(fresh("axis_size", z3.IntSort()))
        engine().assume(self.ax.e >= 1)
        if case == "operands_batched":
            return self.real(h._compute_outer_batch_dim, self.ax, self.ax)
        if case == "nothing_batched":
            return self.real(h._compute_outer_batch_dim, None, self.ax)
        return self.real(h._compute_outer_batch_dim, None, None)

    def ensures(self, case, path):
        yield "does_not_raise", path.outcome == "return"
        if path.outcome != "return":
            return
        r = path.value
        if case == "nothing_batched":
            yield "one_leading_lane_axis_of_the_maps_size", isinstance(r, tuple) and len(r) == 1 and r[0] is self.ax
        else:
            yield "no_extra_axis", r == ()


@contract("genjax.pjax:create_log_density_primitive", ["C08", "C13"])
class CreateLogDensityPrimitive(_NoReplay):
    """a density site binds ONE log_density_p equation whose implementation is the configured density, under the
    configured name, with the lane-wise batch rule of THIS configuration; arguments are forwarded unchanged"""

    cases = ["default"]

    def call(self, case):
        self.binds = []
        outer = self

        def fake_isb(prim, **params):
            def bind(f, **elab):
                def wrapped(*a, **k):
                    outer.binds.append((prim, params, f, elab, a, k))
                    return "logp"

                return wrapped

            return bind

        self.lp = lambda v, *a, **k: None
        cfg = pjax.LogDensityConfig(log_density_impl=self.lp, name="d")
        self.cfg = cfg
        self.v, self.a, self.kw = value("v"), value("a"), value("kw")
        with patched(pjax, initial_style_bind=fake_isb):
            f = self.real(self.fn, cfg)
            return self.real(f, self.v, self.a, scale=self.kw)

    def ensures(self, case, path):
        yield "does_not_raise", path.outcome == "return"
        if path.outcome != "return":
            return
        yield "one_equation_bound", len(self.binds) == 1
        if len(self.binds) != 1:
            return
        prim, params, f, elab, a, k = self.binds[0]
        yield "bound_on_log_density_p", prim is pjax.log_density_p
        yield "implementation_is_the_configured_density", f is self.lp
        yield "name_passed", elab == {"name": "d"}
        yield "arguments_forwarded_unchanged", a == (self.v, self.a) and a[0] is self.v and set(k) == {"scale"} and k["scale"] is self.kw
        rule = params.get("batch")
        ok = callable(rule)
        if ok:
            # the rule belongs to this configuration: it vectorises THIS density (closure over the handler)
            cells = [c.cell_contents for c in (rule.__closure__ or ())]
            ok = any(getattr(c, "config", None) is self.cfg for c in cells)
        yield "batch_rule_is_the_lane_wise_rule_of_this_configuration", ok
        yield "returns_the_bound_value", path.value == "logp"


# ------------------------------------------------------------------------------------------------
# interpreter entry points


@contract("genjax.pjax:ModularVmap.stage_and_run", ["C08"])
class StageAndRun(_NoReplay):
    """stage_and_run(axis_size, fn, dummy, args): fn is staged on *args; its Jaxpr is interpreted with literals as
    constants, the flat arguments in order, the given dummy and axis size; results rebuilt with fn's output tree"""

    cases = ["default"]

    def call(self, case):
        self.site = S.Site()
        c, x, y, o = J.Var("c"), J.Var("x"), J.Var("y"), J.Var("o")
        self.lit = value("lit")
        closed = J.ClosedJaxpr(J.Jaxpr([c], [x, y], [J.Eqn(self.site.prim, [c, x, y], [o])], [o, y]), [self.lit])

        def f(*a, **k):
            raise EngineLimit("f's body is represented by its Jaxpr")

        f.__vt_jaxpr__ = closed
        f.__vt_out_tree__ = real_jtu.tree_structure({"draw": 0, "echo": 0})
        self.f = f
        self.axis = Sym(fresh("axis_size", z3.IntSort()))
        self.dummy = Tensor.fresh("dummy", (self.axis.e,), z3.IntSort())
        self.vx, self.vy = value("x"), value("y")
        n0 = len(S.STAGE.calls)
        out = self.real(self.fn, self.axis, f, self.dummy, (self.vx, self.vy))
        self.staged = S.STAGE.calls[n0:]
        return out

    def ensures(self, case, path):
        yield "does_not_raise", path.outcome == "return"
        if path.outcome != "return":
            return
        out = path.value
        st = self.staged
        yield "fn_staged_once_on_the_arguments", len(st) == 1 and st[0][0] is self.f and st[0][1] == (self.vx, self.vy) and not st[0][2]
        b = self.site.binds
        yield "site_rebound_with_dummy_literals_and_flat_arguments", len(b) == 1 and len(b[0][0]) == 4 and b[0][0][0] is self.dummy and b[0][0][1] is self.lit and b[0][0][2] is self.vx and b[0][0][3] is self.vy
        if len(b) == 1:
            yield "axis_size_and_context_passed", b[0][1].get("axis_size") is self.axis and b[0][1].get("ctx") == "modular_vmap"
        yield "result_rebuilt_with_the_output_tree", isinstance(out, dict) and set(out) == {"draw", "echo"} and out["echo"] is self.vy


# ------------------------------------------------------------------------------------------------
# GFI constructors and small accessors


@contract("genjax.core:Vmap._callee_in_axes", ["C08", "C01", "C02", "C03", "C04"])
class CalleeInAxes(Contract):
    """per-argument axes of the callee's own arguments: an int or None is repeated for every argument, a sequence
    is taken as it is (as jax.vmap does)"""

    cases = ["int", "None", "tuple", "list"]

    def call(self, case):
        ax = {"int": 1, "None": None, "tuple": (0, None, 1), "list": [0, None, 1]}[case]
        self.ax = ax
        vm = core.Vmap(AbsGF("h"), core.Const(ax), core.Const(None), core.Const(None), core.Const(None))
        return self.real(vm._callee_in_axes, 3)

    def ensures(self, case, path):
        yield "does_not_raise", path.outcome == "return"
        if path.outcome != "return":
            return
        want = {"int": (1, 1, 1), "None": (None, None, None), "tuple": (0, None, 1), "list": (0, None, 1)}[case]
        yield "tuple_with_one_axis_per_callee_argument", isinstance(path.value, tuple) and path.value == want


@contract("genjax.core:GFI.repeat", ["C08"])
class GFIRepeat(Contract):
    """repeat(n) = vmap with no mapped argument and axis size n"""

    cases = ["default"]

    def call(self, case):
        self.g = core.Fn(core.Const(lambda: None))
        self.n = 7
        return self.real(core.GFI.repeat, self.g, self.n)

    def ensures(self, case, path):
        yield "does_not_raise", path.outcome == "return"
        if path.outcome == "return":
            v = path.value
            yield "is_Vmap_of_self_with_in_axes_None_and_axis_size_n", isinstance(v, core.Vmap) and v.gen_fn is self.g and v.in_axes.value is None and v.axis_size.value == 7 and v.axis_name.value is None and v.spmd_axis_name.value is None


@contract("genjax.core:GFI.cond", ["C01", "C03"])
class GFICond(Contract):
    """a.cond(b) = Cond(a, b): a is the branch taken when the condition holds"""

    cases = ["default"]

    def call(self, case):
        self.a, self.b = core.Fn(core.Const(lambda: 1)), core.Fn(core.Const(lambda: 2))
        return self.real(core.GFI.cond, self.a, self.b)

    def ensures(self, case, path):
        yield "does_not_raise", path.outcome == "return"
        if path.outcome == "return":
            c = path.value
            yield "Cond_with_self_as_the_true_branch", isinstance(c, core.Cond) and c.callee is self.a and c.callee_ is self.b


@contract("genjax.core:gen", ["C01"])
class GenDecorator(Contract):
    """@gen wraps exactly the given function (no copy, no re-definition) in an Fn"""

    cases = ["default"]

    def call(self, case):
        def body(x):
            """doc"""
            return x

        self.body = body
        return self.real(self.fn, body)

    def ensures(self, case, path):
        yield "does_not_raise", path.outcome == "return"
        if path.outcome == "return":
            g = path.value
            yield "Fn_whose_source_is_the_function", isinstance(g, core.Fn) and g.source.value is self.body


@contract("genjax.core:Distribution.sample", ["C13", "C01"])
class DistSampleLogpdf(Contract):
    """Distribution.sample / logpdf forward to the stored callables with exactly the given arguments"""

    cases = ["default"]

    def call(self, case):
        self.calls = []
        smp = lambda *a, **k: self.calls.append(("s", a, k)) or "draw"
        lpf = lambda *a, **k: self.calls.append(("l", a, k)) or "logp"
        d = core.Distribution(core.Const(smp), core.Const(lpf), core.Const("d"))
        self.v, self.a, self.kw = value("v"), value("a"), value("kw")
        return self.real(core.Distribution.sample, d, self.a, sample_shape=(2,), scale=self.kw), self.real(core.Distribution.logpdf, d, self.v, self.a, scale=self.kw)

    def ensures(self, case, path):
        yield "does_not_raise", path.outcome == "return"
        if path.outcome != "return":
            return
        yield "results_returned", path.value == ("draw", "logp")
        c = self.calls
        yield "sampler_called_with_the_arguments", len(c) == 2 and c[0][0] == "s" and c[0][1] == (self.a,) and c[0][1][0] is self.a and set(c[0][2]) == {"sample_shape", "scale"} and c[0][2]["sample_shape"] == (2,)
        yield "density_called_with_value_then_arguments", len(c) == 2 and c[1][0] == "l" and c[1][1] == (self.v, self.a) and c[1][1][0] is self.v and c[1][2].get("scale") is self.kw


class _Collision(Contract):
    cases = ["fresh_address", "repeated_address"]


@contract("genjax.core:_check_address_collision", ["C01", "C02"])
class CollisionMap(_Collision):
    """an address already in the map raises ValueError (the density would otherwise count one site twice); a fresh
    one passes and the map is not written"""

    def call(self, case):
        self.m = {"a": 1}
        self.before = dict(self.m)
        return self.real(self.fn, "a" if case == "repeated_address" else "b", self.m, None)

    def ensures(self, case, path):
        if case == "repeated_address":
            yield "raises_ValueError_naming_the_address", path.outcome == "raise" and isinstance(path.value.exc, ValueError) and "'a'" in str(path.value.exc)
        else:
            yield "does_not_raise", path.outcome == "return"
        yield "map_not_written", self.m == self.before


@contract("genjax.core:_check_address_collision_visited", ["C01", "C03", "C04"])
class CollisionVisited(_Collision):
    """visited-set variant: a repeated address raises; a fresh one is recorded as visited (exactly that one)"""

    def call(self, case):
        self.s = {"a"}
        return self.real(self.fn, "a" if case == "repeated_address" else "b", self.s, None)

    def ensures(self, case, path):
        if case == "repeated_address":
            yield "raises_ValueError_naming_the_address", path.outcome == "raise" and isinstance(path.value.exc, ValueError) and "'a'" in str(path.value.exc)
            yield "set_unchanged", self.s == {"a"}
        else:
            yield "does_not_raise", path.outcome == "return"
            yield "address_recorded_as_visited", self.s == {"a", "b"}


# ------------------------------------------------------------------------------------------------
# Fixed wrappers and the trace helpers around them (C02: constrained values are held unchanged; C05)


@contract("genjax.core:get_fixed_choices", ["C02", "C05"])
class GetFixedChoices(Contract):
    """get_choices strips Fixed wrappers and unwraps nested traces, leaving every value itself untouched;
    get_fixed_choices unwraps nested traces but keeps the wrappers; fixed(v) wraps exactly v"""

    cases = ["default"]

    def call(self, case):
        self.a, self.b, self.c = value("a"), value("b"), value("c")
        g = AbsGF("h")
        inner = core.Tr(g, ((), {}), {"z": core.Fixed(self.c)}, None, Sym(z3.RealVal(0)))
        self.x = {"u": self.real(core.fixed, self.a), "v": self.b, "sub": inner}
        tr = core.Tr(g, ((), {}), self.x, None, Sym(z3.RealVal(0)))
        return self.real(core.get_choices, tr), self.real(core.get_fixed_choices, tr), self.real(tr.get_choices), self.real(tr.get_fixed_choices)

    def ensures(self, case, path):
        yield "does_not_raise", path.outcome == "return"
        if path.outcome != "return":
            return
        ch, fx, ch2, fx2 = path.value
        for nm, c in (("get_choices", ch), ("Tr.get_choices", ch2)):
            yield nm + "_strips_wrappers_and_unwraps_traces_keeping_the_values", isinstance(c, dict) and set(c) == {"u", "v", "sub"} and c["u"] is self.a and c["v"] is self.b and isinstance(c["sub"], dict) and c["sub"].get("z") is self.c
        for nm, c in (("get_fixed_choices", fx), ("Tr.get_fixed_choices", fx2)):
            yield nm + "_keeps_the_wrappers", isinstance(c, dict) and isinstance(c["u"], core.Fixed) and c["u"].value is self.a and c["v"] is self.b and isinstance(c["sub"], dict) and isinstance(c["sub"].get("z"), core.Fixed) and c["sub"]["z"].value is self.c
        yield "original_choice_structure_not_mutated", isinstance(self.x["u"], core.Fixed) and self.x["v"] is self.b


@contract("genjax.core:Trace.verify", ["C02"])
class TraceVerify(Contract):
    """verify() passes iff every leaf choice is wrapped as Fixed (was provided, not proposed); otherwise it raises
    NotFixedException whose status map marks exactly the unfixed leaves"""

    cases = ["all_fixed", "one_proposed"]

    def call(self, case):
        g = AbsGF("h")
        a, b = value("a"), value("b")
        x = {"u": core.Fixed(a), "sub": {"z": core.Fixed(b) if case == "all_fixed" else b}}
        tr = core.Tr(g, ((), {}), x, None, Sym(z3.RealVal(0)))
        return self.real(tr.verify)

    def ensures(self, case, path):
        if case == "all_fixed":
            yield "passes", path.outcome == "return" and path.value is None
        else:
            ok = path.outcome == "raise" and isinstance(path.value.exc, core.NotFixedException)
            yield "raises_NotFixedException", ok
            if ok:
                yield "status_marks_exactly_the_unfixed_leaf", path.value.exc.choice_map_status == {"u": True, "sub": {"z": False}}


@contract("genjax.core:get_score", ["C01", "C05"])
class FreeAccessors(Contract):
    """module-level get_score / get_retval and Trace.__getitem__ delegate to the trace"""

    cases = ["default"]

    def call(self, case):
        g = AbsGF("h")
        self.sc, self.rv, self.v = Sym(fresh("score", z3.RealSort())), value("ret"), value("v")
        tr = core.Tr(g, ((), {}), {"a": {"b": self.v}}, self.rv, self.sc)
        return self.real(core.get_score, tr), self.real(core.get_retval, tr), self.real(tr.__getitem__, "a")

    def ensures(self, case, path):
        yield "does_not_raise", path.outcome == "return"
        if path.outcome == "return":
            s, r, sub = path.value
            yield "score_and_retval_of_the_trace", same(s, self.sc) and r is self.rv
            yield "indexing_returns_the_choices_below_the_address", isinstance(sub, dict) and sub.get("b") is self.v


@contract("genjax.core:Tr.get_choices", ["C01", "C05"])
class TrObserversPure(Contract):
    """frame condition of the trace observers: a trace is a value - get_choices() hands out a structure of its own on
    every call, so that editing a returned (nested) dict in place cannot change what the trace reports afterwards
    (score = -assess(choices) would otherwise fail for a trace whose score never changed); get_args / get_retval /
    get_score return what is stored"""

    cases = ["nested_choices"]

    def call(self, case):
        g = AbsGF("h")
        self.a, self.b = value("a"), value("b")
        self.sc, self.rv = Sym(fresh("score", z3.RealSort())), value("ret")
        inner = core.Tr(g, ((), {}), {"z": self.b}, None, Sym(z3.RealVal(0)))
        self.tr = core.Tr(g, ((value("arg"),), {}), {"x": self.a, "sub": inner}, self.rv, self.sc)
        first = self.real(self.tr.get_choices)
        # what a caller may do with the map it was handed
        first["x"] = value("edited")
        first["sub"]["z"] = value("edited_nested")
        first["new"] = value("added")
        second = self.real(self.tr.get_choices)
        return first, second, self.real(self.tr.get_score), self.real(self.tr.get_retval)

    def ensures(self, case, path):
        yield "does_not_raise", path.outcome == "return"
        if path.outcome != "return":
            return
        first, second, sc, rv = path.value
        yield "later_call_still_reports_the_traces_own_choices", isinstance(second, dict) and set(second) == {"x", "sub"} and second["x"] is self.a and isinstance(second["sub"], dict) and second["sub"].get("z") is self.b
        yield "returned_structures_are_not_shared_between_calls", second is not first and second.get("sub") is not first.get("sub")
        yield "score_and_retval_as_stored", same(sc, self.sc) and rv is self.rv
