CHECKS = [
    {
        "property_id": "C16",
        "text": "Unbounded proof for every selection class: match() of the real code, run on a symbolic address with abstract sub-selections, satisfies the match contract against the denotation written from the property; structural induction gives the Boolean algebra for all expressions and all paths.",
        "design_ref": "DESIGN.md §7 C16",
        "note": "Trusted: the vt engine (proxies, path exploration), z3/cvc5, CPython; the induction meta-rule; dict-iteration semantics for the loop-invariant rule.",
    },
]
_PENDING = "contracts for this property are not built yet in this round (work in progress; see DESIGN.md §7)"
NOT_APPLICABLE = [
    {"property_id": p, "reason": _PENDING}
    for p in ["C01","C02","C03","C04","C05","C06","C07","C08","C09","C10","C11","C12","C13","C14","C15","C17","C18","C19","C20"]
]
NOTES = "Contract-based deductive verification; see DESIGN.md. Exit codes: 0 held, 1 violation, 2 undecided, 3 checker error."
