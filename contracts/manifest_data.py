_T = "contract-based deductive verification: sidecar contracts on the real functions, symbolic execution of the real function objects on proxies, obligations discharged by z3 (cvc5 second back end)"
_TRUST = "Trusted: the vt engine (proxies, path exploration, stubs = assumed contracts of jax.numpy / jax.tree_util / jax.lax.scan / modular_vmap as seen from callers), z3/cvc5, CPython; meta-rules (structural induction over generative-function objects, object-invariant rule for handlers, loop-invariant rule); A-REAL (floats as reals); A-BODY (@gen bodies are deterministic and reach the handler only through trace()). The law of random draws is reduced to dataflow facts plus A-PRNG/A-TFP."


def _c(pid, text, ref, note=_TRUST):
    return {"property_id": pid, "text": text, "design_ref": ref, "note": note, "technique": _T}


CHECKS = [
    _c("C01", "Unbounded proof of the GFI contract G1/G2 for Distribution, the Simulate/Assess handler steps (symbolic address, abstract callee, arbitrary map contents), Fn.simulate/assess, Vmap, Scan, Cond and the trace accessors, with abstract callees: assess is the sum of site log densities, simulate's score is its negation, for every composition by structural induction. Known findings are reported as KNOWN-FINDING lines.", "DESIGN.md §7 C01"),
    _c("C02", "Unbounded proof of G3 for Distribution.generate, the Generate handler step, Fn/Vmap/Scan/Cond.generate: constraints honoured, missing sub-calls contribute 0, weights accumulate; client lemma weight = D - Q.", "DESIGN.md §7 C02"),
    _c("C03", "Unbounded proof of G4 for Distribution.update, the Update handler step, Fn/Vmap/Scan/Cond.update (Cond also across a branch switch), Trace.update; client lemmas: round trip with the discard, telescoping.", "DESIGN.md §7 C03"),
    _c("C04", "Unbounded proof of G5 for Distribution.regenerate (resampled iff Sel(s, eps)), the Regenerate handler step (remainder of the selection is passed down), Fn/Vmap/Scan/Cond.regenerate including totality (never raises) for every discard shape.", "DESIGN.md §7 C04"),
    _c("C05", "Coherence is a postcondition of every edit given a coherent input (G4/G5 of every implementor) plus the telescoping lemma; trace accessors of Tr/ScanTr/CondTr.", "DESIGN.md §7 C05"),
    _c("C16", "Unbounded proof for every selection class: match() of the real code, run on a symbolic address with abstract sub-selections, satisfies the match contract against the denotation written from the property (structural induction gives the Boolean algebra for all expressions and paths); Fn.filter / Fn.merge verified by loop invariants on mechanically extracted loop pieces at leaf level; filter-then-merge identity lemma.", "DESIGN.md §7 C16", "Trusted: the vt engine, z3/cvc5, CPython; the induction meta-rule; dict-iteration semantics for the loop-invariant rule; precondition of Fn.merge: the two maps have compatible shapes (both dict or both leaf at shared keys)."),
]
_PENDING = "contracts for this property are not built yet in this round (work in progress; see DESIGN.md §7)"
NOT_APPLICABLE = [
    {"property_id": p, "reason": _PENDING}
    for p in ["C06","C07","C08","C09","C10","C11","C12","C13","C14","C15","C17","C18","C19","C20"]
]
NOTES = "Contract-based deductive verification; see DESIGN.md. Exit codes: 0 held (open known findings printed as KNOWN-FINDING lines), 1 violation, 2 undecided, 3 checker error."
