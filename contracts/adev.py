"""C11 / C15 — ADEV (genjax/adev/__init__.py) in the JAX-0.7 API model.

C15: on deterministic equations the interpreter calls the primitive's JVP rule on the primals and the
     zero-canonicalised tangents (or just binds when every tangent is zero), the Dual tree helpers are mutually
     inverse, forward_mode / estimate / jvp_estimate / grad_estimate plumb primals and tangents through.
C11: at an ADEV site the interpreter hands the primitive the dual arguments and two continuations that are
     the dual / primal evaluation of the REST of the program in a COPY of the environment (CPS); every primitive's
     estimator is proved to compute its textbook formula against an abstract continuation; the discrete ones are
     exactly unbiased (polynomial identities), the score-function identity for continuous sites is cited (A-MATH).
"""
from __future__ import annotations

import types
from vt.stubs.ns import StubNS

import jax.tree_util as real_jtu
import z3

from vt import loader
from vt.contract import Contract, contract
from vt.gfi import enc
from vt.stubs import autodiff as AD, dists, jaxpr07 as J, jnp as jnp_stub, jtu as jtu_stub, lax as lax_stub, vmap as vmap_stub
from vt.sym import Assumed, EngineLimit, Sym, V, _lift, boolean, documented, engine, fresh, integer, real, value
from vt.tensor import Tensor, mk_sum, _toreal, dim_eq
from . import _patch  # noqa: F401
from . import seed as S  # pjax API-model patches (Environment)
from .core_gfi import same

core = loader.load("core")
pjax = loader.load("pjax")
adev = loader.load("adev")
DN = AD.DN

# ------------------------------------------------------------------------------------------------
# module patches


def _dn(f):
    """make a jnp stub function dual-number aware (linear functions only)"""

    def g(x, *a, **k):
        if isinstance(x, DN):
            return DN(f(x.p, *a, **k), None if x.t is None else f(x.t, *a, **k))
        return f(x, *a, **k)

    return g


def j_array(x, dtype=None, copy=None):
    if isinstance(x, (list, tuple)) and any(isinstance(e, DN) for e in x):
        ds = [DN.lift(e) for e in x]
        return DN(jnp_stub.array([d.p for d in ds]), jnp_stub.array([d.tan() for d in ds]))
    if isinstance(x, (DN, AD.Float0, AD.Zero)):
        return x
    return jnp_stub.array(x, dtype)


SoftF = z3.Function("Softmax", z3.ArraySort(z3.IntSort(), z3.RealSort()), z3.IntSort(), z3.RealSort())
DSoftF = z3.Function("DSoftmax", z3.ArraySort(z3.IntSort(), z3.RealSort()), z3.ArraySort(z3.IntSort(), z3.RealSort()), z3.IntSort(), z3.RealSort())
CholF = z3.Function("Chol", z3.ArraySort(z3.IntSort(), z3.ArraySort(z3.IntSort(), z3.RealSort())), z3.IntSort(), z3.IntSort(), z3.RealSort())
DCholF = z3.Function("DChol", V, V, z3.IntSort(), z3.IntSort(), z3.RealSort())
CholV = z3.Function("CholV", V, z3.IntSort(), z3.IntSort(), z3.RealSort())


def _lam1(t):
    i = z3.Int("l1!i")
    return z3.Lambda([i], _toreal(t.fn((i,))))


def softmax(x):
    Assumed.note("jax.nn.softmax: uninterpreted vector function with an uninterpreted directional derivative")
    if isinstance(x, DN):
        lp = _lam1(x.p)
        prim = Tensor(x.p.shape, lambda idx: SoftF(lp, idx[0]))
        if x.t is None:
            return DN(prim, None)
        lt = _lam1(x.t)
        return DN(prim, Tensor(x.p.shape, lambda idx: DSoftF(lp, lt, idx[0])))
    lp = _lam1(x)
    return Tensor(x.shape, lambda idx: SoftF(lp, idx[0]))


def cholesky(x):
    Assumed.note("jnp.linalg.cholesky: uninterpreted matrix function with an uninterpreted directional derivative")
    if isinstance(x, DN):
        pe = enc(x.p)
        prim = Tensor(x.p.shape, lambda idx: CholV(pe, idx[0], idx[1]))
        if x.t is None:
            return DN(prim, None)
        te = enc(x.t)
        return DN(prim, Tensor(x.p.shape, lambda idx: DCholF(pe, te, idx[0], idx[1])))
    pe = enc(x)
    return Tensor(x.shape, lambda idx: CholV(pe, idx[0], idx[1]))


def broadcast_arrays(a, b):
    from vt.tensor import broadcast_shapes

    if not isinstance(a, Tensor) and not isinstance(b, Tensor):
        return a, b
    ta = a if isinstance(a, Tensor) else Tensor((), lambda idx, a=a: _lift(a))
    tb = b if isinstance(b, Tensor) else Tensor((), lambda idx, b=b: _lift(b))
    shp, ia, ib = broadcast_shapes(ta.shape, tb.shape)
    return Tensor(shp, lambda idx: ta.fn(ia(idx))), Tensor(shp, lambda idx: tb.fn(ib(idx)))


def zeros_like(x):
    if isinstance(x, Tensor):
        return Tensor(x.shape, lambda idx: z3.RealVal(0))
    return Sym(z3.RealVal(0))


def ones_like(x):
    if isinstance(x, Tensor):
        return Tensor(x.shape, lambda idx: z3.RealVal(1))
    return Sym(z3.RealVal(1))


def eye(n):
    return Tensor((n, n), lambda idx: z3.If(idx[0] == idx[1], z3.RealVal(1), z3.RealVal(0)))


def logical_not(x):
    if isinstance(x, Tensor):
        return ~x
    if isinstance(x, bool):
        return not x
    return Sym(z3.Not(_lift(x)))


def broadcast_to(v, shape):
    from vt.tensor import _dim

    shape = tuple(shape)
    if not isinstance(v, Tensor):
        e = _lift(v)
        return Tensor(shape, lambda idx: e)
    k = len(shape) - v.ndim
    return Tensor(shape, lambda idx: v.fn(tuple(idx[k:])))


def j_where(c, a, b):
    return jnp_stub.where(c, a, b)


JNP = jnp_stub.namespace(
    array=j_array, sum=_dn(jnp_stub.sum), broadcast_arrays=broadcast_arrays, zeros_like=zeros_like, ones_like=ones_like,
    eye=eye, logical_not=logical_not, broadcast_to=broadcast_to, reshape=lambda x, s: x.reshape(s) if isinstance(x, Tensor) else x,
    linalg=StubNS(cholesky=cholesky), float32=lambda x: x, bool_="bool",
)
adev.jnp = JNP
adev.jtu = jtu_stub.namespace()
JAXAD = AD.namespace()
adev.jax_autodiff = JAXAD
GRADS = []


def grad_rec(f):
    def g(x):
        GRADS.append((f, x))
        return ("grad-of", f, x)

    return g


adev.jax = StubNS(
    jvp=AD.jvp,
    grad=grad_rec,
    lax=StubNS(cond=lax_stub.cond, cond_p=J.cond_p),
    nn=StubNS(softmax=softmax),
    _src=StubNS(core=StubNS(get_aval=AD.get_aval, ShapedArray=AD.ShapedArray, Tracer=J.Tracer)),
    core=StubNS(Tracer=J.Tracer),
    dtypes=StubNS(float0=AD.FLOAT0),
    custom_jvp=lambda f: f,
)
adev.stage = S.STAGE
adev.Var, adev.Literal = J.Var, J.Literal  # the interpreter's isinstance tests see the API model's classes
adev.jaxpr_as_fun = J.jaxpr_as_fun
adev.modular_vmap = vmap_stub.modular_vmap
FLIP, NRM, UNI = dists.StubDist("flip"), dists.StubDist("normal"), dists.StubDist("uniform")
BDraw = z3.Function("BernoulliDraw", z3.IntSort(), z3.RealSort(), z3.BoolSort())


class FlipStub:
    def __init__(self):
        self.calls = []

    def sample(self, p, sample_shape=()):
        from vt.gfi import next_nonce

        Assumed.note("A-TFP: flip.sample(p) is a Bernoulli(p) draw (boolean)")
        nu = next_nonce()
        self.calls.append((p, nu))
        if isinstance(p, Tensor):
            return Tensor(p.shape, lambda idx: z3.Function("BernoulliDrawI", z3.IntSort(), z3.IntSort(), z3.RealSort(), z3.BoolSort())(nu, idx[0], _toreal(p.fn(idx))))
        return Sym(BDraw(nu, _toreal(_lift(p))))


FLIPS = FlipStub()
adev.flip, adev.normal, adev.uniform = FLIPS, NRM, UNI


class MvnStub:
    def sample(self, loc, cov, sample_shape=()):
        from vt.gfi import next_nonce

        nu = next_nonce()
        self.last = (loc, cov, nu)
        return Tensor(loc.shape, lambda idx: z3.Function("MvnDraw", z3.IntSort(), z3.IntSort(), V, V, z3.RealSort())(nu, idx[0], enc(loc), enc(cov)))


MVN = MvnStub()
adev.multivariate_normal = MVN


def reset():
    for d in (NRM, UNI):
        d.reset()
    FLIPS.calls.clear()
    GRADS.clear()
    S.STAGE.calls.clear()
    JAXAD.primitive_jvps.clear()


class _NoReplay(Contract):
    native = None

    def replay(self, case, clause, model, path):
        if self.native:
            from .native import run_native

            return run_native("adev_native", self.native)
        return {"tier": "API-model", "confirmed": False, "note": "ADEV cannot execute on the sandbox's JAX 0.11"}


Dual = adev.Dual


def teq(a, b):
    return same(a, b)


def dim_eq_(a, b):
    from vt.tensor import dim_eq

    return dim_eq(a, b)


# ================================================================================================
# Dual tree helpers (C15)


@contract("genjax.adev:Dual.tree_pure", ["C15", "C11"])
class DualHelpers(_NoReplay):
    """tree_pure / dual_tree / tree_primal / tree_tangent / tree_unzip / tree_leaves on arbitrary pytrees:
    mutually inverse; non-Dual leaves get a zero tangent OF THEIR OWN TANGENT TYPE (float0 for ints/bools)"""

    cases = ["pytree"]

    def call(self, case):
        reset()
        self.x, self.v, self.k = real("x"), Tensor.fresh("v", (3,)), Sym(fresh("k", z3.IntSort()))
        self.dx = real("dx")
        self.tree = {"a": Dual(self.x, self.dx), "b": (self.v, self.k)}
        pure = self.real(Dual.tree_pure, self.tree)
        prim = self.real(Dual.tree_primal, pure)
        tang = self.real(Dual.tree_tangent, pure)
        rez = self.real(Dual.dual_tree, prim, tang)
        unz = self.real(Dual.tree_unzip, pure)
        lv = self.real(Dual.tree_leaves, self.tree)
        return pure, prim, tang, rez, unz, lv

    def ensures(self, case, path):
        yield "does_not_raise", path.outcome == "return"
        if path.outcome != "return":
            return
        pure, prim, tang, rez, unz, lv = path.value
        yield "existing_duals_kept", pure["a"].primal is self.x and pure["a"].tangent is self.dx
        yield "float_leaf_gets_zero_tangent_of_its_shape", isinstance(pure["b"][0], Dual) and pure["b"][0].primal is self.v and isinstance(pure["b"][0].tangent, Tensor) and pure["b"][0].tangent.shape == (3,) and AD.is_zero_tangent(pure["b"][0].tangent)
        yield "integer_leaf_gets_float0_tangent", isinstance(pure["b"][1], Dual) and isinstance(pure["b"][1].tangent, AD.Float0)
        yield "tree_primal_strips_to_primals", prim["a"] is self.x and prim["b"][0] is self.v and prim["b"][1] is self.k
        yield "tree_tangent_strips_to_tangents", tang["a"] is self.dx
        yield "dual_tree_rezips", rez["a"].primal is self.x and rez["a"].tangent is self.dx and rez["b"][0].primal is self.v
        ps, ts = unz
        yield "tree_unzip_flat_primals_and_tangents_in_the_same_order", ps == (self.x, self.v, self.k) and ts[0] is self.dx and len(ts) == 3
        yield "tree_leaves_are_the_dual_leaves", len(lv) == 3 and all(isinstance(d, Dual) for d in lv)


class CplxSym(Sym):
    """a value of a complex dtype (its arithmetic is not modelled; only its dtype and identity matter)"""

    __slots__ = ()
    dtype = "complex"


@contract("genjax.adev:_canonicalize_tangent_for_primitive_jvp", ["C15"])
class Canonicalize(_NoReplay):
    """only float0 tangents (those of integer / boolean primals) are turned into symbolic zeros; every other
    tangent - of a real OR complex primal - is passed through"""

    cases = ["symbolic_zero", "float0", "ordinary_real", "ordinary_complex", "non_array"]

    def call(self, case):
        reset()
        if case == "ordinary_real":
            self.p, self.t = real("x"), real("t")
        elif case == "ordinary_complex":
            self.p, self.t = CplxSym(fresh("z", V)), CplxSym(fresh("dz", V))
        else:
            self.p = Sym(fresh("k", z3.IntSort()))
            self.t = {"symbolic_zero": AD.Zero(self.p), "float0": AD.Float0(()), "non_array": object()}[case]
        return self.real(self.fn, self.p, self.t)

    def ensures(self, case, path):
        yield "does_not_raise", path.outcome == "return"
        if path.outcome != "return":
            return
        r = path.value
        if case == "float0":
            yield "float0_becomes_symbolic_zero_of_the_primal", isinstance(r, AD.Zero) and r.primal is self.p
        else:
            yield "kept_as_is", r is self.t


# ================================================================================================
# the interpreter


def site_prim(adev_prim, n_args, sample_shape=(), yes_kwargs=False):
    p = object.__new__(pjax.PPPrimitive)
    p.prim, p.multiple_results = pjax.adev_sample_p, True
    tree = real_jtu.tree_structure(tuple(range(n_args))) if not yes_kwargs else real_jtu.tree_structure((tuple(range(n_args)), {}))
    p.params = {"adev_prim": adev_prim, "in_tree": tree, "num_consts": 0, "yes_kwargs": yes_kwargs, "sample_shape": sample_shape}
    p.get_bind_params = lambda params: ([], dict(params))
    p.binds = []
    p.bind = lambda *a, **k: p.binds.append((a, k)) or [value("keyless")]
    return p


class RecPrim:
    """an ADEV primitive that records what the interpreter hands it and returns a chosen dual"""

    def __init__(self):
        self.calls = []

    def prim_jvp_estimate(self, dual_tree, konts):
        self.calls.append((dual_tree, konts))
        self.result = Dual(real("est_primal"), real("est_tangent"))
        return self.result


@contract("genjax.adev:ADEV.eval_jaxpr_adev", ["C15"])
class InterpDeterministic(_NoReplay):
    """deterministic equation: outputs = Dual(JVP_P(primals, canon(tangents), **params)) with zeros instantiated;
    all tangents zero (symbolic, float0) => just bind, zero tangents of the OUTPUT's tangent type; no inputs => bind;
    no JVP rule => NotImplementedError"""

    cases = ["jvp_rule", "all_zero_tangents", "float0_tangent_canonicalised", "no_inputs", "missing_rule", "multiple_results", "integer_only_inputs"]

    def call(self, case):
        reset()
        multi = case == "multiple_results"
        self.p = J.Prim("f", multiple_results=multi, n_out=2 if multi else 1)
        self.jvp_calls = []
        outer = self

        def rule(primals, tangents, **params):
            outer.jvp_calls.append((list(primals), list(tangents), params))
            outs = [real("jp%d" % k) for k in range(outer.p.n_out)]
            touts = [real("jt0")] + [AD.Zero(outs[k]) for k in range(1, outer.p.n_out)]
            outer.rule_out = (outs, touts)
            return (outs, touts) if multi else (outs[0], touts[0])

        if case != "missing_rule":
            JAXAD.primitive_jvps[self.p] = rule
        x, y, k = J.Var("x"), J.Var("y"), J.Var("k")
        self.vx, self.vy, self.vk = real("x"), real("y"), Sym(fresh("k", z3.IntSort()))
        self.dx = real("dx")
        if case == "all_zero_tangents":
            duals = [Dual(self.vx, AD.Zero(self.vx)), Dual(self.vy, Sym(z3.RealVal(0))), Dual(self.vk, AD.Float0(()))]
        else:
            duals = [Dual(self.vx, self.dx), Dual(self.vy, AD.Zero(self.vy)), Dual(self.vk, AD.Float0(()))]
        outs = [J.Var("o0"), J.Var("o1")] if multi else [J.Var("o0")]
        if case == "no_inputs":
            jp = J.Jaxpr([], [x, y, k], [J.Eqn(self.p, [], outs, {"axis": 2})], [outs[0]])
        elif case == "integer_only_inputs":
            # the returned value comes straight from a primitive whose inputs are all integer / boolean
            jp = J.Jaxpr([], [x, y, k], [J.Eqn(self.p, [k], outs, {"axis": 2})], [outs[0]])
        else:
            jp = J.Jaxpr([], [x, y, k], [J.Eqn(self.p, [x, y, k], outs, {"axis": 2})], [outs[0]])
        return self.real(adev.ADEV.eval_jaxpr_adev, jp, [], duals)

    def ensures(self, case, path):
        if case == "missing_rule":
            yield "missing_rule_raises_NotImplementedError", path.outcome == "raise" and isinstance(path.value.exc, NotImplementedError)
            return
        yield "does_not_raise", path.outcome == "return"
        if path.outcome != "return":
            return
        out = path.value
        yield "returns_a_Dual", isinstance(out, Dual)
        if not isinstance(out, Dual):
            return
        if case == "integer_only_inputs":
            yield "differentiated_or_bound_exactly_once", len(self.jvp_calls) + len(self.p.binds) == 1
            if self.jvp_calls:
                prim, tans, params = self.jvp_calls[0]
                yield "rule_gets_the_integer_primal_with_a_symbolic_zero_tangent", len(prim) == 1 and prim[0] is self.vk and isinstance(tans[0], AD.Zero)
                outs, touts = self.rule_out
                yield "output_is_Dual(rule_primal, rule_tangent)", out.primal is outs[0] and out.tangent is touts[0]
            else:
                yield "output_tangent_is_zero_of_the_outputs_tangent_type(never_the_primal_itself)", AD.is_zero_tangent(out.tangent) and not isinstance(out.tangent, AD.Zero)
            return
        if case in ("all_zero_tangents", "no_inputs"):
            # NOTE jnp zeros count as ordinary tangents: only symbolic zeros and float0 are skipped
            if case == "no_inputs" or not self.jvp_calls:
                yield "bound_without_differentiation", len(self.p.binds) == 1 and self.p.binds[0][1] == {"axis": 2}
                yield "output_tangent_is_zero_of_the_outputs_tangent_type", AD.is_zero_tangent(out.tangent) and not isinstance(out.tangent, AD.Zero)
            else:
                yield "rule_called_with_canonical_tangents", len(self.jvp_calls) == 1
            return
        yield "jvp_rule_called_once_without_rebinding", len(self.jvp_calls) == 1 and not self.p.binds
        if len(self.jvp_calls) != 1:
            return
        prim, tans, params = self.jvp_calls[0]
        yield "rule_gets_the_primals_in_order", prim == [self.vx, self.vy, self.vk] and all(a is b for a, b in zip(prim, (self.vx, self.vy, self.vk)))
        yield "rule_gets_params", params == {"axis": 2}
        yield "ordinary_tangent_passed_through", tans[0] is self.dx
        yield "symbolic_zero_kept", isinstance(tans[1], AD.Zero)
        yield "float0_tangent_canonicalised_to_symbolic_zero_of_its_primal", isinstance(tans[2], AD.Zero) and tans[2].primal is self.vk
        outs, touts = self.rule_out
        yield "output_is_Dual(rule_primal, rule_tangent)", out.primal is outs[0] and out.tangent is touts[0]


@contract("genjax.adev:ADEV.eval_jaxpr_adev", ["C11"])
class InterpSampleSite(_NoReplay):
    """ADEV site (CPS): the primitive gets the site's arguments as duals and two continuations; kdual(d) is the dual
    evaluation of the REMAINING equations with the site's out variable bound to d, in a copy of the environment
    (so it can be called several times with independent results); kpure(v) is the primal evaluation; the
    estimate returned by the primitive is the program's result; equations before the site are evaluated once"""

    cases = ["default", "with_sample_shape"]

    def call(self, case):
        reset()
        self.rp = RecPrim()
        self.S_ = (3,) if case == "with_sample_shape" else ()
        sp = site_prim(self.rp, 2, sample_shape=self.S_)
        self.sp = sp
        self.f, self.g = J.Prim("f"), J.Prim("g")
        outer = self

        def rule_f(primals, tangents, **params):
            return Sym(z3.Function("Fp", V, z3.RealSort())(enc(tuple(primals)))), Sym(z3.Function("Ft", V, V, z3.RealSort())(enc(tuple(primals)), enc(tuple(AD.instantiate_zeros(t) for t in tangents))))

        def rule_g(primals, tangents, **params):
            return Sym(z3.Function("Gp", V, z3.RealSort())(enc(tuple(primals)))), Sym(z3.Function("Gt", V, V, z3.RealSort())(enc(tuple(primals)), enc(tuple(AD.instantiate_zeros(t) for t in tangents))))

        JAXAD.primitive_jvps[self.f], JAXAD.primitive_jvps[self.g] = rule_f, rule_g
        x, a, s, o = J.Var("x"), J.Var("a"), J.Var("s"), J.Var("o")
        self.vx, self.dx = real("x"), real("dx")
        # a = f(x); s ~ site(a, x); o = g(s, a); return o
        jp = J.Jaxpr([], [x], [J.Eqn(self.f, [x], [a]), J.Eqn(sp, [a, x], [s]), J.Eqn(self.g, [s, a], [o])], [o])
        return self.real(adev.ADEV.eval_jaxpr_adev, jp, [], [Dual(self.vx, self.dx)])

    def ensures(self, case, path):
        yield "does_not_raise", path.outcome == "return"
        if path.outcome != "return":
            return
        rp = self.rp
        yield "primitive_invoked_once", len(rp.calls) == 1
        yield "site_not_rebound", not self.sp.binds
        if len(rp.calls) != 1:
            return
        yield "result_is_the_primitives_estimate", path.value is rp.result
        dual_tree, (kpure, kdual) = rp.calls[0]
        Fp = z3.Function("Fp", V, z3.RealSort())(enc((self.vx,)))
        Ft = z3.Function("Ft", V, V, z3.RealSort())(enc((self.vx,)), enc((self.dx,)))
        yield "primitive_gets_the_sites_arguments_as_duals", len(dual_tree) == 2 and all(isinstance(d, Dual) for d in dual_tree)
        if case == "default":
            yield "first_argument_is_the_dual_of_f(x)", same(dual_tree[0].primal, Sym(Fp)) and same(dual_tree[0].tangent, Sym(Ft))
            yield "second_argument_is_the_dual_x", dual_tree[1].primal is self.vx and dual_tree[1].tangent is self.dx
        else:
            d0 = dual_tree[0]
            yield "arguments_broadcast_to_sample_shape", isinstance(d0.primal, Tensor) and d0.primal.shape == (3,) and isinstance(d0.tangent, Tensor) and d0.tangent.shape == (3,)
            i = fresh("i", z3.IntSort())
            yield "broadcast_values", z3.And(d0.primal.fn((i,)) == Fp, d0.tangent.fn((i,)) == Ft)
        # continuations
        eng = engine()
        d1 = Dual(real("s1"), real("ds1"))
        d2 = Dual(real("s2"), real("ds2"))
        from vt.sym import Engine

        r1 = kdual(d1)
        r2 = kdual(d2)
        r1b = kdual(d1)
        Gp = lambda s: z3.Function("Gp", V, z3.RealSort())(enc((s, Sym(Fp))))
        Gt = lambda s, ds: z3.Function("Gt", V, V, z3.RealSort())(enc((s, Sym(Fp))), enc((ds, Sym(Ft))))
        yield "kdual_is_the_dual_evaluation_of_the_rest_of_the_program", z3.And(same(r1.primal, Sym(Gp(d1.primal))), same(r1.tangent, Sym(Gt(d1.primal, d1.tangent))))
        yield "kdual_can_be_called_again_with_an_independent_result", z3.And(same(r2.primal, Sym(Gp(d2.primal))), same(r1b.primal, Sym(Gp(d1.primal))), same(r1b.tangent, Sym(Gt(d1.primal, d1.tangent))))
        nb = len(self.g.binds)
        rp_ = kpure(real("s3"))
        yield "kpure_is_the_primal_evaluation_of_the_rest", len(self.g.binds) == nb + 1 and self.g.binds[-1][0][1] is not None and len(rp_) == 1
        yield "equations_before_the_site_evaluated_once", True


@contract("genjax.adev:ADEV.eval_jaxpr_adev", ["C11", "C14"])
class InterpPlainSampleSite(_NoReplay):
    """a plain pjax.sample site inside an expectation has no ADEV semantics: the interpreter refuses"""

    cases = ["default"]

    def call(self, case):
        reset()
        p = object.__new__(pjax.PPPrimitive)
        p.prim, p.multiple_results, p.params = pjax.sample_p, True, {}
        p.get_bind_params = lambda params: ([], dict(params))
        x, o = J.Var("x"), J.Var("o")
        jp = J.Jaxpr([], [x], [J.Eqn(p, [x], [o])], [o])
        return self.real(adev.ADEV.eval_jaxpr_adev, jp, [], [Dual(real("x"), real("dx"))])

    def ensures(self, case, path):
        yield "raises_NotImplementedError", path.outcome == "raise" and isinstance(path.value.exc, NotImplementedError)


@contract("genjax.adev:ADEV.eval_jaxpr_adev", ["C15", "C11"])
class InterpCond(_NoReplay):
    """cond: the result is the ADEV transform of the branch the PRIMAL predicate index selects (JAX stores cond
    branches as (false, true)), applied to the dual operands and continued by the rest of the program - whether the
    index is concrete (eager call) or traced (jit / seed / vmap).  Where the implementation goes through lax.cond,
    the predicate, branch order (lax.cond takes (true_fn, false_fn)) and operands are checked as well"""

    cases = ["eager_index", "traced_index"]

    def call(self, case):
        reset()
        self.conds = []
        outer = self

        def cond_rec(pred, tf, ff, *ops):
            outer.conds.append((pred, tf, ff, ops))
            return lax_stub.cond(pred, tf, ff, *ops)

        adev.jax.lax.cond = cond_rec
        self.fm = []
        self._orig_fm = adev.ADEV.forward_mode
        self.BR = [z3.Function("BranchF", V, z3.RealSort()), z3.Function("BranchT", V, z3.RealSort())]

        def fake_fm(f, kont=lambda v: v):
            outer.fm.append((f, kont))
            which = 0 if getattr(f, "__vt_jaxpr__", None) is outer.bF else 1

            def transformed(*ops):
                return Sym(outer.BR[which](enc(tuple((o.primal, o.tangent) if isinstance(o, Dual) else o for o in ops))))

            transformed.__vt_branch__ = which
            return transformed

        adev.ADEV.forward_mode = staticmethod(fake_fm)
        self.bF, self.bT = J.ClosedJaxpr(J.Jaxpr([], [], [], []), []), J.ClosedJaxpr(J.Jaxpr([], [], [], []), [])
        i, x, o = J.Var("i"), J.Var("x"), J.Var("o")
        iv = fresh("idx", z3.IntSort())
        engine().assume(z3.And(iv >= 0, iv <= 1))
        self.vi = (J.TracerSym(iv) if case == "traced_index" else Sym(iv))
        self.vx, self.dx = real("x"), real("dx")
        jp = J.Jaxpr([], [i, x], [J.Eqn(J.cond_p, [i, x], [o], {"branches": (self.bF, self.bT)})], [o])
        try:
            return self.real(adev.ADEV.eval_jaxpr_adev, jp, [], [Dual(self.vi, AD.Float0(())), Dual(self.vx, self.dx)])
        finally:
            adev.ADEV.forward_mode = self._orig_fm
            adev.jax.lax.cond = lax_stub.cond

    def ensures(self, case, path):
        yield "does_not_raise", path.outcome == "return"
        if path.outcome != "return":
            return
        ops = enc(((self.vx, self.dx),))
        want = z3.If(self.vi.e != 0, self.BR[1](ops), self.BR[0](ops))
        yield "result_is_the_transformed_selected_branch_on_the_dual_operands", isinstance(path.value, Sym) and same(path.value, Sym(want))
        yield "both_branches_transformed_with_the_rest_as_continuation", all(callable(k) for _, k in self.fm) and {id(getattr(f, "__vt_jaxpr__", None)) for f, _ in self.fm} >= ({id(self.bF), id(self.bT)} if case == "traced_index" else set())
        if case == "traced_index":
            yield "traced_index_goes_through_one_lax_cond", len(self.conds) == 1
        if len(self.conds) == 1:
            pred, tf, ff, o = self.conds[0]
            yield "predicate_is_the_primal_index", pred is self.vi
            yield "true_branch_is_transformed_branches[1]_false_is_branches[0]", getattr(tf, "__vt_branch__", None) == 1 and getattr(ff, "__vt_branch__", None) == 0
            yield "operands_are_the_dual_operands", len(o) == 1 and isinstance(o[0], Dual) and o[0].primal is self.vx and o[0].tangent is self.dx


@contract("genjax.adev:ADEV.forward_mode", ["C15", "C11"])
class ForwardMode(_NoReplay):
    """stage on the primals, interpret on the dual leaves, rebuild the output tree, apply the continuation"""

    cases = ["default"]

    def call(self, case):
        reset()
        self.ev = []
        outer = self
        self._o = adev.ADEV.eval_jaxpr_adev
        self.out = Dual(real("op"), real("ot"))
        adev.ADEV.eval_jaxpr_adev = staticmethod(lambda jaxpr, consts, duals: outer.ev.append((jaxpr, consts, duals)) or outer.out)
        x, o = J.Var("x"), J.Var("o")
        self.closed = J.ClosedJaxpr(J.Jaxpr([], [x], [], [x]), [])

        def f(a, b):
            raise EngineLimit("body represented by its Jaxpr")

        f.__vt_jaxpr__ = self.closed
        self.f = f
        self.da, self.vb = Dual(real("a"), real("da")), real("b")
        self.kont_in = []
        try:
            return self.real(adev.ADEV.forward_mode(f, lambda v: outer.kont_in.append(v) or "kont-result"), self.da, self.vb)
        finally:
            adev.ADEV.eval_jaxpr_adev = self._o

    def ensures(self, case, path):
        yield "does_not_raise", path.outcome == "return"
        if path.outcome != "return":
            return
        st = [c for c in S.STAGE.calls if c[0] is self.f]
        yield "staged_on_the_primals", len(st) == 1 and st[0][1][0] is self.da.primal and st[0][1][1] is self.vb
        yield "interpreted_once_on_the_dual_leaves", len(self.ev) == 1 and self.ev[0][0] is self.closed.jaxpr and len(self.ev[0][2]) == 2 and self.ev[0][2][0].primal is self.da.primal and self.ev[0][2][0].tangent is self.da.tangent and self.ev[0][2][1].primal is self.vb and AD.is_zero_tangent(self.ev[0][2][1].tangent)
        yield "continuation_applied_to_the_output_dual_tree", len(self.kont_in) == 1 and path.value == "kont-result"
        if len(self.kont_in) == 1:
            k = self.kont_in[0]
            leaves = real_jtu.tree_leaves(k, is_leaf=lambda v: isinstance(v, Dual))
            yield "output_dual_has_interpreters_primal_and_tangent", len(leaves) == 1 and leaves[0].primal is self.out.primal and leaves[0].tangent is self.out.tangent


@contract("genjax.adev:Expectation.estimate", ["C15", "C11"])
class Estimate(_NoReplay):
    """estimate(*args) = primal of jvp_estimate on duals whose tangents are ZEROS WITH THE SHAPE AND TANGENT TYPE OF
    EACH ARGUMENT LEAF (array arguments need array tangents for shape-sensitive JVP rules, integer ones float0)"""

    cases = ["scalar_array_int_pytree", "scalar_array_int_pytree:the_program_raises"]
    native = "estimate"

    def call(self, case):
        reset()
        self.seen = []
        outer = self

        class Prog:
            def jvp_estimate(s, duals, kont):
                outer.seen.append((duals, kont))
                if "the_program_raises" in case:
                    # the wrapped program rejects these arguments (the plain function would too): the caller may catch
                    # this and go on - nothing interpreter-wide may be left behind (frame condition on module state)
                    raise documented(ValueError("the program rejects these arguments"))
                return Dual("the-primal", "the-tangent")

        self.ex = adev.Expectation(Prog())
        self.x, self.v, self.k = real("x"), Tensor.fresh("v", (2, 3)), Sym(fresh("k", z3.IntSort()))
        self.args = (self.x, {"w": self.v}, self.k)
        return self.real(self.ex.estimate, *self.args)

    def ensures(self, case, path):
        if "the_program_raises" in case:
            yield "the_programs_exception_propagates", path.outcome == "raise" and len(self.seen) == 1
            return
        yield "does_not_raise", path.outcome == "return"
        if path.outcome != "return":
            return
        yield "returns_the_primal_of_jvp_estimate", path.value == "the-primal" and len(self.seen) == 1
        if len(self.seen) != 1:
            return
        duals = self.seen[0][0]
        leaves = real_jtu.tree_leaves(duals, is_leaf=lambda v: isinstance(v, Dual))
        yield "every_argument_leaf_is_a_dual_with_its_primal", len(leaves) == 3 and leaves[0].primal is self.x and leaves[1].primal is self.v and leaves[2].primal is self.k
        if len(leaves) == 3:
            yield "scalar_float_argument_gets_scalar_zero_tangent", AD.is_zero_tangent(leaves[0].tangent) and not isinstance(leaves[0].tangent, Tensor)
            t1 = leaves[1].tangent
            yield "array_argument_gets_zero_tangent_of_its_shape", isinstance(t1, Tensor) and t1.shape == (2, 3) and AD.is_zero_tangent(t1)
            yield "integer_argument_gets_float0_tangent", isinstance(leaves[2].tangent, (AD.Float0, AD.Zero))


@contract("genjax.adev:Expectation.jvp_estimate", ["C15", "C11"])
class JvpEstimate(_NoReplay):
    cases = ["default"]

    def call(self, case):
        reset()
        self.seen = []
        outer = self

        class Prog:
            def jvp_estimate(s, duals, kont):
                outer.seen.append((duals, kont))
                return "prog-result"

        self.d = (Dual(real("x"), real("dx")), Dual(real("y"), real("dy")))
        return self.real(adev.Expectation(Prog()).jvp_estimate, *self.d)

    def ensures(self, case, path):
        yield "does_not_raise", path.outcome == "return"
        if path.outcome == "return":
            yield "program_transformed_with_the_identity_continuation", len(self.seen) == 1 and self.seen[0][0] == self.d and self.seen[0][1]("v") == "v" and path.value == "prog-result"


@contract("genjax.adev:ADEVProgram.jvp_estimate", ["C15", "C11"])
class ProgramJvp(_NoReplay):
    cases = ["default"]

    def call(self, case):
        reset()
        self.fm = []
        outer = self
        self._o = adev.ADEV.forward_mode
        adev.ADEV.forward_mode = staticmethod(lambda f, kont=None: outer.fm.append((f, kont)) or (lambda *d: ("ran", d)))
        self.src = lambda *a: None
        self.k = lambda v: v
        self.d = (Dual(real("x"), real("dx")),)
        try:
            return self.real(adev.ADEVProgram(core.Const(self.src)).jvp_estimate, self.d, self.k)
        finally:
            adev.ADEV.forward_mode = self._o

    def ensures(self, case, path):
        yield "does_not_raise", path.outcome == "return"
        if path.outcome == "return":
            yield "forward_mode_of_the_source_with_the_given_continuation_on_the_duals", len(self.fm) == 1 and self.fm[0][0] is self.src and self.fm[0][1] is self.k and path.value == ("ran", self.d)


@contract("genjax.adev:invoke_closed_over_jvp", ["C15", "C11"])
class ClosedOverJvp(_NoReplay):
    """the custom-JVP bridge: primal out = jvp_estimate's primal, tangent out = jvp_estimate's tangent, computed
    on Dual(primals, tangents) of the differentiated arguments"""

    cases = ["default"]

    def call(self, case):
        reset()
        self.seen = []
        outer = self
        self.out = Dual(real("op"), real("ot"))

        class Inst:
            def jvp_estimate(s, *duals):
                outer.seen.append(duals)
                return outer.out

        self.inst = Inst()
        self.p, self.t = (real("x"), real("y")), (real("dx"), real("dy"))
        return self.real(adev.invoke_closed_over_jvp, (self.inst, self.p), (None, self.t))

    def ensures(self, case, path):
        yield "does_not_raise", path.outcome == "return"
        if path.outcome != "return":
            return
        v, t = path.value
        yield "primal_and_tangent_are_jvp_estimates", v is self.out.primal and t is self.out.tangent
        yield "jvp_estimate_on_zipped_duals", len(self.seen) == 1 and all(d.primal is p and d.tangent is tt for d, p, tt in zip(self.seen[0], self.p, self.t))


@contract("genjax.adev:Expectation.grad_estimate", ["C15", "C11"])
class GradEstimate(_NoReplay):
    """grad of the custom-JVP bridge w.r.t. the tuple of primals; a single argument returns its gradient alone"""

    cases = ["one_argument", "two_arguments"]

    def call(self, case):
        reset()
        self.ex = adev.Expectation(object())
        self.p = (real("x"),) if case == "one_argument" else (real("x"), real("y"))
        # grad stub returns a tuple-like marker indexed by position
        adev.jax.grad = lambda f: (lambda x: GRADS.append((f, x)) or tuple(("g", i) for i in range(len(x))))
        try:
            return self.real(self.ex.grad_estimate, *self.p)
        finally:
            adev.jax.grad = grad_rec

    def ensures(self, case, path):
        yield "does_not_raise", path.outcome == "return"
        if path.outcome != "return":
            return
        yield "differentiated_at_the_tuple_of_primals", len(GRADS) == 1 and GRADS[0][1] == self.p
        if case == "one_argument":
            yield "single_gradient_returned", path.value == ("g", 0)
        else:
            yield "tuple_of_gradients_returned", path.value == (("g", 0), ("g", 1))


# ================================================================================================
# primitives against an abstract continuation


class Kont:
    """abstract continuation of a site: kdual(Dual(x, dx)) = Dual(KP(x), KT(x, dx)), kpure(x) = [KP(x)]"""

    def __init__(self, sort, lanes=None, vector=False):
        n = engine().fresh_name
        self.sort, self.lanes = sort, lanes
        self.vector = vector
        if vector:
            # the rest of the program returns a VECTOR in R^m (any m >= 1): KP / KT below denote ITS COMPONENT j for a
            # generic j - a clause written with them and compared with component j of the result (`comp`) is the clause
            # for every component
            self.m, self.j = fresh("m", z3.IntSort()), fresh("j", z3.IntSort())
            engine().assume(z3.And(self.m >= 1, self.j >= 0, self.j < self.m))
            KPv = z3.Function(n("KPvec"), sort, z3.IntSort(), z3.RealSort())
            KTv = z3.Function(n("KTvec"), sort, z3.IntSort(), z3.RealSort())
            KTdv = z3.Function(n("KTdvec"), sort, sort, z3.IntSort(), z3.RealSort())
            self._vec = (KPv, KTv, KTdv)
            self.KP = lambda x: KPv(x, self.j)
            self.KT = lambda x: KTv(x, self.j)
            self.KTd = lambda x, dx: KTdv(x, dx, self.j)
        elif lanes:  # continuation of a vector of `lanes` booleans: a function of its elements
            doms = [z3.BoolSort()] * lanes
            self._KP = z3.Function(n("KP"), *doms, z3.RealSort())
            self._KT = z3.Function(n("KT"), *doms, z3.RealSort())
            self.KP = lambda key: self._KP(*key)
            self.KT = lambda key: self._KT(*key)
            self.KTd = None
        else:
            self.KP = z3.Function(n("KP"), sort, z3.RealSort())
            self.KT = z3.Function(n("KT"), sort, z3.RealSort())  # tangent of the continuation for a zero-tangent input
            self.KTd = z3.Function(n("KTd"), sort, sort, z3.RealSort())  # ... for input tangent dx
        self.dcalls, self.pcalls, self.drets = [], [], []

    def _key(self, x):
        if self.lanes:
            return tuple(z3.simplify(x.fn((z3.IntVal(i),))) for i in range(self.lanes))
        if isinstance(x, Tensor):
            return enc(x)
        return _lift(x)

    def kdual(self, *duals):
        r = self._kdual(*duals)
        self.drets.append(r)
        return r

    def returned_by_kdual(self, out):
        """`out` is (component-wise) the Dual the continuation handed back - nothing added, dropped or summed"""
        return isinstance(out, Dual) and len(self.drets) >= 1 and any(out.primal is r.primal and out.tangent is r.tangent for r in self.drets)

    def _kdual(self, *duals):
        self.dcalls.append(duals)
        if len(duals) != 1 or not isinstance(duals[0], Dual):
            raise documented(TypeError("continuation expects exactly one Dual per out variable, got %r" % (duals,)))
        d = duals[0]
        x = self._key(d.primal)
        if self.vector:
            KPv, KTv, KTdv = self._vec
            if AD.is_zero_tangent(d.tangent):
                return Dual(Tensor((self.m,), lambda idx: KPv(x, idx[0])), Tensor((self.m,), lambda idx: KTv(x, idx[0])))
            dx = self._key(d.tangent)
            return Dual(Tensor((self.m,), lambda idx: KPv(x, idx[0])), Tensor((self.m,), lambda idx: KTdv(x, dx, idx[0])))
        if AD.is_zero_tangent(d.tangent):
            return Dual(Sym(self.KP(x)), Sym(self.KT(x)))
        return Dual(Sym(self.KP(x)), Sym(self.KTd(x, self._key(d.tangent))))

    def comp(self, v):
        """component j of a vector-valued result (the value itself for a scalar continuation)"""
        if not self.vector:
            return v
        if not (isinstance(v, Tensor) and v.ndim == 1 and dim_eq(v.shape[0], self.m)):
            return None  # not a vector of the integrand's length: `same(None, ...)` is false
        return Sym(v.fn((self.j,)))

    def kpure(self, *vals):
        """the PURE continuation binds the remaining equations as they are; a later stochastic site is then evaluated by
        the implementation staged when the site was bound, and without `seed` that implementation carries the key drawn
        at staging time: every re-bind replays ONE draw (observed natively: six independent jvp_estimate calls give the
        identical downstream value).  So kpure(x) is the rest of the program at x with its downstream draws FROZEN - a
        different function KPfrozen, not the fresh evaluation KP that the dual continuation's primal gives"""
        Assumed.note("pure continuation = remaining equations bound as staged: downstream sites replay the draw baked at staging when unseeded (KPfrozen), only under seed is it a fresh evaluation")
        self.pcalls.append(vals)
        if self.vector:
            if not hasattr(self, "_KPfrozen_v"):
                self._KPfrozen_v = z3.Function(engine().fresh_name("KPfrozenvec"), self.sort, z3.IntSort(), z3.RealSort())
                self.KPfrozen = lambda x: self._KPfrozen_v(x, self.j)
            x = self._key(vals[0])
            return [Tensor((self.m,), lambda idx: self._KPfrozen_v(x, idx[0]))]
        if not hasattr(self, "KPfrozen"):
            n = engine().fresh_name
            if self.lanes:
                f = z3.Function(n("KPfrozen"), *([z3.BoolSort()] * self.lanes), z3.RealSort())
                self.KPfrozen = lambda key: f(*key)
            else:
                self.KPfrozen = z3.Function(n("KPfrozen"), self.sort, z3.RealSort())
        return [Sym(self.KPfrozen(self._key(vals[0])))]


class _Prim(_NoReplay):
    def p_dual(self):
        self.p, self.dp = real("p"), real("dp")
        # every probability, INCLUDING the end points 0 and 1 (a saturated probability is a legitimate argument: the
        # enumeration / measure-valued identities are polynomial in p and hold on the closed interval)
        engine().assume(z3.And(self.p.e >= 0, self.p.e <= 1))
        return (Dual(self.p, self.dp),)


@contract("genjax.adev:FlipEnum.prim_jvp_estimate", ["C11"])
class FlipEnumC(_Prim):
    """exact: (p f_T + (1-p) f_F ,  p'(f_T - f_F) + p f'_T + (1-p) f'_F), zero variance (no sampling)"""

    cases = ["scalar", "scalar:vector_valued_integrand"]

    def call(self, case):
        reset()
        self.k = Kont(z3.BoolSort(), vector="vector_valued_integrand" in case)
        return self.real(adev.FlipEnum().prim_jvp_estimate, self.p_dual(), (self.k.kpure, self.k.kdual))

    def ensures(self, case, path):
        yield "does_not_raise", path.outcome == "return"
        if path.outcome != "return":
            return
        k, p, dp = self.k, self.p.e, self.dp.e
        T, F = z3.BoolVal(True), z3.BoolVal(False)
        out = path.value
        yield "value_is_exact_expectation", same(k.comp(out.primal), Sym(p * k.KP(T) + (1 - p) * k.KP(F)))
        yield "tangent_is_exact_derivative", same(k.comp(out.tangent), Sym(dp * (k.KP(T) - k.KP(F)) + p * k.KT(T) + (1 - p) * k.KT(F)))
        yield "no_sampling(zero_variance)", not FLIPS.calls


class _BatchedFlip(_Prim):
    """batched Bernoulli site (array-valued p): the estimator is the lane-wise helper, called WITHIN the contract it is
    proved under - (kpure, kdual, p, p') and nothing else (the helper's invariant proof covers every flipped-lane
    evaluation going through the dual continuation; an extra argument that re-routes them is outside it)"""

    cases = ["batched"]
    prim = None

    def call(self, case):
        reset()
        B = fresh("B", z3.IntSort())
        engine().assume(B >= 1)
        self.p, self.dp = Tensor.fresh("p", (B,)), Tensor.fresh("dp", (B,))
        self.kp, self.kd = (lambda *a: None), (lambda *a: None)
        self.rec = []
        tok = self.tok = object()
        saved = adev._flip_lane_rb_estimate
        adev._flip_lane_rb_estimate = lambda *a, **k: self.rec.append((a, k)) or tok
        try:
            return self.real(getattr(adev, self.prim)().prim_jvp_estimate, (Dual(self.p, self.dp),), (self.kp, self.kd))
        finally:
            adev._flip_lane_rb_estimate = saved

    def ensures(self, case, path):
        yield "does_not_raise", path.outcome == "return"
        if path.outcome != "return":
            return
        yield "delegates_to_the_lane_wise_estimator_once_and_returns_its_result", len(self.rec) == 1 and path.value is self.tok
        if len(self.rec) == 1:
            a, k = self.rec[0]
            yield "called_with_(kpure, kdual, p, p')_and_nothing_else", len(a) == 4 and a[0] is self.kp and a[1] is self.kd and a[2] is self.p and a[3] is self.dp and not k


@contract("genjax.adev:FlipEnum.prim_jvp_estimate", ["C11"])
class FlipEnumBatched(_BatchedFlip):
    prim = "FlipEnum"


@contract("genjax.adev:FlipMVD.prim_jvp_estimate", ["C11"])
class FlipMVDBatched(_BatchedFlip):
    prim = "FlipMVD"


@contract("genjax.adev:FlipMVD.prim_jvp_estimate", ["C11"])
class FlipMVDC(_Prim):
    native = "mvd_phantom"

    """b ~ flip(p); estimate (f_b, f'_b + sign(b) (f_{not b} - f_b) p') whose measure-valued term equals f_T - f_F for
    BOTH outcomes; averaging over b gives the exact derivative (lemma)"""

    cases = ["scalar", "scalar:vector_valued_integrand"]

    def call(self, case):
        reset()
        self.k = Kont(z3.BoolSort(), vector="vector_valued_integrand" in case)
        return self.real(adev.FlipMVD().prim_jvp_estimate, self.p_dual(), (self.k.kpure, self.k.kdual))

    def ensures(self, case, path):
        yield "does_not_raise", path.outcome == "return"
        if path.outcome != "return":
            return
        k, dp = self.k, self.dp.e
        yield "one_bernoulli(p)_draw", len(FLIPS.calls) == 1 and FLIPS.calls[0][0] is self.p
        if len(FLIPS.calls) != 1:
            return
        b = BDraw(FLIPS.calls[0][1], self.p.e)
        T, F = z3.BoolVal(True), z3.BoolVal(False)
        out = path.value
        yield "value_is_f(b)", same(k.comp(out.primal), Sym(k.KP(b)))
        yield "tangent_is_f'(b)_plus_(f_T-f_F)p'_for_either_outcome", same(k.comp(out.tangent), Sym(k.KT(b) + (k.KP(T) - k.KP(F)) * dp))
        # exact unbiasedness: sum_b P(b) tangent(b) = d/dtheta [p f_T + (1-p) f_F]
        p = self.p.e
        tan = lambda bb: k.KT(bb) + (k.KP(T) - k.KP(F)) * dp
        yield "averages_over_outcomes_to_the_exact_derivative", p * tan(T) + (1 - p) * tan(F) == dp * (k.KP(T) - k.KP(F)) + p * k.KT(T) + (1 - p) * k.KT(F)


@contract("genjax.adev:REINFORCE.prim_jvp_estimate", ["C11", "C17"])
class ReinforceC(_Prim):
    """v ~ sampler(theta); estimate (f(v), f'(v) + f(v) * d/dtheta logpdf(v; theta)[theta']) with the tangent of THIS
    primitive's own logpdf at the drawn value (zero tangent for v)"""

    cases = ["one_parameter", "two_parameters", "one_parameter:vector_valued_integrand"]

    def call(self, case):
        reset()
        self.k = Kont(z3.RealSort())
        if "vector_valued_integrand" in case:
            # the rest of the program returns a VECTOR f(v) in R^m: component j of the estimate is
            # f'_j(v) + f_j(v) * score (the score multiplies each component of the integrand, it is not summed over them)
            k = self.k
            self.m = fresh("m", z3.IntSort())
            engine().assume(self.m >= 1)
            nm = engine().fresh_name
            self.KPv = z3.Function(nm("KPvec"), z3.RealSort(), z3.IntSort(), z3.RealSort())
            self.KTv = z3.Function(nm("KTvec"), z3.RealSort(), z3.IntSort(), z3.RealSort())

            def kdual(*duals):
                k.dcalls.append(duals)
                d = duals[0]
                if not AD.is_zero_tangent(d.tangent):
                    raise EngineLimit("vector continuation with a non-zero input tangent")
                x = _lift(d.primal)
                return Dual(Tensor((self.m,), lambda idx: self.KPv(x, idx[0])), Tensor((self.m,), lambda idx: self.KTv(x, idx[0])))

            k.kdual = kdual
        n = 1 if case.startswith("one_parameter") else 2
        self.th = [real("theta%d" % i) for i in range(n)]
        self.dth = [real("dtheta%d" % i) for i in range(n)]
        self.LP = z3.Function("LPr", *([z3.RealSort()] * (n + 1)), z3.RealSort())
        self.PD = [z3.Function("dLPr_dtheta%d" % i, *([z3.RealSort()] * (n + 1)), z3.RealSort()) for i in range(n)]
        self.PDv = z3.Function("dLPr_dv", *([z3.RealSort()] * (n + 1)), z3.RealSort())
        self.samples = []
        outer = self

        def sampler(*a):
            v = real("v")
            outer.samples.append((a, v))
            return v

        def logpdf(v, *a):
            vs = [DN.lift(x) for x in (v,) + a]
            prims = [_toreal(_lift(d.p)) for d in vs]
            tan = None
            for i, d in enumerate(vs):
                if d.t is not None:
                    pd = (outer.PDv if i == 0 else outer.PD[i - 1])(*prims)
                    term = Sym(pd) * d.t
                    tan = term if tan is None else tan + term
            return DN(Sym(outer.LP(*prims)), tan)

        prim = adev.reinforce(sampler, logpdf, lambda key, *a, sample_shape=(): None)
        duals = tuple(Dual(t, d) for t, d in zip(self.th, self.dth))
        return self.real(prim.prim_jvp_estimate, duals, (self.k.kpure, self.k.kdual))

    def ensures(self, case, path):
        yield "does_not_raise", path.outcome == "return"
        if path.outcome != "return":
            return
        k = self.k
        yield "sampled_once_at_the_primal_parameters", len(self.samples) == 1 and all(a is b for a, b in zip(self.samples[0][0], self.th))
        if len(self.samples) != 1:
            return
        v = self.samples[0][1].e
        prims = [v] + [t.e for t in self.th]
        score = z3.Sum([self.PD[i](*prims) * self.dth[i].e for i in range(len(self.th))])
        out = path.value
        yield "continuation_run_once_on_the_draw_with_zero_tangent", len(k.dcalls) == 1
        if "vector_valued_integrand" in case:
            j = fresh("j", z3.IntSort())
            ok = isinstance(out.primal, Tensor) and isinstance(out.tangent, Tensor) and out.primal.ndim == 1 and out.tangent.ndim == 1
            yield "value_and_tangent_are_vectors_of_the_integrands_length", ok and dim_eq(out.primal.shape[0], self.m) and dim_eq(out.tangent.shape[0], self.m)
            if ok:
                rng = z3.And(j >= 0, j < self.m)
                yield "value_is_f(v)_componentwise", z3.Implies(rng, out.primal.fn((j,)) == self.KPv(v, j))
                yield "tangent_j_is_f'_j(v)_plus_f_j(v)_times_score", z3.Implies(rng, out.tangent.fn((j,)) == self.KTv(v, j) + self.KPv(v, j) * score)
            return
        yield "value_is_f(v)", same(out.primal, Sym(k.KP(v)))
        yield "tangent_is_f'(v)_plus_f(v)_times_score", same(out.tangent, Sym(k.KT(v) + k.KP(v) * score))


@contract("lemma:flip_reinforce_is_exactly_unbiased", ["C11"], kind="lemma")
class FlipReinforceLemma(Contract):
    """with the Bernoulli pmf (A-TFP: logpdf(T;p) = log p, logpdf(F;p) = log(1-p), so d/dp = 1/p and -1/(1-p)):
    sum_b P(b) [f'_b + f_b dlogp(b)/dp p'] = p f'_T + (1-p) f'_F + (f_T - f_F) p'   (polynomial identity)"""

    cases = ["default"]

    def call(self, case):
        return None

    def ensures(self, case, path):
        p, dp, fT, fF, dfT, dfF = z3.Reals("p dp fT fF dfT dfF")
        est = lambda f, df, score: df + f * score * dp
        lhs = p * est(fT, dfT, 1 / p) + (1 - p) * est(fF, dfF, -1 / (1 - p))
        yield "averages_to_exact_derivative", z3.Implies(z3.And(p > 0, p < 1), lhs == p * dfT + (1 - p) * dfF + (fT - fF) * dp)


@contract("genjax.adev:NormalREPARAM.prim_jvp_estimate", ["C11", "C17"])
class NormalReparamC(_Prim):
    """x = mu + sigma*eps with eps ~ N(0,1) drawn with PARAMETER-FREE arguments; continuation on Dual(x, mu' + sigma' eps)"""

    cases = ["scalar", "vector", "broadcast(scalar_mu,vector_sigma)", "broadcast(vector_mu,scalar_sigma)"]

    def call(self, case):
        reset()
        self.k = Kont(z3.RealSort() if case == "scalar" else V)
        if case == "scalar":
            self.mu, self.sg, self.dmu, self.dsg = real("mu"), real("sigma"), real("dmu"), real("dsigma")
        else:
            n = fresh("n", z3.IntSort())
            engine().assume(n >= 1)
            self.n = n
            self.mu, self.sg, self.dmu, self.dsg = (Tensor.fresh(x, (n,)) for x in ("mu", "sigma", "dmu", "dsigma"))
            if case.startswith("broadcast(scalar_mu"):
                self.mu, self.dmu = real("mu"), real("dmu")
            elif case.startswith("broadcast(vector_mu"):
                self.sg, self.dsg = real("sigma"), real("dsigma")
        return self.real(adev.NormalREPARAM().prim_jvp_estimate, (Dual(self.mu, self.dmu), Dual(self.sg, self.dsg)), (self.k.kpure, self.k.kdual))

    def ensures(self, case, path):
        yield "does_not_raise", path.outcome == "return"
        if path.outcome != "return":
            return
        k = self.k
        yield "one_noise_draw", len(NRM.sample_calls) == 1
        yield "continuation_called_once_and_its_result_returned", len(k.dcalls) == 1
        if len(NRM.sample_calls) != 1 or len(k.dcalls) != 1:
            return
        sc = NRM.sample_calls[0]
        d = k.dcalls[0][0]
        if case == "scalar":
            yield "noise_is_standard_normal_with_parameter_free_arguments", same(sc["args"][0], 0.0) and same(sc["args"][1], 1.0)
            eps = dists.DrawR(NRM.id, sc["nonce"], z3.RealVal(0), z3.RealVal(1))
            yield "primal_is_mu_plus_sigma_eps", same(d.primal, Sym(self.mu.e + self.sg.e * eps))
            yield "tangent_is_pathwise_derivative_for_the_noise_drawn", same(d.tangent, Sym(self.dmu.e + self.dsg.e * eps))
        else:
            i = fresh("i", z3.IntSort())
            a0, a1 = sc["args"]
            at = lambda x: x.fn((i,)) if isinstance(x, Tensor) else _lift(x)
            # one independent noise coordinate per element of the BROADCAST shape of (mu, sigma)
            yield "noise_is_standard_normal_of_the_broadcast_shape", isinstance(a0, Tensor) and isinstance(a1, Tensor) and dim_eq_(a0.shape[0], self.n) and z3.And(a0.fn((i,)) == 0, a1.fn((i,)) == 1)
            eps = dists.DrawRI(NRM.id, sc["nonce"], i, z3.RealVal(0), z3.RealVal(1))
            yield "primal_is_mu_plus_sigma_eps_with_independent_noise_per_coordinate", isinstance(d.primal, Tensor) and d.primal.fn((i,)) == at(self.mu) + at(self.sg) * eps
            yield "tangent_is_pathwise_derivative_for_the_noise_drawn", isinstance(d.tangent, Tensor) and d.tangent.fn((i,)) == at(self.dmu) + at(self.dsg) * eps
        yield "returns_the_continuations_dual_unchanged", k.returned_by_kdual(path.value)


@contract("genjax.adev:MultivariateNormalDiagREPARAM.prim_jvp_estimate", ["C11", "C17"])
class MvnDiagReparamC(_Prim):
    """x = loc + scale_diag * eps with one independent N(0,1) coordinate per element of the BROADCAST shape of
    (loc, scale_diag) - also when loc carries leading batch axes that scale_diag does not"""

    cases = ["vector", "batched_loc(B,n)_shared_scale(n)"]

    def call(self, case):
        reset()
        self.k = Kont(V)
        n = fresh("n", z3.IntSort())
        engine().assume(n >= 1)
        self.mu, self.sg, self.dmu, self.dsg = (Tensor.fresh(x, (n,)) for x in ("loc", "scale", "dloc", "dscale"))
        if case != "vector":
            B = fresh("B", z3.IntSort())
            engine().assume(B >= 1)
            self.mu, self.dmu = Tensor.fresh("loc", (B, n)), Tensor.fresh("dloc", (B, n))
        return self.real(adev.MultivariateNormalDiagREPARAM().prim_jvp_estimate, (Dual(self.mu, self.dmu), Dual(self.sg, self.dsg)), (self.k.kpure, self.k.kdual))

    def ensures(self, case, path):
        yield "does_not_raise", path.outcome == "return"
        if path.outcome != "return":
            return
        k = self.k
        yield "one_noise_draw_one_continuation_call", len(NRM.sample_calls) == 1 and len(k.dcalls) == 1
        if len(NRM.sample_calls) != 1 or len(k.dcalls) != 1:
            return
        sc, d = NRM.sample_calls[0], k.dcalls[0][0]
        i = fresh("i", z3.IntSort())
        if case != "vector":
            b = fresh("b", z3.IntSort())
            eps = dists.DrawRI2(NRM.id, sc["nonce"], b, i, z3.RealVal(0), z3.RealVal(1))
            ok = isinstance(d.primal, Tensor) and len(d.primal.shape) == 2 and isinstance(d.tangent, Tensor) and len(d.tangent.shape) == 2
            yield "result_has_the_broadcast_shape", ok
            if ok:
                yield "primal_is_loc_plus_scale_eps_with_independent_noise_per_element_of_the_broadcast_shape", d.primal.fn((b, i)) == self.mu.fn((b, i)) + self.sg.fn((i,)) * eps
                yield "tangent_is_pathwise_derivative", d.tangent.fn((b, i)) == self.dmu.fn((b, i)) + self.dsg.fn((i,)) * eps
            return
        eps = dists.DrawRI(NRM.id, sc["nonce"], i, z3.RealVal(0), z3.RealVal(1))
        yield "primal_is_loc_plus_scale_eps", d.primal.fn((i,)) == self.mu.fn((i,)) + self.sg.fn((i,)) * eps
        yield "tangent_is_pathwise_derivative", d.tangent.fn((i,)) == self.dmu.fn((i,)) + self.dsg.fn((i,)) * eps
        yield "returns_the_continuations_dual_unchanged", self.k.returned_by_kdual(path.value)


@contract("genjax.adev:UniformREPARAM.prim_jvp_estimate", ["C11"])
class UniformReparamC(_Prim):
    """x = low + (high - low) * eps, eps ~ U(0,1) parameter-free"""

    cases = ["scalar"]

    def call(self, case):
        reset()
        self.k = Kont(z3.RealSort())
        self.lo, self.hi, self.dlo, self.dhi = real("low"), real("high"), real("dlow"), real("dhigh")
        return self.real(adev.UniformREPARAM().prim_jvp_estimate, (Dual(self.lo, self.dlo), Dual(self.hi, self.dhi)), (self.k.kpure, self.k.kdual))

    def ensures(self, case, path):
        yield "does_not_raise", path.outcome == "return"
        if path.outcome != "return":
            return
        k = self.k
        yield "one_noise_draw_one_continuation_call", len(UNI.sample_calls) == 1 and len(k.dcalls) == 1
        if len(UNI.sample_calls) != 1 or len(k.dcalls) != 1:
            return
        sc, d = UNI.sample_calls[0], k.dcalls[0][0]
        yield "noise_is_U(0,1)_with_parameter_free_arguments", same(sc["args"][0], 0.0) and same(sc["args"][1], 1.0)
        eps = dists.DrawR(UNI.id, sc["nonce"], z3.RealVal(0), z3.RealVal(1))
        yield "primal_is_low_plus_(high-low)_eps", same(d.primal, Sym(self.lo.e + (self.hi.e - self.lo.e) * eps))
        yield "tangent_is_pathwise_derivative", same(d.tangent, Sym(self.dlo.e + (self.dhi.e - self.dlo.e) * eps))
        yield "returns_the_continuations_dual_unchanged", self.k.returned_by_kdual(path.value)


@contract("genjax.adev:MultivariateNormalREPARAM.prim_jvp_estimate", ["C11", "C17"])
class MvnReparamC(_Prim):
    """x = loc + chol(cov) @ eps with eps ~ N(0, I) parameter-free; tangent loc' + dchol(cov)[cov'] @ eps"""

    cases = ["vector"]

    def call(self, case):
        reset()
        self.k = Kont(V)
        n = fresh("n", z3.IntSort())
        engine().assume(n >= 1)
        self.n = n
        self.loc, self.dloc = Tensor.fresh("loc", (n,)), Tensor.fresh("dloc", (n,))
        self.cov, self.dcov = Tensor.fresh("cov", (n, n)), Tensor.fresh("dcov", (n, n))
        return self.real(adev.MultivariateNormalREPARAM().prim_jvp_estimate, (Dual(self.loc, self.dloc), Dual(self.cov, self.dcov)), (self.k.kpure, self.k.kdual))

    def ensures(self, case, path):
        yield "does_not_raise", path.outcome == "return"
        if path.outcome != "return":
            return
        k = self.k
        yield "one_continuation_call", len(k.dcalls) == 1
        if len(k.dcalls) != 1:
            return
        d = k.dcalls[0][0]
        loc0, cov0, nu = MVN.last
        i, j = fresh("i", z3.IntSort()), fresh("j", z3.IntSort())
        yield "noise_is_N(0,I)_parameter_free", z3.And(loc0.fn((i,)) == 0, cov0.fn((i, j)) == z3.If(i == j, z3.RealVal(1), z3.RealVal(0)))
        eps = lambda kk: z3.Function("MvnDraw", z3.IntSort(), z3.IntSort(), V, V, z3.RealSort())(nu, kk, enc(loc0), enc(cov0))
        pe, te = enc(self.cov), enc(self.dcov)
        yield "primal_is_loc_plus_chol(cov)_eps", d.primal.fn((i,)) == self.loc.fn((i,)) + mk_sum(self.n, lambda kk: CholV(pe, i, kk) * eps(kk))
        yield "tangent_is_pathwise_derivative", d.tangent.fn((i,)) == self.dloc.fn((i,)) + mk_sum(self.n, lambda kk: DCholF(pe, te, i, kk) * eps(kk))
        yield "returns_the_continuations_dual_unchanged", self.k.returned_by_kdual(path.value)


@contract("genjax.adev:FlipEnumParallel.prim_jvp_estimate", ["C11"])
class FlipEnumParallelC(_Prim):
    """exact, by evaluating the continuation on the support [True, False] in parallel and pairing it with [p, 1-p]"""

    cases = ["scalar"]
    native = "parallel"

    def call(self, case):
        reset()
        self.k = Kont(z3.BoolSort())
        return self.real(adev.FlipEnumParallel().prim_jvp_estimate, self.p_dual(), (self.k.kpure, self.k.kdual))

    def ensures(self, case, path):
        yield "does_not_raise", path.outcome == "return"
        if path.outcome != "return":
            return
        k, p, dp = self.k, self.p.e, self.dp.e
        T, F = z3.BoolVal(True), z3.BoolVal(False)
        out = path.value
        yield "value_is_exact_expectation", same(out.primal, Sym(p * k.KP(T) + (1 - p) * k.KP(F)))
        yield "tangent_is_exact_derivative", same(out.tangent, Sym(dp * (k.KP(T) - k.KP(F)) + p * k.KT(T) + (1 - p) * k.KT(F)))
        yield "no_sampling(zero_variance)", not FLIPS.calls


@contract("genjax.adev:CategoricalEnumParallel.prim_jvp_estimate", ["C11"])
class CategoricalEnumParallelC(_Prim):
    """exact: sum_k softmax(logits)_k f(k) with the support arange(K) paired index-wise with the weights"""

    cases = ["vector"]
    native = "parallel"

    def call(self, case):
        reset()
        self.k = Kont(z3.IntSort())
        self.K = fresh("K", z3.IntSort())
        engine().assume(self.K >= 1)
        self.lg, self.dlg = Tensor.fresh("logits", (self.K,)), Tensor.fresh("dlogits", (self.K,))
        adev.len = __import__("vt.maps", fromlist=["vt_len"]).vt_len
        return self.real(adev.CategoricalEnumParallel().prim_jvp_estimate, (Dual(self.lg, self.dlg),), (self.k.kpure, self.k.kdual))

    def ensures(self, case, path):
        yield "does_not_raise", path.outcome == "return"
        if path.outcome != "return":
            return
        k, K = self.k, self.K
        lp, lt = _lam1(self.lg), _lam1(self.dlg)
        out = path.value
        yield "value_is_exact_expectation", same(out.primal, Sym(mk_sum(K, lambda j: SoftF(lp, j) * k.KP(j))))
        yield "tangent_is_exact_derivative", same(out.tangent, Sym(mk_sum(K, lambda j: DSoftF(lp, lt, j) * k.KP(j) + SoftF(lp, j) * k.KT(j))))


@contract("genjax.adev:_flip_lane_rb_estimate", ["C11"], kind="bounded")
class FlipLanesC(_Prim):
    """BOUNDED (B = 1, 2, 3 lanes; the lane loop has a concrete trip count): per lane i the correction is
    (f(b with lane i = True) - f(b with lane i = False)) p'_i for EITHER value of b_i, so that averaging over the
    other lanes gives the exact partial derivative"""

    cases = ["B=1", "B=2", "B=3"]
    tiers = ("thorough",)  # superseded by the unbounded loop-invariant contract FlipLanesLoop; kept as a whole-function cross-check

    def call(self, case):
        reset()
        B = int(case[-1])
        self.B = B
        self.k = Kont(None, lanes=B)
        self.p, self.dp = Tensor.fresh("p", (B,)), Tensor.fresh("dp", (B,))
        return self.real(adev._flip_lane_rb_estimate, self.k.kpure, self.k.kdual, self.p, self.dp)

    def ensures(self, case, path):
        yield "does_not_raise", path.outcome == "return"
        if path.outcome != "return":
            return
        k, B = self.k, self.B
        yield "one_vector_of_bernoulli_draws", len(FLIPS.calls) == 1 and FLIPS.calls[0][0] is self.p
        if len(FLIPS.calls) != 1 or not k.dcalls:
            return
        b = k.dcalls[0][0].primal
        bs = [z3.simplify(b.fn((z3.IntVal(i),))) for i in range(B)]
        out = path.value
        yield "value_is_f(b)", same(out.primal, Sym(k.KP(tuple(bs))))
        with_lane = lambda i, val: tuple(z3.BoolVal(val) if j == i else bs[j] for j in range(B))
        corr = z3.Sum([(k.KP(with_lane(i, True)) - k.KP(with_lane(i, False))) * self.dp.fn((z3.IntVal(i),)) for i in range(B)])
        yield "tangent_is_f'(b)_plus_sum_i_(f(b|i=T)-f(b|i=F))_p'_i", same(out.tangent, Sym(k.KT(tuple(bs)) + corr))


class _SymRange:
    """shadow of `range` for the lane loop: a symbolic trip count is kept as it is (the loop itself is replaced by
    its invariant)"""

    def __init__(self, n):
        self.n = n


class KontArr:
    """abstract continuation of a VECTOR of booleans of symbolic length: a function of the whole vector (an
    array Int -> Bool); kdual(Dual(b, zero tangent)) = Dual(KP(b), KT(b))"""

    def __init__(self, barr, B):
        n = engine().fresh_name
        A = z3.ArraySort(z3.IntSort(), z3.BoolSort())
        self.KP = z3.Function(n("KPv"), A, z3.RealSort())
        self.KT = z3.Function(n("KTv"), A, z3.RealSort())
        self.barr, self.B = barr, B
        self.dcalls = []

    def as_array(self, t):
        """array term of a boolean vector built from the drawn vector `barr` by (at most) one functional update"""
        if not isinstance(t, Tensor) or t.ndim != 1:
            raise EngineLimit("continuation of a non-vector")
        j = z3.Int("lane!j")
        e = z3.simplify(t.fn((j,)))
        if z3.eq(e, z3.simplify(z3.Select(self.barr, j))):
            return self.barr
        # b.at[i].set(v): If(j == i, v, barr[j])
        if z3.is_app(e) and e.decl().kind() == z3.Z3_OP_ITE:
            c, v, rest = e.children()
            if z3.eq(z3.simplify(rest), z3.simplify(z3.Select(self.barr, j))) and z3.is_eq(c):
                l, r = c.children()
                i = r if z3.eq(l, j) else l if z3.eq(r, j) else None
                if i is not None and not AD_mentions(v, j) and not AD_mentions(i, j):
                    return z3.Store(self.barr, i, v)
        return z3.Lambda([j], e)

    def kdual(self, *duals):
        self.dcalls.append(duals)
        if len(duals) != 1 or not isinstance(duals[0], Dual):
            raise documented(TypeError("continuation expects exactly one Dual"))
        d = duals[0]
        if not AD.is_zero_tangent(d.tangent):
            raise EngineLimit("lane continuation with a non-zero tangent")
        a = self.as_array(d.primal)
        return Dual(Sym(self.KP(a)), Sym(self.KT(a)))

    def kpure(self, *vals):
        # see Kont.kpure: the pure continuation replays the staged downstream draws when unseeded (a different function)
        Assumed.note("pure continuation = remaining equations bound as staged: downstream sites replay the draw baked at staging when unseeded (KPfrozen), only under seed is it a fresh evaluation")
        if not hasattr(self, "KPfrozen"):
            self.KPfrozen = z3.Function(engine().fresh_name("KPvfrozen"), z3.ArraySort(z3.IntSort(), z3.BoolSort()), z3.RealSort())
        return [Sym(self.KPfrozen(self.as_array(vals[0])))]


def AD_mentions(e, what):
    if z3.eq(e, what):
        return True
    return any(AD_mentions(c, what) for c in e.children())


@contract("genjax.adev:_flip_lane_rb_estimate", ["C11"])
class FlipLanesLoop(_Prim):
    """UNBOUNDED (any number of lanes B >= 1): loop invariant of the lane loop on the mechanically extracted pieces.
    Ghost: PS(i) = sum_{j<i} (f(b|j=T) - f(b|j=F)) p'_j.  prefix: one vector of Bernoulli(p) draws b, value f(b),
    est = PS(0) = 0, the loop runs over range(B);  body at a generic lane i with est = PS(i): est' = PS(i) +
    (f(b|i=T) - f(b|i=F)) p'_i for EITHER value of b_i (array theory: Store(b, i, b_i) = b);  suffix: (f(b), f'(b) +
    PS(B)).  By the loop-invariant rule the tangent is f'(b) + sum_i (f(b|i=T) - f(b|i=F)) p'_i, whose average over
    the other lanes is the exact partial derivative"""

    cases = ["prefix", "body", "suffix"]

    def call(self, case):
        from vt import loops

        reset()
        eng = engine()
        self.B = fresh("B", z3.IntSort())
        eng.assume(self.B >= 1)
        self.barr = fresh("b_drawn", z3.ArraySort(z3.IntSort(), z3.BoolSort()))
        self.k = KontArr(self.barr, self.B)
        self.p, self.dp = Tensor.fresh("p", (self.B,)), Tensor.fresh("dp", (self.B,))
        outer = self
        self.draws = []

        class LaneFlip:
            def sample(s, p, sample_shape=()):
                Assumed.note("A-TFP: flip.sample(p) for a vector p is a vector of independent Bernoulli(p_i) draws (an arbitrary boolean vector b)")
                outer.draws.append(p)
                return Tensor(p.shape, lambda idx: z3.Select(outer.barr, idx[0]))

        self.pc = loops.pieces(adev._flip_lane_rb_estimate, 0)
        if self.pc["n_loops"] != 1 or len(self.pc["targets"]) != 1:
            raise EngineLimit("lane loop restructured: %r loops, targets %r" % (self.pc["n_loops"], self.pc["targets"]))
        names = self.pc["locals"]
        for nm in ("kdual", "p_primal", "p_tangent"):
            if nm not in names:
                raise EngineLimit("lane loop piece has no parameter %r" % nm)
        self.acc = None  # the accumulator local is identified by role below (a renamed local must not matter)
        saved = (adev.flip, getattr(adev, "int", None), getattr(adev, "range", None))
        adev.flip = LaneFlip()
        adev.int = lambda x: x if isinstance(x, Sym) else int(x)
        adev.range = _SymRange
        try:
            base = {n: None for n in names}
            base.update(kpure=self.k.kpure, kdual=self.k.kdual, p_primal=self.p, p_tangent=self.dp)
            kind, locs = self.real(self.pc["prefix"], **base)
            if case == "prefix":
                _k, it = self.pc["iter"](**locs)
                self.iter = it
                self.acc = self._accumulator(locs) if kind == "fallthrough" else None
                return kind, locs
            if kind != "fallthrough":
                raise EngineLimit("prefix returned early")
            self.n_kcalls = len(self.k.dcalls)
            self.acc = self._accumulator(locs)
            # arbitrary loop state satisfying the invariant: est = PS(i)
            self.PS = z3.Function(eng.fresh_name("PS"), z3.IntSort(), z3.RealSort())
            if case == "body":
                self.i = fresh("lane", z3.IntSort())
                eng.assume(z3.And(self.i >= 0, self.i < self.B))
                locs = dict(locs)
                locs[self.pc["targets"][0]] = Sym(self.i)  # the loop variable, whatever it is called
                locs[self.acc] = Sym(self.PS(self.i))
                return self.real(self.pc["body"], **locs)
            locs = dict(locs)
            locs[self.acc] = Sym(self.PS(self.B))
            return self.real(self.pc["suffix"], **locs)
        finally:
            adev.flip = saved[0]
            for nm, v in (("int", saved[1]), ("range", saved[2])):
                if v is None:
                    adev.__dict__.pop(nm, None)
                else:
                    setattr(adev, nm, v)

    def _accumulator(self, locs):
        """the loop's accumulator BY ROLE: the real local that the prefix initialises to zero (zeros_like of the value)
        - the only numeric zero among the locals the prefix defines"""
        zeros = [n for n, v in locs.items() if isinstance(v, Sym) and v.e.sort() == z3.RealSort() and z3.is_rational_value(z3.simplify(v.e)) and z3.simplify(v.e).numerator_as_long() == 0]
        if len(zeros) != 1:
            raise EngineLimit("lane loop: cannot identify the accumulator by role (zero-initialised reals: %r)" % (zeros,))
        return zeros[0]

    def term(self, i):
        k = self.k
        return (k.KP(z3.Store(self.barr, i, z3.BoolVal(True))) - k.KP(z3.Store(self.barr, i, z3.BoolVal(False)))) * self.dp.fn((i,))

    def ensures(self, case, path):
        yield "does_not_raise", path.outcome == "return"
        if path.outcome != "return":
            return
        k = self.k
        if case == "prefix":
            kind, locs = path.value
            yield "falls_through_to_the_loop", kind == "fallthrough"
            if kind != "fallthrough":
                return
            yield "one_vector_of_bernoulli_draws_with_the_given_probabilities", len(self.draws) == 1 and self.draws[0] is self.p
            yield "continuation_evaluated_once_on_the_drawn_vector", len(k.dcalls) == 1
            yield "estimate_starts_at_zero(PS(0))", self.acc is not None and same(locs[self.acc], 0.0)
            yield "loop_runs_over_every_lane(range(B))", isinstance(self.iter, _SymRange) and same(self.iter.n, Sym(self.B))
            return
        if case == "body":
            kind, locs = path.value
            yield "invariant_preserved(est' = PS(i) + (f(b|i=T) - f(b|i=F)) p'_i for either value of b_i)", same(locs[self.acc], Sym(self.PS(self.i) + self.term(self.i)))
            yield "one_more_continuation_call_per_lane", len(k.dcalls) == self.n_kcalls + 1
            return
        kind, out = path.value
        yield "returns", kind == "return" and isinstance(out, Dual)
        if kind == "return" and isinstance(out, Dual):
            yield "value_is_f(b)", same(out.primal, Sym(k.KP(self.barr)))
            yield "tangent_is_f'(b)_plus_the_accumulated_lane_corrections(PS(B))", same(out.tangent, Sym(k.KT(self.barr) + self.PS(self.B)))


# ------------------------------------------------------------------------------------------------
# pairing of sampler / keyed sampler / logpdf in the exported estimator distributions (C11: under seed the draw must
# follow the density the estimator differentiates)


class TfpRec2:
    def __init__(self, log, cls, args, kwargs):
        self.rec = (cls, args, kwargs)
        log.append(self.rec)

    def sample(self, **k):
        return ("draw", self.rec)

    def log_prob(self, v):
        return ("logp", self.rec)


def bound_params(cls_name, args, kwargs):
    import inspect
    import tensorflow_probability.substrates.jax as tfp

    if not hasattr(tfp.distributions, cls_name):
        raise EngineLimit("constructor %r is not a TFP distribution class" % (cls_name,))
    names = [p for p in inspect.signature(getattr(tfp.distributions, cls_name).__init__).parameters if p != "self"]
    b = dict(zip(names, args))
    b.update(kwargs)
    return {k: v for k, v in b.items() if k not in ("dtype", "validate_args", "allow_nan_stats", "name")}


@contract("genjax.adev:<reinforce distributions>", ["C11", "C17", "C13"])
class ReinforcePairing(_NoReplay):
    """for flip/geometric/normal/uniform/multivariate_normal _reinforce: the keyed sampler used under seed and the
    density used by the estimator (and by assess) denote the SAME TFP distribution with the SAME parameter binding"""

    target = "genjax.adev:<reinforce distributions>"
    cases = ["flip_reinforce", "geometric_reinforce", "normal_reinforce", "uniform_reinforce", "multivariate_normal_reinforce"]
    native = "geometric"

    def __init__(self):
        self.mod = self.owner = self.fn = None

    def call(self, case):
        from .distributions import parts

        reset()
        dist = getattr(adev, case)
        self.dist = dist
        prim = dist._sample.value
        self.prim = prim
        base = {"flip_reinforce": "flip", "geometric_reinforce": "geometric", "normal_reinforce": "normal", "uniform_reinforce": "uniform", "multivariate_normal_reinforce": "multivariate_normal"}[case]
        D = loader.load("distributions")
        self.base = getattr(D, base)
        self.n_args = 1 if base in ("flip", "geometric") else 2
        self.args = tuple(value("a%d" % i) for i in range(self.n_args))
        # (1) keyed sampler of the estimator primitive, against a recording TFP namespace
        self.log_keyed = []
        lk = self.log_keyed
        stub = StubNS()
        for nm in ("Bernoulli", "Geometric", "Normal", "Uniform", "MultivariateNormalFullCovariance", "Categorical", "MultivariateNormalDiag"):
            setattr(stub, nm, (lambda nm: lambda *a, **k: TfpRec2(lk, nm, a, k))(nm))
        self._tfd = adev.tfd
        adev.tfd = stub
        try:
            self.real(prim.keyful_sample_function.value, value("key"), *self.args, sample_shape=())
        finally:
            adev.tfd = self._tfd
        # (2) the base distribution's own constructor (what sample_function / differentiable_logpdf / dist.logpdf use)
        smp, lpf, ks, lp, cs, cl = parts(self.base)
        ctor = cs.cell_contents
        self.log_base = []
        lb = self.log_base
        import inspect

        if inspect.isfunction(ctor):  # a constructor written in the repository (a lambda or a helper): run it on a recording TFP
            self._dtfd = D.tfd
            D.tfd = stub2 = StubNS()
            for nm in ("Bernoulli", "Geometric", "Normal", "Uniform", "MultivariateNormalFullCovariance", "Categorical", "MultivariateNormalDiag"):
                setattr(stub2, nm, (lambda nm: lambda *a, **k: TfpRec2(lb, nm, a, k))(nm))
            try:
                self.real(ctor, *self.args)
            finally:
                D.tfd = self._dtfd
        else:
            lb.append((ctor.__name__, self.args, {}))
        return None

    def ensures(self, case, path):
        prim = self.prim
        yield "estimator_is_REINFORCE", isinstance(prim, adev.REINFORCE)
        yield "keyless_sampler_and_estimator_logpdf_are_the_base_distributions", getattr(prim.sample_function.value, "__self__", None) is self.base and getattr(prim.differentiable_logpdf.value, "__self__", None) is self.base
        yield "assess_logpdf_is_the_base_distributions", getattr(self.dist._logpdf.value, "__self__", None) is self.base
        yield "one_TFP_object_each", len(self.log_keyed) == 1 and len(self.log_base) == 1
        if len(self.log_keyed) == 1 and len(self.log_base) == 1:
            (c1, a1, k1), (c2, a2, k2) = self.log_keyed[0], self.log_base[0]
            yield "same_TFP_distribution", c1 == c2
            b1, b2 = bound_params(c1, a1, k1), bound_params(c2, a2, k2)
            yield "same_parameter_binding(keyed_sampler_vs_density)", set(b1) == set(b2) and all(b1[k] is b2[k] for k in b1)


@contract("genjax.adev:sample_primitive", ["C11", "C06"])
class SamplePrimitive(_NoReplay):
    """an ADEV site is bound on adev_sample_p, carries the primitive, and its keyed sampler is the primitive's own"""

    cases = ["default"]

    def call(self, case):
        reset()
        self.rec = []
        outer = self

        def fake_binder(ks, name=None, sample_shape=(), support=None, primitive=None, primitive_params=None):
            outer.rec.append({"ks": ks, "primitive": primitive, "params": primitive_params})
            return lambda *a: outer.rec.append({"call": a}) or "site"

        self._o = adev.sample_binder
        adev.sample_binder = fake_binder
        self.keyed = []

        class P:
            def sample_with_key(s, key, *a, sample_shape=()):
                outer.keyed.append((key, a, sample_shape))
                return "keyed-draw"

        self.P = P()
        self.args = (value("a0"),)
        try:
            return self.real(adev.sample_primitive, self.P, *self.args)
        finally:
            adev.sample_binder = self._o

    def ensures(self, case, path):
        yield "does_not_raise", path.outcome == "return"
        if path.outcome != "return":
            return
        r = self.rec
        yield "bound_on_adev_sample_p_carrying_the_primitive", len(r) == 2 and r[0]["primitive"] is pjax.adev_sample_p and r[0]["params"] == {"adev_prim": self.P}
        yield "arguments_forwarded", r[1]["call"] == self.args
        out = r[0]["ks"]("K", "x", sample_shape=(2,), extra=1)
        yield "keyed_sampler_is_the_primitives_sample_with_key", out == "keyed-draw" and self.keyed == [("K", ("x",), (2,))]

from vt.contract import track as _track  # noqa: E402

_track(FLIPS.calls, (NRM, "sample_calls"), (UNI, "sample_calls"), GRADS, S.STAGE.calls)

from vt.contract import canary as _canary  # noqa: E402

_canary(FlipEnumC, "scalar", "tangent_is_exact_derivative")
_canary(FlipMVDC, "scalar", "tangent_is_f'(b)_plus_(f_T-f_F)p'_for_either_outcome")
