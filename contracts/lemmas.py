"""Client lemmas over the GFI contracts (pure SMT): the property-level statements that relate several
operations.  Each is a small formula whose hypotheses are contract postconditions proved elsewhere."""
from __future__ import annotations

import z3

from vt.contract import Contract, contract
from vt.sym import PathSort, V


@contract("lemma:update_weights_telescope", ["C05", "C03"], kind="lemma")
class Telescope(Contract):
    """G4 twice: w1 = D(a2,x2) - D(a1,x1), w2 = D(a3,x3) - D(a2,x2)  =>  w1 + w2 = D(a3,x3) - D(a1,x1):
    the sum depends only on the first and last (choices, arguments) pair."""

    cases = ["two_updates", "three_updates"]

    def call(self, case):
        return None

    def ensures(self, case, path):
        D = [z3.Real("D%d" % i) for i in range(5)]
        w = [z3.Real("w%d" % i) for i in range(4)]
        k = 2 if case == "two_updates" else 3
        hyp = [w[i] == D[i + 1] - D[i] for i in range(k)]
        yield "sum_is_last_minus_first", z3.Implies(z3.And(*hyp), z3.Sum(w[:k]) == D[k] - D[0])


@contract("lemma:update_round_trip", ["C03"], kind="lemma")
class RoundTrip(Contract):
    """leaf level, from G4 (x' = c on dom c, x elsewhere; d = old values on dom c; w = D(a',x') - D(a,x)):
    updating back with the discard and the old arguments restores every leaf and negates the weight."""

    cases = ["pointwise"]

    def call(self, case):
        return None

    def ensures(self, case, path):
        p = z3.Const("p", PathSort)
        X, C_, X1, Dd, X2 = (z3.Function(n, PathSort, V) for n in ("X", "C", "X1", "Dsc", "X2"))
        inX, inC, inD = (z3.Function(n, PathSort, z3.BoolSort()) for n in ("inX", "inC", "inD"))
        g4_first = [
            z3.Implies(inC(p), inX(p)),  # constraints address existing choices
            X1(p) == z3.If(inC(p), C_(p), X(p)),
            inD(p) == inC(p),
            z3.Implies(inD(p), Dd(p) == X(p)),
        ]
        g4_back = [X2(p) == z3.If(inD(p), Dd(p), X1(p))]
        yield "choices_restored", z3.Implies(z3.And(*g4_first, *g4_back), X2(p) == X(p))
        D0, D1, D2, w, wb = z3.Reals("D0 D1 D2 w wb")
        yield "weight_negated", z3.Implies(z3.And(w == D1 - D0, wb == D2 - D1, D2 == D0), wb == -w)


@contract("lemma:simulate_assess_coupling", ["C01"], kind="lemma")
class Coupling(Contract):
    """handler invariants in lock-step on one body: if before a site score_S = -logp_A and both handlers
    see the same (callee, args) and the assessed choice is the simulated one, the same holds after the
    site and both return the same value to the body (so the bodies stay in lock-step)."""

    cases = ["step"]

    def call(self, case):
        return None

    def ensures(self, case, path):
        sS, lA, s_tr, Dg = z3.Reals("score_S logp_A tr_score D_g")
        rS, rA, Rg = z3.Consts("ret_S ret_A R_g", V)
        sim_step = [z3.Real("score_S2") == sS + s_tr, rS == Rg, s_tr == -Dg]  # Simulate step + callee coherent
        ass_step = [z3.Real("logp_A2") == lA + Dg, rA == Rg]  # Assess step on the same choice
        yield "relation_preserved", z3.Implies(z3.And(sS == -lA, *sim_step, *ass_step), z3.Real("score_S2") == -z3.Real("logp_A2"))
        yield "same_value_returned_to_body", z3.Implies(z3.And(*sim_step, *ass_step), rS == rA)


@contract("lemma:generate_weight_is_sum_of_constrained_sites", ["C02"], kind="lemma")
class GenWeight(Contract):
    """Generate step: weight' = weight + (constrained ? w_callee : 0).  With callees satisfying G3
    (w = D - Q, 0 when unconstrained, D when totally constrained) the accumulated weight is
    D_total - Q_total; in particular it is the density when every site is constrained and 0 when none is."""

    cases = ["step"]

    def call(self, case):
        return None

    def ensures(self, case, path):
        W, W2, D, D2, Q, Q2, d, q, w = z3.Reals("W W2 Dacc Dacc2 Qacc Qacc2 d q w")
        c = z3.Bool("constrained")
        step = [W2 == W + w, D2 == D + d, Q2 == Q + q, w == d - q, z3.Implies(z3.Not(c), w == 0)]
        yield "accumulated_weight_is_D_minus_Q", z3.Implies(z3.And(W == D - Q, *step), W2 == D2 - Q2)
        yield "all_constrained_gives_density", z3.Implies(z3.And(W == D, *step, q == 0), W2 == D2)
        yield "none_constrained_gives_zero", z3.Implies(z3.And(W == 0, *step, z3.Not(c)), W2 == 0)
