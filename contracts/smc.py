"""C10 (proper weighting, evidence estimate) and C12 (resampling) — contracts on genjax/inference/smc.py with
abstract target / proposal generative functions (GFI contract only), the lane-wise vmap contract, stub
distributions and reductions.  The code is proved to compute the textbook weight recursions; unbiasedness
of exp(log_marginal_likelihood) from proper weighting is cited (A-MATH)."""
from __future__ import annotations

import types
from vt.stubs.ns import StubNS

import z3

from vt import loader
from vt.contract import Contract, contract
from vt.gfi import AbsGF, AbsTrace, LaneNonce, enc, enc_args
from vt.stubs import dists, jnp as jnp_stub, jtu as jtu_stub, lax as lax_stub, vmap as vmap_stub
from vt.sym import Assumed, EngineLimit, Sym, V, _lift, boolean, engine, fresh, integer, real, value
from vt.tensor import Tensor, mk_lse, mk_sum, LOG, dim_eq
from . import _patch  # noqa: F401
from .core_gfi import same

core = loader.load("core")
smc = loader.load("inference.smc")

JNP = jnp_stub.namespace()
UNI, CAT = dists.StubDist("uniform"), dists.StubDist("categorical")
CATF = z3.Function("CategoricalDraw", z3.ArraySort(z3.IntSort(), z3.RealSort()), z3.IntSort(), z3.IntSort(), z3.IntSort(), z3.IntSort())


class CatStub:
    """categorical.sample(logits, sample_shape=(m,)): m i.i.d. draws from softmax(logits) (A-TFP)"""

    def __init__(self):
        self.calls = []

    def sample(self, logits, sample_shape=()):
        from vt.gfi import next_nonce
        from vt.tensor import _toreal, _dterm

        Assumed.note("A-TFP: categorical.sample(logits, sample_shape=(m,)) returns m i.i.d. indices with P(i) = softmax(logits)_i (unnormalised logits allowed)")
        nu = next_nonce()
        self.calls.append({"logits": logits, "sample_shape": sample_shape, "nonce": nu})
        i = z3.Int("cat!i")
        lam = z3.Lambda([i], _toreal(logits.fn((i,))))
        n = _dterm(logits.shape[0])
        return Tensor(tuple(sample_shape), lambda idx: CATF(lam, n, nu, idx[0]))


CATS = CatStub()
VMAP_REC = []


def jax_vmap(f, in_axes=0, **kw):
    return vmap_stub.modular_vmap(f, in_axes=in_axes, **kw)


smc.jnp = JNP
smc.jtu = jtu_stub.namespace()
smc.jax = StubNS(
    scipy=StubNS(special=StubNS(logsumexp=jnp_stub.logsumexp)),
    lax=StubNS(cond=lax_stub.cond, scan=lax_stub.scan),
    vmap=jax_vmap,
    numpy=JNP,
)
smc.modular_vmap = vmap_stub.modular_vmap
smc.categorical, smc.uniform = CATS, UNI


def reset():
    UNI.reset()
    CATS.calls.clear()
    for v in jnp_stub.CALLS.values():
        v.clear()


def lse(n, t):
    return mk_lse(n, lambda i: t.fn((i,)))


class _NoReplay(Contract):
    def replay(self, case, clause, model, path):
        return {"tier": "API-model", "confirmed": False, "note": "SMC moves run through modular_vmap / built-in distributions, which cannot execute on the sandbox's JAX 0.11"}


def particles(n, g, name="p", est=None):
    """a vectorised collection: lane i is a coherent trace of g"""
    x = Tensor.fresh(name + "_x", (n,), V)
    aold = Tensor.fresh(name + "_args", (n,), V)
    score = Tensor((n,), lambda idx: -g.D(aold.fn(idx), x.fn(idx)))
    ret = Tensor((n,), lambda idx: g.R(aold.fn(idx), x.fn(idx)))
    tr = AbsTrace(g, aold, x, ret, score)
    w = Tensor.fresh(name + "_logw", (n,))
    dw = Tensor.fresh(name + "_diag", (n,))
    est = real(name + "_estimate") if est is None else est
    return smc.ParticleCollection(traces=tr, log_weights=w, diagnostic_weights=dw, n_samples=core.Const(Sym(n)), log_marginal_estimate=est)


def n_sym(name="n"):
    n = fresh(name, z3.IntSort())
    engine().assume(n >= 1)
    return n


@contract("genjax.inference.smc:effective_sample_size", ["C10"])
class ESS(_NoReplay):
    cases = ["default"]

    def call(self, case):
        reset()
        self.n = n_sym()
        self.w = Tensor.fresh("w", (self.n,))
        return self.real(self.fn, self.w)

    def ensures(self, case, path):
        yield "does_not_raise", path.outcome == "return"
        if path.outcome == "return":
            n, w = self.n, self.w
            L = lse(n, w)
            want = 1 / Sym(mk_sum(n, lambda i: JNP.exp(Sym(w.fn((i,)) - L)).e * JNP.exp(Sym(w.fn((i,)) - L)).e))
            yield "one_over_sum_of_squared_normalised_weights", same(path.value, want)


@contract("genjax.inference.smc:ParticleCollection.log_marginal_likelihood", ["C10", "C12"])
class LML(_NoReplay):
    cases = ["default"]

    def call(self, case):
        reset()
        self.n = n_sym()
        self.p = particles(self.n, AbsGF("m"))
        return self.real(self.fn, self.p)

    def ensures(self, case, path):
        yield "does_not_raise", path.outcome == "return"
        if path.outcome == "return":
            p, n = self.p, self.n
            yield "accumulated_plus_logmeanexp_of_current_weights", same(
                path.value, Sym(_lift(p.log_marginal_estimate) + lse(n, p.log_weights) - LOG(z3.ToReal(n)))
            )


@contract("genjax.inference.smc:_create_particle_collection", ["C10", "C12"])
class CreatePC(_NoReplay):
    cases = ["defaults", "given"]

    def call(self, case):
        reset()
        self.n = n_sym()
        self.w = Tensor.fresh("w", (self.n,))
        self.tr = object()
        self.est, self.dw = real("est"), Tensor.fresh("dw", (self.n,))
        self.N = core.Const(Sym(self.n))
        if case == "defaults":
            return self.real(self.fn, self.tr, self.w, self.N)
        return self.real(self.fn, self.tr, self.w, self.N, self.est, self.dw)

    def ensures(self, case, path):
        yield "does_not_raise", path.outcome == "return"
        if path.outcome != "return":
            return
        p = path.value
        yield "fields_stored", p.traces is self.tr and p.log_weights is self.w and p.n_samples is self.N
        if case == "defaults":
            yield "estimate_defaults_to_0", same(p.log_marginal_estimate, 0.0)
            i = fresh("i", z3.IntSort())
            yield "diagnostic_weights_default_to_normalised_weights", p.diagnostic_weights.fn((i,)) == self.w.fn((i,)) - lse(self.n, self.w)
        else:
            yield "given_estimate_and_diagnostics_kept", p.log_marginal_estimate is self.est and p.diagnostic_weights is self.dw


@contract("genjax.inference.smc:init", ["C10"])
class Init(_NoReplay):
    """lane i = target.generate(constraints, *target_args) (default) or proposal.simulate -> merge with the
    constraints -> target.generate(merged) with log w = w_target + (-log q) (custom proposal)"""

    cases = ["default_proposal", "custom_proposal", "custom_proposal:nested_dict_choice_maps"]

    def call(self, case):
        reset()
        self.n = n_sym()
        self.g = AbsGF("target")
        self.q = AbsGF("proposal") if case.startswith("custom_proposal") else None
        self.targs = (value("t0"), value("t1"))
        self.c = value("constraints")
        if "nested_dict" in case:
            # hierarchical choice maps as plain nested dicts: the proposal proposes {"a": .., "s": {"z": ..}}, the
            # observations constrain {"s": {"y": ..}} - the SAME sub-call "s" on both sides.  The target is an `Fn`
            # as far as merging goes (its merge is the real, recursive Fn.merge, itself under contract)
            outer = self
            A, Z = (z3.Function(engine().fresh_name(nm), V, V) for nm in ("prop_a", "prop_z"))
            self.A, self.Z = A, Z
            dummy_fn = core.Fn(core.Const(lambda: None))
            self.g.merge = lambda x, x_, check=None: (self.g.calls.append(("merge", (x, x_, check), {})), core.Fn.merge(dummy_fn, x, x_, check))[1]
            real_sim = self.q.simulate

            def simulate(*args, **kwargs):
                tr = real_sim(*args, **kwargs)
                d = tr.x.e
                return AbsTrace(self.q, tr.args, {"a": Sym(A(d)), "s": {"z": Sym(Z(d))}}, tr.retval, tr.score)

            self.q.simulate = simulate
            self.y = value("y_obs")
            self.c = {"s": {"y": self.y}}
        return self.real(self.fn, self.g, self.targs, core.Const(Sym(self.n)), self.c, self.q)

    def ensures(self, case, path):
        yield "does_not_raise", path.outcome == "return"
        if path.outcome != "return":
            return
        p = path.value
        g, q, n = self.g, self.q, self.n
        vc = path.extra.get("vmap_calls", [])
        yield "one_lanewise_map_over_n_particles_nothing_mapped", len(vc) == 1 and all(a is None for a in vc[0]["in_axes"]) and dim_eq(vc[0]["n"], n)
        yield "n_samples_recorded", dim_eq(p.n_samples.value, n)
        yield "estimate_starts_at_0", same(p.log_marginal_estimate, 0.0)
        a = enc_args(self.targs, {})
        i = fresh("i", z3.IntSort())
        rng = z3.And(i >= 0, i < n)
        if q is None:
            nu = LaneNonce(z3.IntVal(1), i)
            yield "lane_weight_is_targets_generate_weight_for_the_constraints", z3.Implies(rng, p.log_weights.fn((i,)) == g.GenW(a, self.c.e, nu))
            yield "lane_trace_is_the_generated_trace", z3.Implies(rng, p.traces.x.fn((i,)) == g.GenX(a, self.c.e, nu))
        elif "nested_dict" in case:
            aq = enc_args((self.c,) + self.targs, {})
            gen = [c for c in g.calls if c[0] == "generate"]
            yield "target_generates_once_per_lane", len(gen) == 1
            if len(gen) != 1:
                return
            m = gen[0][1][0]
            lanev = vc[0]["lane"] if len(vc) == 1 else None
            d = q.DrawF(aq, LaneNonce(z3.IntVal(1), lanev)) if lanev is not None else None
            ok_shape = isinstance(m, dict) and set(m) == {"a", "s"} and isinstance(m.get("s"), dict) and set(m["s"]) == {"z", "y"}
            yield "target_generates_on_the_DEEP_merge_of_proposed_choices_and_constraints(keys)", ok_shape
            if ok_shape and d is not None:
                yield "proposed_latents_inside_a_shared_sub_call_are_kept", z3.And(same(m["a"], Sym(self.A(d))), same(m["s"]["z"], Sym(self.Z(d))))
                yield "constraints_are_kept", same(m["s"]["y"], self.y)
        else:
            aq = enc_args((self.c,) + self.targs, {})
            nu1, nu2 = LaneNonce(z3.IntVal(1), i), LaneNonce(z3.IntVal(2), i)
            xq = q.DrawF(aq, nu1)
            m1, m2 = g.MergeF(xq, self.c.e, enc(None)), g.MergeF(self.c.e, xq, enc(None))
            got_w, got_x = p.log_weights.fn((i,)), p.traces.x.fn((i,))
            yield "proposal_simulated_on_(constraints, *target_args)", len([c for c in q.calls if c[0] == "simulate"]) == 1 and q.calls[0][1][0] is self.c and all(x is y for x, y in zip(q.calls[0][1][1:], self.targs))
            # precondition: the proposal's addresses are disjoint from the constrained ones, so the merge order is immaterial
            yield "weight_is_target_weight_of_merged_choices_minus_log_q", z3.Implies(
                rng, z3.Or(*[got_w == g.GenW(a, m, nu2) + (-q.D(aq, xq)) for m in (m1, m2)])
            )
            yield "target_generates_on_constraints_merged_with_proposed_choices", z3.Implies(rng, z3.Or(*[got_x == g.GenX(a, m, nu2) for m in (m1, m2)]))
            mc = [c for c in g.calls if c[0] == "merge"]
            yield "constraints_win_over_proposed_choices_in_init", len(mc) == 1 and mc[0][1][1] is self.c
        yield "diagnostic_weights_are_normalised_weights", z3.Implies(rng, p.diagnostic_weights.fn((i,)) == p.log_weights.fn((i,)) - lse(n, p.log_weights))


@contract("genjax.inference.smc:extend", ["C10"])
class Extend(_NoReplay):
    """new log weight = old + incremental weight of generate on the new observation (+ (-log q) for a custom
    extension proposal); estimate carried; per-particle arguments mapped along axis 0"""

    cases = ["default_proposal", "custom_proposal", "tuple_args"]

    def call(self, case):
        reset()
        self.n = n_sym()
        self.g0, self.g = AbsGF("old_target"), AbsGF("target")
        self.q = AbsGF("proposal") if case == "custom_proposal" else None
        self.p = particles(self.n, self.g0)
        self.c = value("obs")
        if case == "tuple_args":
            self.pargs = (Tensor.fresh("arg0", (self.n,), V), Tensor.fresh("arg1", (self.n,), V))
        else:
            self.pargs = Tensor.fresh("arg0", (self.n,), V)
        return self.real(self.fn, self.p, self.g, self.pargs, self.c, self.q)

    def ensures(self, case, path):
        yield "does_not_raise", path.outcome == "return"
        if path.outcome != "return":
            return
        r = path.value
        g, q, n, p = self.g, self.q, self.n, self.p
        i = fresh("i", z3.IntSort())
        rng = z3.And(i >= 0, i < n)
        lane_args = tuple(Sym(t.fn((i,))) for t in self.pargs) if isinstance(self.pargs, tuple) else (Sym(self.pargs.fn((i,))),)
        a = enc_args(lane_args, {})
        old_w = p.log_weights.fn((i,))
        vc = path.extra.get("vmap_calls", [])
        yield "traces_weights_and_arguments_mapped_along_axis_0", len(vc) == 1 and tuple(vc[0]["in_axes"]) == (0, 0, 0)
        if q is None:
            nu = LaneNonce(z3.IntVal(1), i)
            yield "weight_accumulates_incremental_weight", z3.Implies(rng, r.log_weights.fn((i,)) == old_w + g.GenW(a, self.c.e, nu))
            yield "lane_trace_is_the_generated_trace", z3.Implies(rng, r.traces.x.fn((i,)) == g.GenX(a, self.c.e, nu))
        else:
            old_x = p.traces.x.fn((i,))
            aq = enc_args((self.c, Sym(old_x)) + lane_args, {})
            nu1, nu2 = LaneNonce(z3.IntVal(1), i), LaneNonce(z3.IntVal(2), i)
            xq = q.DrawF(aq, nu1)
            ms = (g.MergeF(xq, self.c.e, enc(None)), g.MergeF(self.c.e, xq, enc(None)))
            yield "proposal_simulated_on_(constraints, old_choices, *args)", len([c for c in q.calls if c[0] == "simulate"]) == 1 and q.calls[0][1][0] is self.c
            yield "weight_accumulates_target_weight_minus_log_q", z3.Implies(
                rng, z3.Or(*[r.log_weights.fn((i,)) == old_w + g.GenW(a, m, nu2) + (-q.D(aq, xq)) for m in ms])
            )
        yield "estimate_carried_over", r.log_marginal_estimate is p.log_marginal_estimate
        yield "n_samples_unchanged", r.n_samples is p.n_samples


@contract("genjax.inference.smc:rejuvenate", ["C10"])
class Rejuvenate(_NoReplay):
    """rejuvenation moves leave weights, diagnostic weights and the estimate untouched; traces = kernel(lane)"""

    cases = ["default"]

    def call(self, case):
        reset()
        self.n = n_sym()
        self.g = AbsGF("target")
        self.p = particles(self.n, self.g)
        self.KX = z3.Function("KX", V, V)
        g = self.g

        def kernel(tr):
            x2 = self.KX(enc(tr.x))
            return AbsTrace(g, tr.args, Sym(x2), tr.retval, tr.score)

        return self.real(self.fn, self.p, kernel)

    def ensures(self, case, path):
        yield "does_not_raise", path.outcome == "return"
        if path.outcome != "return":
            return
        r, p, n = path.value, self.p, self.n
        i = fresh("i", z3.IntSort())
        rng = z3.And(i >= 0, i < n)
        yield "weights_untouched", z3.Implies(rng, r.log_weights.fn((i,)) == p.log_weights.fn((i,)))
        yield "diagnostic_weights_untouched", r.diagnostic_weights is p.diagnostic_weights
        yield "estimate_untouched", r.log_marginal_estimate is p.log_marginal_estimate
        yield "lane_trace_is_kernel_of_lane_trace", z3.Implies(rng, r.traces.x.fn((i,)) == self.KX(p.traces.x.fn((i,))))
        yield "n_samples_unchanged", r.n_samples is p.n_samples


@contract("genjax.inference.smc:change", ["C10"])
class Change(_NoReplay):
    cases = ["default"]

    def call(self, case):
        reset()
        self.n = n_sym()
        self.g0, self.g = AbsGF("old"), AbsGF("new")
        self.p = particles(self.n, self.g0)
        self.F = z3.Function("ChoiceFn", V, V)
        self.nargs = (value("na"),)
        return self.real(self.fn, self.p, self.g, self.nargs, lambda x: Sym(self.F(enc(x))))

    def ensures(self, case, path):
        yield "does_not_raise", path.outcome == "return"
        if path.outcome != "return":
            return
        r, p, n, g = path.value, self.p, self.n, self.g
        i = fresh("i", z3.IntSort())
        rng = z3.And(i >= 0, i < n)
        a = enc_args(self.nargs, {})
        mapped = self.F(p.traces.x.fn((i,)))
        nu = LaneNonce(z3.IntVal(1), i)
        yield "weight_accumulates_new_targets_weight_on_mapped_choices", z3.Implies(rng, r.log_weights.fn((i,)) == p.log_weights.fn((i,)) + g.GenW(a, mapped, nu))
        yield "estimate_carried_over", r.log_marginal_estimate is p.log_marginal_estimate


# ------------------------------------------------------------------------------------------------
# C12 — resampling


@contract("genjax.inference.smc:resample", ["C12", "C10", "C05"])
class Resample(_NoReplay):
    def replay(self, case, clause, model, path):
        from .native import run_native

        return run_native("smc_resample")

    """same number of particles; every trace field indexed by ONE index vector; weights reset to 0;
    estimate' = estimate + LSE(w) - log n; diagnostic weights = normalised pre-resampling weights"""

    cases = ["categorical", "systematic"]

    def call(self, case):
        reset()
        self.n = n_sym()
        self.g = AbsGF("target")
        self.p = particles(self.n, self.g)
        return self.real(self.fn, self.p, method=case)

    def ensures(self, case, path):
        yield "does_not_raise", path.outcome == "return"
        if path.outcome != "return":
            return
        r, p, n = path.value, self.p, self.n
        w = p.log_weights
        j = fresh("j", z3.IntSort())
        rng = z3.And(j >= 0, j < n)
        yield "same_number_of_particles", r.n_samples is p.n_samples and dim_eq(r.log_weights.shape[0], n) and dim_eq(r.traces.x.shape[0], n)
        yield "weights_reset_to_0", z3.Implies(rng, r.log_weights.fn((j,)) == 0)
        yield "estimate_absorbs_average_weight", same(r.log_marginal_estimate, Sym(_lift(p.log_marginal_estimate) + lse(n, w) - LOG(z3.ToReal(n))))
        yield "diagnostic_weights_are_pre_resampling_normalised_weights", z3.Implies(rng, r.diagnostic_weights.fn((j,)) == w.fn((j,)) - lse(n, w))
        # one index vector for all fields: find it from the choices and check every other leaf against it
        if case == "categorical":
            cc = CATS.calls
            yield "one_categorical_draw_of_n_indices_with_the_unnormalised_log_weights_as_logits", len(cc) == 1 and cc[0]["logits"] is w and len(cc[0]["sample_shape"]) == 1 and dim_eq(cc[0]["sample_shape"][0], n)
            if len(cc) != 1:
                return
            from vt.tensor import _toreal

            i = z3.Int("cat!i")
            idx = CATF(z3.Lambda([i], _toreal(w.fn((i,)))), n, cc[0]["nonce"], j)
        else:
            ss = jnp_stub.CALLS["searchsorted"]
            yield "indices_from_one_searchsorted", len(ss) == 1
            if len(ss) != 1:
                return
            idx = ss[0]["out"].fn((j,))
            # the law of the indices: the systematic pointer comb of THESE weights, also when the offset is drawn by
            # resample / resample_vectorized_trace and handed to systematic_resample
            for nm, f in systematic_pointers(n, w):
                yield "systematic:" + nm, f
        tr, tr0 = r.traces, p.traces
        # range of the sampler's indices: a categorical draw is an index of the logits (A-TFP); searchsorted counts the
        # entries below the pointer, 0..n INCLUSIVE - n happens when the cumulative weights fall short of the last
        # pointer (floating point), and the gather then takes the last particle (JAX clamps), never a non-particle
        idx_rng = z3.And(idx >= 0, idx < n) if case == "categorical" else z3.And(idx >= 0, idx <= n)
        src = z3.If(idx >= n, n - 1, idx)
        rng = z3.And(rng, idx_rng)
        yield "every_trace_field_is_an_exact_copy_of_ONE_input_particle(the same source index for all fields)", z3.Implies(
            rng,
            z3.And(
                src >= 0, src < n,
                tr.x.fn((j,)) == tr0.x.fn((src,)),
                tr.score.fn((j,)) == tr0.score.fn((src,)),
                tr.retval.fn((j,)) == tr0.retval.fn((src,)),
                tr.args.fn((j,)) == tr0.args.fn((src,)),
            ),
        )
        # hence lane j of the result is a coherent trace (it is lane idx of the coherent input)
        g = self.g
        yield "copied_particles_are_coherent", z3.Implies(rng, tr.score.fn((j,)) == -g.D(tr.args.fn((j,)), tr.x.fn((j,))))


@contract("lemma:resample_preserves_log_marginal_likelihood", ["C12", "C10"], kind="lemma")
class ResampleLML(Contract):
    """client lemma over the contracts of resample and log_marginal_likelihood (uses LSE(n, 0) = log n)"""

    cases = ["default"]

    def call(self, case):
        self.n = n_sym()
        return None

    def ensures(self, case, path):
        n = self.n
        est, L = z3.Reals("estimate LSE_w")
        logn = LOG(z3.ToReal(n))
        before = est + L - logn
        est2 = est + L - logn  # resample/estimate_absorbs_average_weight
        lse_zero = mk_lse(n, lambda i: z3.RealVal(0))  # = log n by the LSE normalisation
        after = est2 + lse_zero - logn
        yield "log_marginal_likelihood_exactly_unchanged", after == before


def systematic_pointers(n, w):
    """the pointer comb of systematic resampling, wherever the single offset is drawn (inside systematic_resample or by
    its caller): ONE scalar uniform draw on a non-empty range; pointer j at (j + u) / n with u the draw rescaled to the
    unit interval, i.e. uniformly placed inside its stratum; searched (left) in the cumulative normalised weights"""
    from vt.tensor import _toreal

    yield "one_scalar_uniform_offset", len(UNI.sample_calls) == 1 and len(UNI.sample_calls[0]["args"]) == 2 and UNI.sample_calls[0]["sample_shape"] == ()
    cs, ss = jnp_stub.CALLS["cumsum"], jnp_stub.CALLS["searchsorted"]
    yield "one_cumsum_one_searchsorted(left)", len(cs) == 1 and len(ss) == 1 and ss[0]["side"] == "left"
    if not (len(cs) == 1 and len(ss) == 1 and len(UNI.sample_calls) == 1):
        return
    i = fresh("i", z3.IntSort())
    L = lse(n, w)
    yield "cumsum_of_normalised_weights", cs[0]["x"].fn((i,)) == JNP.exp(Sym(w.fn((i,)) - L)).e
    lo, hi = (_toreal(_lift(x)) for x in UNI.sample_calls[0]["args"])
    yield "offset_range_is_not_empty", hi > lo
    u = dists.DrawR(UNI.id, UNI.sample_calls[0]["nonce"], lo, hi)
    u01 = u if (z3.eq(z3.simplify(lo), z3.RealVal(0)) and z3.eq(z3.simplify(hi), z3.RealVal(1))) else (u - lo) / (hi - lo)
    yield "positions_are_(j+u)/n(u_the_offset_rescaled_to_the_unit_interval)", ss[0]["v"].fn((i,)) == (z3.ToReal(i) + u01) / z3.ToReal(n)
    yield "one_position_per_particle", dim_eq(ss[0]["v"].shape[0], n)


@contract("genjax.inference.smc:systematic_resample", ["C12"])
class Systematic(_NoReplay):
    def replay(self, case, clause, model, path):
        from .native import run_native

        return run_native("smc_resample")

    """weights = exp(w - LSE w); ONE offset u ~ U(0,1); positions_j = (j + u)/n; indices = searchsorted(cumsum(weights), positions)"""

    cases = ["default"]

    def call(self, case):
        reset()
        self.n = n_sym()
        self.w = Tensor.fresh("w", (self.n,))
        return self.real(self.fn, self.w, Sym(self.n))

    def ensures(self, case, path):
        yield "does_not_raise", path.outcome == "return"
        if path.outcome != "return":
            return
        n, w = self.n, self.w
        # ONE scalar uniform draw; its range may be written as U(0,1) (then divided by n) or e.g. U(0, 1/n): what matters
        # is the position it is mapped to (next clauses)
        yield from systematic_pointers(n, w)
        cs, ss = jnp_stub.CALLS["cumsum"], jnp_stub.CALLS["searchsorted"]
        if not (len(cs) == 1 and len(ss) == 1 and len(UNI.sample_calls) == 1):
            return
        yield "searched_in_the_cumulative_weights", ss[0]["a"] is cs[0]["out"]
        yield "returns_the_searchsorted_indices", path.value is ss[0]["out"] and dim_eq(path.value.shape[0], n)


@contract("lemma:systematic_resampling_counts", ["C12"], kind="lemma")
class SystematicCounts(Contract):
    """from the Systematic contract: idx_j = #{i : C_i < (j+u)/n}.  With C nondecreasing, C_{-1} = 0 and
    C_{n-1} = 1 (A-REAL), the number of j in [0, n) with idx_j = i is floor(n C_i - u) - floor(n C_{i-1} - u)
    [counting integers in a half-open interval].  Proved here for ALL u in (0,1), all n >= 1, all weights:
    that count is floor(n w_i) or ceil(n w_i), exact when n w_i is an integer, and every index is < n."""

    cases = ["default"]

    def call(self, case):
        return None

    def ensures(self, case, path):
        u, a, b, nn = z3.Reals("u nC_prev nC_i n")
        fl = lambda x: z3.ToInt(x)
        m = b - a  # n * w_i
        hyp = z3.And(u > 0, u < 1, a >= 0, b >= a, b <= nn, nn >= 1)
        copies = fl(b - u) - fl(a - u)
        yield "copies_is_floor_or_ceil_of_n_w_i", z3.Implies(hyp, z3.Or(copies == fl(m), z3.And(copies == fl(m) + 1, z3.ToReal(fl(m)) != m)))
        yield "copies_exact_when_n_w_i_is_an_integer", z3.Implies(z3.And(hyp, z3.ToReal(fl(m)) == m), copies == fl(m))
        yield "copies_nonnegative", z3.Implies(hyp, copies >= 0)
        # the j's counted for all i together are exactly 0..n-1: j > -u  <=> j >= 0 and j <= n - u <=> j <= n-1
        j = z3.Int("j")
        ni = z3.Int("n_int")
        yield "all_offsets_0..n-1_are_counted_exactly_once", z3.Implies(
            z3.And(u > 0, u < 1, ni >= 1), (z3.And(z3.ToReal(j) > 0 - u, z3.ToReal(j) <= z3.ToReal(ni) - u)) == z3.And(j >= 0, j <= ni - 1)
        )
        # total: sum over i telescopes to floor(n - u) - floor(-u) = (n-1) - (-1) = n
        yield "total_number_of_copies_is_n", z3.Implies(z3.And(u > 0, u < 1, ni >= 1), fl(z3.ToReal(ni) - u) - fl(0 - u) == ni)


@contract("genjax.inference.smc:resample_vectorized_trace", ["C12", "C05"])
class ResampleTrace(_NoReplay):
    cases = ["unknown_method"]

    def call(self, case):
        reset()
        n = n_sym()
        p = particles(n, AbsGF("t"))
        return self.real(self.fn, p.traces, p.log_weights, Sym(n), method="stratified?")

    def ensures(self, case, path):
        yield "unknown_method_raises_ValueError", path.outcome == "raise" and isinstance(path.value.exc, ValueError)


# ------------------------------------------------------------------------------------------------
# rejuvenation_smc: the pipeline, with the moves replaced by their contracts (recorders)


@contract("genjax.inference.smc:rejuvenation_smc", ["C10"])
class RejuvenationSMC(_NoReplay):
    """init on the first observation; then per remaining observation: extend (fed with the particles' return
    values) -> resample iff ESS < n//2 -> k rejuvenation moves; final (or all) collections returned"""

    cases = ["with_kernel", "no_kernel", "return_all"]

    def call(self, case):
        reset()
        eng = engine()
        self.n = 8  # concrete particle count for `n // 2`; the moves' own contracts are for all n
        self.T = fresh("T", z3.IntSort())
        eng.assume(self.T >= 2)
        self.g = AbsGF("model")
        self.obs = Tensor.fresh("obs", (self.T,), V)
        self.log = []
        outer = self
        n = self.n

        def mk(tag, src=None):
            p = particles(z3.IntVal(n), self.g, name=tag)
            return p

        def f_init(model, args, n_particles, first_obs, proposal_gf=None):
            outer.log.append(("init", model, args, n_particles, first_obs))
            outer.p0 = mk("init")
            return outer.p0

        def f_extend(p, model, pargs, obs, extension_proposal=None):
            q = mk("ext")
            outer.log.append(("extend", p, model, pargs, obs, extension_proposal, q))
            return q

        def f_resample(p, method="categorical"):
            q = mk("res")
            outer.log.append(("resample", p, q))
            return q

        def f_rejuv(p, kernel):
            q = mk("rej")
            outer.log.append(("rejuvenate", p, kernel, q))
            return q

        self._orig = (smc.init, smc.extend, smc.resample, smc.rejuvenate)
        smc.init, smc.extend, smc.resample, smc.rejuvenate = f_init, f_extend, f_resample, f_rejuv
        self.kernel = (lambda tr: tr) if case != "no_kernel" else None
        self.k = integer("k_moves")
        eng.assume(self.k.e >= 1)
        self.prop = AbsGF("transition_proposal")
        self.iargs = (value("i0"),)
        C = core.Const
        try:
            return self.real(
                self.fn, self.g, self.prop, C(self.kernel) if self.kernel else None, self.obs, self.iargs,
                C(n), C(case == "return_all"), C(self.k),
            )
        finally:
            smc.init, smc.extend, smc.resample, smc.rejuvenate = self._orig

    def ensures(self, case, path):
        yield "does_not_raise", path.outcome == "return"
        if path.outcome != "return":
            return
        log = self.log
        inits = [e for e in log if e[0] == "init"]
        yield "initialised_once_on_the_first_observation", len(inits) == 1 and inits[0][1] is self.g and inits[0][2] is self.iargs and inits[0][3].value == self.n and same(inits[0][4], Sym(self.obs.fn((z3.IntVal(0),))))
        exts = [e for e in log if e[0] == "extend"]
        yield "one_extend_per_generic_step", len(exts) == 1
        scans = path.extra.get("scans", [])
        outer_scans = [s for s in scans if z3.eq(z3.simplify(s["T"]), z3.simplify(self.T - 1))]
        yield "scan_over_the_remaining_observations", len(outer_scans) == 1
        if len(exts) != 1 or len(outer_scans) != 1:
            return
        rec = outer_scans[0]
        t = rec["t"]
        _, pin, model, pargs, obs_t, prop, _ = exts[0]
        yield "extend_on_the_model_with_the_transition_proposal", model is self.g and prop is self.prop
        yield "extend_observation_is_observation_t+1", same(obs_t, Sym(self.obs.fn((t + 1,))))
        yield "extend_fed_with_the_particles_return_values", pargs is pin.traces.get_retval() or (isinstance(pargs, Tensor) and same(pargs, pin.traces.retval))
        res = [e for e in log if e[0] == "resample"]
        yield "resampling_only_through_resample()", len(res) == 2  # once after init, once in the generic step
        rej = [e for e in log if e[0] == "rejuvenate"]
        if case == "no_kernel":
            yield "no_rejuvenation_without_kernel", not rej
        else:
            yield "rejuvenation_uses_the_given_kernel", len(rej) == 2 and all(e[2] is self.kernel for e in rej)
            inner = [s for s in scans if z3.eq(z3.simplify(s["T"]), z3.simplify(self.k.e))]
            yield "k_rejuvenation_moves_per_step", len(inner) == 2
        # ESS-triggered resampling: the collection after the cond is the resampled one iff ESS < n // 2
        ext_out = exts[0][6]
        step_res = [e for e in res if e[1] is ext_out]
        yield "resample_candidate_is_the_extended_collection", len(step_res) == 1
        if len(step_res) == 1:
            conds = [c for c in path.extra.get("cond_calls", []) if c["operands"] and c["operands"][0] is ext_out]
            yield "one_cond_on_the_extended_collection", len(conds) == 1
            if len(conds) == 1:
                pred = conds[0]["pred"]
                # ESS as computed by effective_sample_size (its own contract: 1 / sum of squared normalised weights)
                ess = smc.effective_sample_size(ext_out.log_weights)
                yield "trigger_is_ESS_below_half_the_particle_count", same(pred, ess < self.n // 2)
                if case != "no_kernel":
                    inner = [s_ for s_ in scans if z3.eq(z3.simplify(s_["T"]), z3.simplify(self.k.e))]
                    after = inner[1]["init"]  # the rejuvenation loop starts from the collection after the cond
                else:
                    after = rec["new_carry"]
                j = fresh("j", z3.IntSort())
                yield "resampled_collection_used_iff_triggered", z3.Implies(
                    z3.And(j >= 0, j < self.n),
                    after.log_weights.fn((j,)) == z3.If(_lift(pred), step_res[0][2].log_weights.fn((j,)), ext_out.log_weights.fn((j,))),
                )
        if case == "return_all":
            cc = jnp_stub.CALLS["concatenate"]
            yield "initial_collection_prepended_to_the_per_step_collections", len(cc) >= 1 and all(isinstance(c["parts"][0], Tensor) and c["parts"][0].shape[0] == 1 for c in cc)

from vt.contract import track as _track  # noqa: E402

_track((UNI, "sample_calls"), CATS.calls, *jnp_stub.CALLS.values())

from vt.contract import canary as _canary  # noqa: E402

_canary(Resample, "systematic", "estimate_absorbs_average_weight")
_canary(Init, "custom_proposal", "weight_is_target_weight_of_merged_choices_minus_log_q")
