"""C13 — built-in distributions: documented parameterisation, sampler and density built from the SAME TFP
object.  The repository-owned part is decided: which TFP constructor each wrapper selects, how arguments bind,
and that sampler / logpdf / sample_shape are threaded through unchanged.  TFP's own densities, normalisation
and samplers are assumed (A-TFP) — the bulk of the property statement rests on that assumption.
"""
from __future__ import annotations

import inspect
import types
from vt.stubs.ns import StubNS

import z3

from vt import loader
from vt.contract import Contract, contract
from vt.sym import Assumed, EngineLimit, Sym, V, _lift, engine, fresh, value
from . import _patch  # noqa: F401
from . import seed as S  # noqa: F401  (pjax patches)

core = loader.load("core")
pjax = loader.load("pjax")
D = loader.load("distributions")
import tensorflow_probability.substrates.jax as tfp  # noqa: E402

tfd_real = tfp.distributions

# spec table written from the property text and the module docstrings:
#   name -> (TFP class, first positional parameter names as documented)
SPEC = {
    "bernoulli": ("Bernoulli", ("logits",)),
    "beta": ("Beta", ("concentration1", "concentration0")),
    "geometric": ("Geometric", ("logits",)),
    "normal": ("Normal", ("loc", "scale")),
    "uniform": ("Uniform", ("low", "high")),
    "exponential": ("Exponential", ("rate",)),  # "exponential a rate"
    "poisson": ("Poisson", ("rate",)),
    "multivariate_normal": ("MultivariateNormalFullCovariance", ("loc", "covariance_matrix")),  # "a covariance matrix"
    "dirichlet": ("Dirichlet", ("concentration",)),
    "binomial": ("Binomial", ("total_count", "logits")),
    "gamma": ("Gamma", ("concentration", "rate")),
    "log_normal": ("LogNormal", ("loc", "scale")),
    "student_t": ("StudentT", ("df", "loc", "scale")),
    "laplace": ("Laplace", ("loc", "scale")),
    "half_normal": ("HalfNormal", ("scale",)),
    "inverse_gamma": ("InverseGamma", ("concentration", "scale")),
    "weibull": ("Weibull", ("concentration", "scale")),
    "cauchy": ("Cauchy", ("loc", "scale")),
    "chi2": ("Chi2", ("df",)),
    "multinomial": ("Multinomial", ("total_count", "logits")),
    "negative_binomial": ("NegativeBinomial", ("total_count", "logits")),
    "zipf": ("Zipf", ("power",)),
}
LAMBDA_SPEC = {
    # name -> (TFP class, how the single positional argument binds, extra keywords)
    "flip": ("Bernoulli", "probs", {"dtype": "bool"}),  # "flip takes a probability and yields booleans"
    "categorical": ("Categorical", "logits", {}),  # "categorical takes logits"
}


def closure_of(fn):
    return dict(zip(fn.__code__.co_freevars, [c for c in (fn.__closure__ or ())]))


def parts(dist):
    """the keyed sampler / logpdf / TFP constructor captured by tfp_distribution(...) for this wrapper (closure
    introspection: only for contracts that need the captured callables; a restructured tfp_distribution makes it an
    engine limit, the behavioural contracts below do not depend on it)"""
    try:
        smp, lpf = dist._sample.value, dist._logpdf.value
        ks = closure_of(smp)["keyful_sampler"].cell_contents
        lp = closure_of(lpf)["logpdf"].cell_contents
        ctor_s = closure_of(ks)["dist"]
        ctor_l = closure_of(lp)["dist"]
    except (KeyError, AttributeError) as e:
        raise EngineLimit("tfp_distribution's closures are not laid out as expected (%r)" % (e,))
    return smp, lpf, ks, lp, ctor_s, ctor_l


IGNORED_PARAMS = ("dtype", "validate_args", "allow_nan_stats", "name", "force_probs_to_zero_outside_support", "interpolate_nondiscrete", "require_integer_total_count")


class TfpRec:
    """stands for a TFP distribution object: records construction, sample and log_prob calls"""

    def __init__(self, log, cls, args, kwargs):
        self.log, self.cls, self.args, self.kwargs = log, cls, args, kwargs
        log.append(("ctor", cls, args, kwargs))

    def sample(self, *a, **k):
        self.log.append(("sample", self, a, k))
        return "draw"

    def log_prob(self, v):
        self.log.append(("log_prob", self, (v,), {}))
        return "logp"


class RecCtor:
    """a recording stand-in for a TFP distribution class, with the signature of the INSTALLED class"""

    def __init__(self, log, name, signature=None):
        self.log, self.name = log, name
        if signature is None:
            real_sig = inspect.signature(getattr(tfd_real, name).__init__)
            signature = real_sig.replace(parameters=[p for n, p in real_sig.parameters.items() if n != "self"])
        self.__signature__ = signature
        self.__name__ = name

    def __call__(self, *a, **k):
        return TfpRec(self.log, self.name, a, k)

    def bound(self, a, k):
        b = dict(self.__signature__.bind_partial(*a, **k).arguments)
        b.pop("kwargs", None)
        return b


class RecTfd:
    def __init__(self, log):
        self._log, self._made = log, {}

    def __getattr__(self, name):
        if name.startswith("_"):
            raise AttributeError(name)
        if not hasattr(tfd_real, name):
            raise EngineLimit("recording tfd namespace: the installed TFP has no distribution %r" % name)
        if name not in self._made:
            self._made[name] = RecCtor(self._log, name)
        return self._made[name]


KEY = object()


class site_model:
    """what a sample / density SITE does with the callables it is built from, as proved for the binders, the seed
    interpreter and the flat-sampler cache: the keyed sampler is called with the run's key, the site's arguments and
    keyword arguments and the site's sample_shape; the density with (value, *args, **kwargs)"""

    def __enter__(self):
        self.saved = (pjax.sample_binder, pjax.log_density_binder)
        Assumed.note("site model (proved in the seed / binder contracts): a sample site evaluates keyful_sampler(key, *site args, sample_shape=site shape, **site kwargs); a density site evaluates logpdf(v, *args, **kwargs)")

        def sample_binder(ks, name=None, sample_shape=(), support=None, **kw):
            return lambda *a, **k: ks(KEY, *a, sample_shape=sample_shape, **k)

        def log_density_binder(lp, name=None, **options):
            return lambda v, *a, **k: lp(v, *a, **k)

        pjax.sample_binder, pjax.log_density_binder = sample_binder, log_density_binder
        return self

    def __exit__(self, *a):
        pjax.sample_binder, pjax.log_density_binder = self.saved
        return False


_COPY = {}


def distributions_over_recording_tfd():
    """genjax/distributions.py of the working tree, executed once more with `tfp.distributions` replaced by the
    recording namespace (everything else - tfp_distribution, the lambdas, the names - is the real module text)"""
    if "mod" in _COPY:
        return _COPY["mod"], _COPY["log"]
    import importlib, sys as _sys, types as _types

    path = D.__file__
    src = open(path).read()
    log = []
    fake = _types.ModuleType("tensorflow_probability.substrates.jax")
    fake.distributions = RecTfd(log)
    parent = importlib.import_module("tensorflow_probability.substrates")
    saved_attr, saved_mod = getattr(parent, "jax"), _sys.modules.get("tensorflow_probability.substrates.jax")
    mod = _types.ModuleType("genjax.distributions__recording_copy")
    mod.__file__ = path
    mod.__package__ = "genjax"
    try:
        parent.jax = fake
        _sys.modules["tensorflow_probability.substrates.jax"] = fake
        exec(compile(src, path, "exec"), mod.__dict__)
    finally:
        parent.jax = saved_attr
        _sys.modules["tensorflow_probability.substrates.jax"] = saved_mod
    # the lambdas in the module text look `jnp` up at call time: arithmetic on parameters goes through the jnp model
    from vt.stubs import jnp as jnp_stub

    mod.jnp = jnp_stub.namespace()
    _COPY["mod"], _COPY["log"] = mod, log
    return mod, log


def call_patterns(ctor, pos):
    """(args, kwargs, expected binding) for a wrapper whose documented positional parameters are `pos`: all
    positional; all by keyword; every later constructor parameter given by keyword after m leading positionals
    (m = 0 .. len(pos)-1), which includes keywords that SKIP an earlier optional parameter (probs=, log_rate= ...)"""
    names = [n for n in ctor.__signature__.parameters if n not in IGNORED_PARAMS and n not in ("args", "kwargs")]
    mk = lambda n: value("arg_" + n)
    out = []
    vals = {n: mk(n) for n in names}
    out.append((tuple(vals[n] for n in pos), {}, {n: vals[n] for n in pos}))
    out.append(((), {n: vals[n] for n in pos}, {n: vals[n] for n in pos}))
    for m in range(len(pos)):
        lead = tuple(vals[n] for n in pos[:m])
        for q in names:
            if q in pos[:m]:
                continue
            exp = {n: vals[n] for n in pos[:m]}
            exp[q] = vals[q]
            out.append((lead, {q: vals[q]}, exp))
    return out


class _NoReplay(Contract):
    def replay(self, case, clause, model, path):
        from .native import run_native

        return run_native("distributions_native")


@contract("genjax.distributions:<24 wrappers>", ["C13"])
class WrapperTable(_NoReplay):
    """behavioural: the module text of genjax/distributions.py is executed over a recording `tfd`; each exported wrapper
    is SAMPLED (through the real tfp_distribution / wrap_sampler and the site model) and SCORED with every call
    pattern, and both must construct the documented TFP class with every argument bound to the documented parameter
    name - the same binding on the sampling and on the density side"""

    target = "genjax.distributions:<24 wrappers>"
    cases = sorted(SPEC) + sorted(LAMBDA_SPEC)

    def __init__(self):
        self.mod = self.owner = self.fn = None

    def call(self, case):
        mod, log = distributions_over_recording_tfd()
        self.dist = getattr(mod, case)
        self.real_dist = getattr(D, case)
        self.bad, self.n = [], 0
        if case in SPEC:
            cls_name, pos = SPEC[case]
            ctor = RecCtor([], cls_name)
            pats = call_patterns(ctor, pos)
            extra = {}
        else:
            cls_name, how, extra = LAMBDA_SPEC[case]
            ctor = RecCtor([], cls_name)
            p = value("param")
            pats = [((p,), {}, {how: p})]
        self.cls_name = cls_name
        S_ = (Sym(fresh("s0", z3.IntSort())),)
        v = value("v")
        with site_model():
            for pi, (args, kw, exp) in enumerate(pats):
                self.n += 1
                for side in ("sample", "logpdf"):
                    del log[:]
                    if pi >= 2:
                        # beyond the two documented forms (all positional / all by documented keyword) a wrapper may
                        # simply not ACCEPT a call form (TypeError at its constructor): that is not a wrong binding
                        from vt.contract import RealRaise

                        try:
                            self.real(self.dist.sample if side == "sample" else self.dist.logpdf, *(((v,) if side == "logpdf" else ()) + args), **(dict(kw, sample_shape=S_) if side == "sample" else kw))
                        except RealRaise as rr:
                            if isinstance(rr.exc, TypeError):
                                self.skipped = getattr(self, "skipped", 0) + 1
                                continue
                            raise
                        except EngineLimit:
                            pass
                        del log[:]
                    try:
                        if side == "sample":
                            out = self.real(self.dist.sample, *args, sample_shape=S_, **kw)
                        else:
                            out = self.real(self.dist.logpdf, v, *args, **kw)
                    except EngineLimit:
                        # the wrapper computes on its parameters with functions outside the dependency model: run this
                        # pattern again on CONCRETE arrays (the recorder compares the objects bound, so pass-through
                        # binding is still decided exactly; value-dependent branching would not be)
                        Assumed.note("C13 wrapper table: concrete-parameter fallback used for a wrapper that computes on its parameters with unmodelled functions")
                        import numpy as _np

                        conc = {}

                        def cv(x):
                            if id(x) not in conc:
                                conc[id(x)] = _np.eye(2) * float(len(conc) + 2)
                            return conc[id(x)]

                        args = tuple(cv(a) for a in args)
                        kw = {k: cv(x) for k, x in kw.items()}
                        exp = {k: cv(x) for k, x in exp.items()}
                        del log[:]
                        real_jnp, self.dist_jnp = None, None
                        mod.jnp, saved_jnp = __import__("jax.numpy").numpy, mod.jnp
                        try:
                            if side == "sample":
                                out = self.real(self.dist.sample, *args, sample_shape=S_, **kw)
                            else:
                                out = self.real(self.dist.logpdf, v, *args, **kw)
                        finally:
                            mod.jnp = saved_jnp
                    ct = [e for e in log if e[0] == "ctor"]
                    ok = len(ct) == 1 and ct[0][1] == cls_name
                    if ok:
                        b = ctor.bound(ct[0][2], ct[0][3])
                        for kk, vv in extra.items():
                            ok = ok and vv in str(b.pop(kk, None))
                        ok = ok and set(b) == set(exp) and all(b[n] is exp[n] for n in exp)
                    if ok and side == "sample":
                        sc = [e for e in log if e[0] == "sample"]
                        ok = len(sc) == 1 and sc[0][3].get("seed") is KEY and sc[0][3].get("sample_shape") == S_ and out == "draw"
                    if ok and side == "logpdf":
                        lc = [e for e in log if e[0] == "log_prob"]
                        ok = len(lc) == 1 and lc[0][2][0] is v and out == "logp"
                    if not ok:
                        self.bad.append((side, "args=%d" % len(args), sorted(kw), [(e[0], e[1], len(e[2]), sorted(e[3])) for e in log if e[0] == "ctor"]))
        return self.n

    def ensures(self, case, path):
        yield "does_not_raise", path.outcome == "return"
        yield "is_a_Distribution", isinstance(self.real_dist, core.Distribution) and isinstance(self.dist, core.Distribution)
        if path.outcome != "return":
            return
        yield "call_patterns_generated", self.n >= 1
        self.witness = self.bad[:4]
        yield "sampler_and_density_construct_the_documented_TFP_distribution_with_arguments_bound_to_the_documented_names(all call patterns)", not self.bad
        if case in SPEC:
            cls_name, pos = SPEC[case]
            params = [p for p in inspect.signature(getattr(tfd_real, cls_name).__init__).parameters if p != "self"]
            yield "positional_arguments_bind_to_the_documented_parameters(installed TFP signature)", tuple(params[: len(pos)]) == pos

    def replay(self, case, clause, model, path):
        r = dict(_NoReplay.replay(self, case, clause, model, path))
        r["failing_call_patterns(side, n positional, keywords, constructor calls seen)"] = [repr(w)[:400] for w in getattr(self, "witness", [])]
        return r


@contract("genjax.core:tfp_distribution", ["C13"])
class TfpDistribution(_NoReplay):
    """generic mechanism, behavioural: for ANY constructor, sampling a site of tfp_distribution(ctor) constructs
    ctor with every argument bound to the parameter the CALL named (positionally or by keyword, also when a keyword skips
    an earlier optional parameter) and calls .sample(seed=key, sample_shape=S); scoring constructs the same binding and
    calls .log_prob(v)"""

    cases = ["sampler", "logpdf"]

    def call(self, case):
        self.log = []
        sig = inspect.Signature([inspect.Parameter(n, inspect.Parameter.POSITIONAL_OR_KEYWORD, default=None) for n in ("alpha", "beta", "gamma", "validate_args")])
        ctor = RecCtor(self.log, "X", sig)
        self.d = core.tfp_distribution(ctor, name="x")
        a, b, c = value("a"), value("b"), value("c")
        self.pats = [((a, b), {}, {"alpha": a, "beta": b}), ((), {"alpha": a, "beta": b}, {"alpha": a, "beta": b}), ((), {"beta": b}, {"beta": b}),
                     ((a,), {"gamma": c}, {"alpha": a, "gamma": c}), ((a, b), {"validate_args": c}, {"alpha": a, "beta": b, "validate_args": c}), ((), {"gamma": c, "alpha": a}, {"alpha": a, "gamma": c})]
        self.Sshape, self.v = (Sym(fresh("s0", z3.IntSort())),), value("v")
        self.obs = []
        with site_model():
            for args, kw, exp in self.pats:
                del self.log[:]
                if case == "sampler":
                    out = self.real(self.d.sample, *args, sample_shape=self.Sshape, **kw)
                else:
                    out = self.real(self.d.logpdf, self.v, *args, **kw)
                self.obs.append((out, list(self.log), ctor))
        return len(self.obs)

    def ensures(self, case, path):
        yield "does_not_raise", path.outcome == "return"
        if path.outcome != "return":
            return
        okc, oks, okl = True, True, True
        for (args, kw, exp), (out, log, ctor) in zip(self.pats, self.obs):
            ct = [e for e in log if e[0] == "ctor"]
            if len(ct) != 1:
                okc = False
                continue
            b = ctor.bound(ct[0][2], ct[0][3])
            okc = okc and set(b) == set(exp) and all(b[n] is exp[n] for n in exp)
            if case == "sampler":
                sc = [e for e in log if e[0] == "sample"]
                oks = oks and len(sc) == 1 and sc[0][3].get("seed") is KEY and sc[0][3].get("sample_shape") == self.Sshape and not sc[0][2] and out == "draw"
            else:
                lc = [e for e in log if e[0] == "log_prob"]
                okl = okl and len(lc) == 1 and lc[0][2][0] is self.v and out == "logp"
        yield "constructed_once_with_every_argument_bound_to_the_parameter_the_call_named(6 call patterns)", okc
        if case == "sampler":
            yield "sampled_with_the_given_key_and_sample_shape", oks
        else:
            yield "log_prob_of_the_value", okl


@contract("genjax.pjax:wrap_sampler", ["C13"])
class WrapSampler(_NoReplay):
    """sample_shape is removed from the keyword arguments and threaded to the site; everything else is forwarded"""

    cases = ["with_sample_shape", "without"]

    def call(self, case):
        self.rec = []
        outer = self

        def fake_binder(ks, name=None, sample_shape=(), support=None, **k):
            outer.rec.append(("binder", ks, name, sample_shape, support, k))
            return lambda *a, **kw: outer.rec.append(("call", a, kw)) or "site-result"

        self._o = pjax.sample_binder
        pjax.sample_binder = fake_binder
        self.ks = lambda key, *a, sample_shape=(), **k: None
        self.args, self.S = (value("a0"),), (3,)
        kw = {"scale": value("sc")}
        self.kw = dict(kw)
        if case == "with_sample_shape":
            kw["sample_shape"] = self.S
        try:
            return self.real(pjax.wrap_sampler(self.ks, name="d"), *self.args, **kw)
        finally:
            pjax.sample_binder = self._o

    def ensures(self, case, path):
        yield "does_not_raise", path.outcome == "return"
        if path.outcome != "return":
            return
        b = [e for e in self.rec if e[0] == "binder"]
        c = [e for e in self.rec if e[0] == "call"]
        yield "one_site_for_the_keyed_sampler_with_its_name", len(b) == 1 and b[0][1] is self.ks and b[0][2] == "d"
        yield "sample_shape_threaded_to_the_site", b[0][3] == (self.S if case == "with_sample_shape" else ())
        yield "sample_shape_removed_and_rest_forwarded", len(c) == 1 and c[0][1][0] is self.args[0] and set(c[0][2]) == {"scale"} and c[0][2]["scale"] is self.kw["scale"]
        yield "returns_site_result", path.value == "site-result"


@contract("genjax.pjax:wrap_logpdf", ["C13"])
class WrapLogpdf(_NoReplay):
    cases = ["default"]

    def call(self, case):
        self.rec = []
        outer = self
        self._o = pjax.log_density_binder
        pjax.log_density_binder = lambda lp, name=None: outer.rec.append(("binder", lp, name)) or (lambda *a, **k: outer.rec.append(("call", a, k)) or "density")
        self.lp = lambda v, *a, **k: None
        self.v, self.a, self.kw = value("v"), value("a0"), {"k": value("kv")}
        try:
            return self.real(pjax.wrap_logpdf(self.lp, name="d"), self.v, self.a, **self.kw)
        finally:
            pjax.log_density_binder = self._o

    def ensures(self, case, path):
        yield "does_not_raise", path.outcome == "return"
        if path.outcome != "return":
            return
        b = [e for e in self.rec if e[0] == "binder"]
        c = [e for e in self.rec if e[0] == "call"]
        yield "density_site_for_the_given_logpdf", len(b) == 1 and b[0][1] is self.lp and b[0][2] == "d"
        yield "value_args_kwargs_forwarded", len(c) == 1 and c[0][1][0] is self.v and c[0][1][1] is self.a and c[0][2].get("k") is self.kw["k"]


@contract("genjax.pjax:SamplerConfig.get_keyful_sampler_with_shape", ["C13", "C07"])
class KeyfulWithShape(_NoReplay):
    """the keyed sampler receives the site's sample_shape (possibly extended by the vectoriser)"""

    cases = ["default"]

    def call(self, case):
        self.calls = []
        ks = lambda key, *a, sample_shape=None, **k: self.calls.append((key, a, sample_shape, k)) or "draw"
        self.S = (Sym(fresh("n", z3.IntSort())), 2)
        cfg = pjax.SamplerConfig(keyful_sampler=ks, name="d", sample_shape=self.S)
        f = self.real(cfg.get_keyful_sampler_with_shape)
        self.key, self.a = value("key"), value("a")
        return self.real(f, self.key, self.a)

    def ensures(self, case, path):
        yield "does_not_raise", path.outcome == "return"
        if path.outcome == "return":
            yield "called_with_key_args_and_the_configs_sample_shape", len(self.calls) == 1 and self.calls[0][0] is self.key and self.calls[0][1] == (self.a,) and self.calls[0][2] is self.S


@contract("genjax.core:distribution", ["C13"])
class DistributionCtor(_NoReplay):
    """user-wrapped distributions: the callables are stored unchanged"""

    cases = ["default"]

    def call(self, case):
        self.s, self.l = (lambda *a: None), (lambda v, *a: None)
        return self.real(self.fn, self.s, self.l, name="mine")

    def ensures(self, case, path):
        yield "does_not_raise", path.outcome == "return"
        if path.outcome == "return":
            d = path.value
            yield "sampler_logpdf_name_stored_unchanged", isinstance(d, core.Distribution) and d._sample.value is self.s and d._logpdf.value is self.l and d.name.value == "mine"


@contract("genjax.distributions:__all__", ["C13"])
class AllExported(_NoReplay):
    """every exported distribution is covered by the spec table"""

    target = "genjax.distributions:__all__"
    cases = ["default"]

    def __init__(self):
        self.mod = self.owner = self.fn = None

    def call(self, case):
        return None

    def ensures(self, case, path):
        exported = {n for n in dir(D) if isinstance(getattr(D, n), core.Distribution)}
        yield "24_distributions_exported_and_all_in_the_table", exported == set(SPEC) | set(LAMBDA_SPEC) and len(exported) == 24

from vt.contract import canary as _canary  # noqa: E402

_canary(TfpDistribution, "sampler", "sampled_with_the_given_key_and_sample_shape")
