"""C13 — built-in distributions: documented parameterisation, sampler and density built from the SAME TFP
object.  The repository-owned part is decided: which TFP constructor each wrapper selects, how arguments bind,
and that sampler / logpdf / sample_shape are threaded through unchanged.  TFP's own densities, normalisation
and samplers are assumed (A-TFP) — the bulk of the property statement rests on that assumption.
"""
from __future__ import annotations

import inspect
import types
from vt.stubs.ns import StubNS

import z3

from vt import loader
from vt.contract import Contract, contract
from vt.sym import Assumed, EngineLimit, Sym, V, _lift, engine, fresh, value
from . import _patch  # noqa: F401
from . import seed as S  # noqa: F401  (pjax patches)

core = loader.load("core")
pjax = loader.load("pjax")
D = loader.load("distributions")
import tensorflow_probability.substrates.jax as tfp  # noqa: E402

tfd_real = tfp.distributions

# spec table written from the property text and the module docstrings:
#   name -> (TFP class, first positional parameter names as documented)
SPEC = {
    "bernoulli": ("Bernoulli", ("logits",)),
    "beta": ("Beta", ("concentration1", "concentration0")),
    "geometric": ("Geometric", ("logits",)),
    "normal": ("Normal", ("loc", "scale")),
    "uniform": ("Uniform", ("low", "high")),
    "exponential": ("Exponential", ("rate",)),  # "exponential a rate"
    "poisson": ("Poisson", ("rate",)),
    "multivariate_normal": ("MultivariateNormalFullCovariance", ("loc", "covariance_matrix")),  # "a covariance matrix"
    "dirichlet": ("Dirichlet", ("concentration",)),
    "binomial": ("Binomial", ("total_count", "logits")),
    "gamma": ("Gamma", ("concentration", "rate")),
    "log_normal": ("LogNormal", ("loc", "scale")),
    "student_t": ("StudentT", ("df", "loc", "scale")),
    "laplace": ("Laplace", ("loc", "scale")),
    "half_normal": ("HalfNormal", ("scale",)),
    "inverse_gamma": ("InverseGamma", ("concentration", "scale")),
    "weibull": ("Weibull", ("concentration", "scale")),
    "cauchy": ("Cauchy", ("loc", "scale")),
    "chi2": ("Chi2", ("df",)),
    "multinomial": ("Multinomial", ("total_count", "logits")),
    "negative_binomial": ("NegativeBinomial", ("total_count", "logits")),
    "zipf": ("Zipf", ("power",)),
}
LAMBDA_SPEC = {
    # name -> (TFP class, how the single positional argument binds, extra keywords)
    "flip": ("Bernoulli", "probs", {"dtype": "bool"}),  # "flip takes a probability and yields booleans"
    "categorical": ("Categorical", "logits", {}),  # "categorical takes logits"
}


def closure_of(fn):
    return dict(zip(fn.__code__.co_freevars, [c for c in (fn.__closure__ or ())]))


def parts(dist):
    """the keyed sampler / logpdf / TFP constructor captured by tfp_distribution(...) for this wrapper"""
    smp, lpf = dist._sample.value, dist._logpdf.value
    ks = closure_of(smp)["keyful_sampler"].cell_contents
    lp = closure_of(lpf)["logpdf"].cell_contents
    ctor_s = closure_of(ks)["dist"]
    ctor_l = closure_of(lp)["dist"]
    return smp, lpf, ks, lp, ctor_s, ctor_l


class TfpRec:
    """stands for a TFP distribution object: records construction, sample and log_prob calls"""

    def __init__(self, log, cls, args, kwargs):
        self.log, self.cls, self.args, self.kwargs = log, cls, args, kwargs
        log.append(("ctor", cls, args, kwargs))

    def sample(self, *a, **k):
        self.log.append(("sample", self, a, k))
        return "draw"

    def log_prob(self, v):
        self.log.append(("log_prob", self, (v,), {}))
        return "logp"


class _NoReplay(Contract):
    def replay(self, case, clause, model, path):
        from .native import run_native

        return run_native("distributions_native")


@contract("genjax.distributions:<24 wrappers>", ["C13"])
class WrapperTable(_NoReplay):
    """each exported wrapper selects the documented TFP constructor and binds its arguments positionally per the
    documented parameter order; sampler and logpdf construct the distribution from the same constructor"""

    target = "genjax.distributions:<24 wrappers>"
    cases = sorted(SPEC) + sorted(LAMBDA_SPEC)

    def __init__(self):
        self.mod = self.owner = self.fn = None

    def call(self, case):
        self.dist = getattr(D, case)
        self.smp, self.lpf, self.ks, self.lp, self.cs, self.cl = parts(self.dist)
        self.log = []
        if case in LAMBDA_SPEC:
            log = self.log
            stub = StubNS()
            for nm in ("Bernoulli", "Categorical"):
                setattr(stub, nm, (lambda nm: lambda *a, **k: TfpRec(log, nm, a, k))(nm))
            self._orig = D.tfd
            D.tfd = stub
            self.p = value("param")
            try:
                return self.real(self.cs.cell_contents, self.p)
            finally:
                D.tfd = self._orig
        return None

    def ensures(self, case, path):
        yield "is_a_Distribution", isinstance(self.dist, core.Distribution)
        yield "sampler_and_logpdf_share_one_constructor", self.cs.cell_contents is self.cl.cell_contents
        if case in SPEC:
            cls_name, pos = SPEC[case]
            ctor = self.cs.cell_contents
            yield "selects_the_documented_TFP_distribution", ctor is getattr(tfd_real, cls_name)
            params = [p for p in inspect.signature(ctor.__init__).parameters if p != "self"]
            yield "positional_arguments_bind_to_the_documented_parameters(installed TFP signature)", tuple(params[: len(pos)]) == pos
        else:
            cls_name, how, extra = LAMBDA_SPEC[case]
            yield "does_not_raise", path.outcome == "return"
            ct = [e for e in self.log if e[0] == "ctor"]
            yield "constructs_exactly_one_TFP_distribution", len(ct) == 1 and ct[0][1] == cls_name
            if len(ct) == 1:
                _, _, a, k = ct[0]
                pos_names = [p for p in inspect.signature(getattr(tfd_real, cls_name).__init__).parameters if p != "self"]
                bound = dict(zip(pos_names, a))
                bound.update(k)
                yield "argument_binds_as_documented", bound.get(how) is self.p
                for kk, vv in extra.items():
                    yield "documented_%s" % kk, vv in str(bound.get(kk))
                yield "no_other_parameter_set", set(bound) == {how} | set(extra)


@contract("genjax.core:tfp_distribution", ["C13"])
class TfpDistribution(_NoReplay):
    """generic mechanism: the keyed sampler builds dist(*args, **kwargs) and calls .sample(seed=key,
    sample_shape=sample_shape); logpdf builds the SAME dist(*args, **kwargs) and calls .log_prob(v)"""

    cases = ["sampler", "logpdf"]

    def call(self, case):
        self.log = []
        log = self.log
        ctor = lambda *a, **k: TfpRec(log, "X", a, k)
        self.d = core.tfp_distribution(ctor, name="x")
        smp, lpf, ks, lp, cs, cl = parts(self.d)
        self.args, self.kw = (value("a0"), value("a1")), {"validate_args": value("kw")}
        self.key, self.Sshape, self.v = value("key"), (Sym(fresh("s0", z3.IntSort())),), value("v")
        if case == "sampler":
            return self.real(ks, self.key, *self.args, sample_shape=self.Sshape, **self.kw)
        return self.real(lp, self.v, *self.args, **self.kw)

    def ensures(self, case, path):
        yield "does_not_raise", path.outcome == "return"
        if path.outcome != "return":
            return
        ct = [e for e in self.log if e[0] == "ctor"]
        yield "constructed_once_from_exactly_(args, kwargs)", len(ct) == 1 and all(a is b for a, b in zip(ct[0][2], self.args)) and len(ct[0][2]) == 2 and set(ct[0][3]) == {"validate_args"} and ct[0][3]["validate_args"] is self.kw["validate_args"]
        if case == "sampler":
            sc = [e for e in self.log if e[0] == "sample"]
            yield "sampled_with_the_given_key_and_sample_shape", len(sc) == 1 and sc[0][3].get("seed") is self.key and sc[0][3].get("sample_shape") is self.Sshape and not sc[0][2]
            yield "returns_the_draw", path.value == "draw"
        else:
            lc = [e for e in self.log if e[0] == "log_prob"]
            yield "log_prob_of_the_value", len(lc) == 1 and lc[0][2][0] is self.v
            yield "returns_the_log_density", path.value == "logp"


@contract("genjax.pjax:wrap_sampler", ["C13"])
class WrapSampler(_NoReplay):
    """sample_shape is removed from the keyword arguments and threaded to the site; everything else is forwarded"""

    cases = ["with_sample_shape", "without"]

    def call(self, case):
        self.rec = []
        outer = self

        def fake_binder(ks, name=None, sample_shape=(), support=None, **k):
            outer.rec.append(("binder", ks, name, sample_shape, support, k))
            return lambda *a, **kw: outer.rec.append(("call", a, kw)) or "site-result"

        self._o = pjax.sample_binder
        pjax.sample_binder = fake_binder
        self.ks = lambda key, *a, sample_shape=(), **k: None
        self.args, self.S = (value("a0"),), (3,)
        kw = {"scale": value("sc")}
        self.kw = dict(kw)
        if case == "with_sample_shape":
            kw["sample_shape"] = self.S
        try:
            return self.real(pjax.wrap_sampler(self.ks, name="d"), *self.args, **kw)
        finally:
            pjax.sample_binder = self._o

    def ensures(self, case, path):
        yield "does_not_raise", path.outcome == "return"
        if path.outcome != "return":
            return
        b = [e for e in self.rec if e[0] == "binder"]
        c = [e for e in self.rec if e[0] == "call"]
        yield "one_site_for_the_keyed_sampler_with_its_name", len(b) == 1 and b[0][1] is self.ks and b[0][2] == "d"
        yield "sample_shape_threaded_to_the_site", b[0][3] == (self.S if case == "with_sample_shape" else ())
        yield "sample_shape_removed_and_rest_forwarded", len(c) == 1 and c[0][1][0] is self.args[0] and set(c[0][2]) == {"scale"} and c[0][2]["scale"] is self.kw["scale"]
        yield "returns_site_result", path.value == "site-result"


@contract("genjax.pjax:wrap_logpdf", ["C13"])
class WrapLogpdf(_NoReplay):
    cases = ["default"]

    def call(self, case):
        self.rec = []
        outer = self
        self._o = pjax.log_density_binder
        pjax.log_density_binder = lambda lp, name=None: outer.rec.append(("binder", lp, name)) or (lambda *a, **k: outer.rec.append(("call", a, k)) or "density")
        self.lp = lambda v, *a, **k: None
        self.v, self.a, self.kw = value("v"), value("a0"), {"k": value("kv")}
        try:
            return self.real(pjax.wrap_logpdf(self.lp, name="d"), self.v, self.a, **self.kw)
        finally:
            pjax.log_density_binder = self._o

    def ensures(self, case, path):
        yield "does_not_raise", path.outcome == "return"
        if path.outcome != "return":
            return
        b = [e for e in self.rec if e[0] == "binder"]
        c = [e for e in self.rec if e[0] == "call"]
        yield "density_site_for_the_given_logpdf", len(b) == 1 and b[0][1] is self.lp and b[0][2] == "d"
        yield "value_args_kwargs_forwarded", len(c) == 1 and c[0][1][0] is self.v and c[0][1][1] is self.a and c[0][2].get("k") is self.kw["k"]


@contract("genjax.pjax:SamplerConfig.get_keyful_sampler_with_shape", ["C13", "C07"])
class KeyfulWithShape(_NoReplay):
    """the keyed sampler receives the site's sample_shape (possibly extended by the vectoriser)"""

    cases = ["default"]

    def call(self, case):
        self.calls = []
        ks = lambda key, *a, sample_shape=None, **k: self.calls.append((key, a, sample_shape, k)) or "draw"
        self.S = (Sym(fresh("n", z3.IntSort())), 2)
        cfg = pjax.SamplerConfig(keyful_sampler=ks, name="d", sample_shape=self.S)
        f = self.real(cfg.get_keyful_sampler_with_shape)
        self.key, self.a = value("key"), value("a")
        return self.real(f, self.key, self.a)

    def ensures(self, case, path):
        yield "does_not_raise", path.outcome == "return"
        if path.outcome == "return":
            yield "called_with_key_args_and_the_configs_sample_shape", len(self.calls) == 1 and self.calls[0][0] is self.key and self.calls[0][1] == (self.a,) and self.calls[0][2] is self.S


@contract("genjax.core:distribution", ["C13"])
class DistributionCtor(_NoReplay):
    """user-wrapped distributions: the callables are stored unchanged"""

    cases = ["default"]

    def call(self, case):
        self.s, self.l = (lambda *a: None), (lambda v, *a: None)
        return self.real(self.fn, self.s, self.l, name="mine")

    def ensures(self, case, path):
        yield "does_not_raise", path.outcome == "return"
        if path.outcome == "return":
            d = path.value
            yield "sampler_logpdf_name_stored_unchanged", isinstance(d, core.Distribution) and d._sample.value is self.s and d._logpdf.value is self.l and d.name.value == "mine"


@contract("genjax.distributions:__all__", ["C13"])
class AllExported(_NoReplay):
    """every exported distribution is covered by the spec table"""

    target = "genjax.distributions:__all__"
    cases = ["default"]

    def __init__(self):
        self.mod = self.owner = self.fn = None

    def call(self, case):
        return None

    def ensures(self, case, path):
        exported = {n for n in dir(D) if isinstance(getattr(D, n), core.Distribution)}
        yield "24_distributions_exported_and_all_in_the_table", exported == set(SPEC) | set(LAMBDA_SPEC) and len(exported) == 24

from vt.contract import canary as _canary  # noqa: E402

_canary(TfpDistribution, "sampler", "sampled_with_the_given_key_and_sample_shape")
