"""Native replays: run the real package (with beartype) in a fresh process on concrete inputs."""
import json, os, subprocess, sys
ROOT = os.path.dirname(os.path.dirname(os.path.abspath(__file__)))

_CACHE = {}


def run_native(name, *args, timeout=300):
    key = (name,) + tuple(map(str, args))
    if key not in _CACHE:
        _CACHE[key] = _run_native(name, *args, timeout=timeout)
    return _CACHE[key]


def _run_native(name, *args, timeout=300):
    env = dict(os.environ, JAX_PLATFORMS="cpu")
    try:
        out = subprocess.run([sys.executable, os.path.join(ROOT, "native", name + ".py"), *map(str, args)],
                             capture_output=True, text=True, timeout=timeout, env=env, cwd=ROOT)
    except subprocess.TimeoutExpired:
        return {"tier": "native", "confirmed": False, "error": "timeout"}
    for line in reversed(out.stdout.strip().splitlines()):
        if line.startswith("{"):
            try:
                d = json.loads(line)
                d.setdefault("tier", "native")
                return d
            except Exception:
                pass
    return {"tier": "native", "confirmed": False, "error": (out.stderr or out.stdout)[-1500:]}
