"""C19 — state/save is transparent and collects exactly what was saved (JAX-0.7 API model)."""
from __future__ import annotations

import types
from vt.stubs.ns import StubNS

import z3

from vt import loader, loops
from vt.contract import Contract, contract
from vt.maps import SymDict
from vt.stubs import jaxpr07 as J, lax as lax_stub
from vt.sym import Assumed, Atom, EngineLimit, Sym, V, _lift, atom_sym, engine, fresh, value
from vt.tensor import Tensor
from .core_gfi import same
from . import seed as S  # API-model patches on pjax (Environment uses them)

pjax = loader.load("pjax")
st = loader.load("state")
st.stage = S.STAGE
st.scan_p = J.scan_p
st.scan = lax_stub.scan
st.jex = StubNS(core=StubNS(jaxpr_as_fun=J.jaxpr_as_fun))
st.safe_map, st.split_list = J.safe_map, J.split_list


class _NoReplay(Contract):
    def replay(self, case, clause, model, path):
        return {"tier": "API-model", "confirmed": False, "note": "the state interpreter cannot execute on the sandbox's JAX 0.11; obligation is over the JAX-0.7 API model"}


def site(inner, **inner_params):
    p = object.__new__(pjax.PPPrimitive)
    p.prim, p.multiple_results, p.params = inner, True, dict(inner_params)
    p.get_bind_params = lambda params: ([], dict(params))
    p.binds = []
    p.bind = lambda *a, **k: p.binds.append((a, k)) or list(a)
    return p


def run(interp, eqns, invars, outvars, vals):
    jp = J.Jaxpr([], invars, eqns, outvars)
    return interp.eval_jaxpr_state(jp, [], vals)


@contract("genjax.state:State.eval_jaxpr_state", ["C19", "C18"])
class StateTagStep(_NoReplay):
    """generic step at a state_p site: collected[namespace path ++ name] = value (tuple for several values),
    a later write replaces, everything else in the dictionary untouched, outputs are the inputs"""

    cases = [f"{m}|depth={d}" for m in ("single", "pair", "overwrite", "name_in_bind_params") for d in (0, 1, 2)]

    def call(self, case):
        mode, _, d = case.partition("|depth=")
        self.depth = int(d)
        self.path = ["outer", "inner"][: self.depth]
        self.other = value("other")
        self.col = {"keep": self.other}
        if mode == "overwrite":
            cur = self.col
            for ns in self.path:
                cur = cur.setdefault(ns, {})
            cur["x"] = value("old_x")
            cur["sibling"] = self.other
        self.it = st.State(self.col, list(self.path))
        a, b, oa, ob = J.Var("a"), J.Var("b"), J.Var("oa"), J.Var("ob")
        self.va, self.vb = value("a"), value("b")
        if mode == "name_in_bind_params":
            prim, params = site(st.state_p), {"name": "x"}
        else:
            prim, params = site(st.state_p, name="x"), {}
        self.prim = prim
        if mode == "pair":
            return self.real(run, self.it, [J.Eqn(prim, [a, b], [oa, ob], params)], [a, b], [oa, ob], [self.va, self.vb])
        return self.real(run, self.it, [J.Eqn(prim, [a], [oa], params)], [a, b], [oa, b], [self.va, self.vb])

    def ensures(self, case, path):
        mode = case.partition("|")[0]
        yield "does_not_raise", path.outcome == "return"
        if path.outcome != "return":
            return
        cur = self.col
        ok = True
        for ns in self.path:
            ok = ok and isinstance(cur.get(ns), dict)
            cur = cur.get(ns, {})
        yield "namespace_nodes_exist", ok
        want = (self.va, self.vb) if mode == "pair" else self.va
        got = cur.get("x")
        yield "collected_under_namespace_path_and_name", (got == want and all(p is q for p, q in zip(got, want))) if mode == "pair" else got is want
        yield "rest_of_dictionary_untouched", self.col.get("keep") is self.other and (mode != "overwrite" or cur.get("sibling") is self.other)
        yield "no_stray_entries", set(cur) == ({"x"} | ({"sibling"} if mode == "overwrite" else set()) | ({"keep"} if self.depth == 0 else set()))
        outs = path.value
        yield "transparent(outputs_are_the_inputs)", outs[0] is self.va and outs[1] is self.vb
        yield "site_not_rebound", not self.prim.binds
        yield "namespace_stack_unchanged", self.it.namespace_stack == self.path


@contract("genjax.state:State.eval_jaxpr_state", ["C19"])
class StateLeafStep(_NoReplay):
    """leaf mode: the value is stored AT the current namespace (replacing it); outside a namespace it is an error"""

    cases = ["depth=1", "depth=2", "depth=0"]

    def call(self, case):
        self.depth = int(case[-1])
        self.path = ["outer", "inner"][: self.depth]
        self.other = value("other")
        self.col = {"keep": self.other}
        self.it = st.State(self.col, list(self.path))
        a, oa = J.Var("a"), J.Var("oa")
        self.va = value("a")
        prim = site(st.state_p, name="__NAMESPACE_LEAF__")
        return self.real(run, self.it, [J.Eqn(prim, [a], [oa], {})], [a], [oa], [self.va])

    def ensures(self, case, path):
        if self.depth == 0:
            yield "leaf_save_outside_namespace_raises", path.outcome == "raise" and isinstance(path.value.exc, ValueError)
            return
        yield "does_not_raise", path.outcome == "return"
        if path.outcome != "return":
            return
        cur = self.col
        for ns in self.path[:-1]:
            cur = cur.get(ns, {})
        yield "stored_at_the_namespace_leaf", cur.get(self.path[-1]) is self.va
        yield "rest_untouched", self.col.get("keep") is self.other
        yield "transparent", path.value[0] is self.va


@contract("genjax.state:State.eval_jaxpr_state", ["C19"])
class StateNamespaceStep(_NoReplay):
    """push / pop: stack discipline; pop on an empty stack raises; a save between push and pop lands in the namespace"""

    cases = ["push_save_pop", "pop_on_empty", "nested_push_push_save_pop_save_pop"]

    def call(self, case):
        self.col = {}
        self.it = st.State(self.col, [])
        a, oa, ob = J.Var("a"), J.Var("oa"), J.Var("ob")
        self.va = value("a")
        push = lambda ns: J.Eqn(site(st.namespace_push_p, namespace=ns), [], [], {})
        pop = lambda: J.Eqn(site(st.namespace_pop_p), [], [], {})
        tag = lambda name, o: J.Eqn(site(st.state_p, name=name), [a], [o], {})
        if case == "pop_on_empty":
            eqns = [pop()]
        elif case == "push_save_pop":
            eqns = [push("ns"), tag("x", oa), pop(), tag("y", ob)]
        else:
            eqns = [push("p"), push("q"), tag("x", oa), pop(), tag("y", ob), pop()]
        return self.real(run, self.it, eqns, [a], [a], [self.va])

    def ensures(self, case, path):
        if case == "pop_on_empty":
            yield "pop_on_empty_stack_raises", path.outcome == "raise" and isinstance(path.value.exc, ValueError)
            return
        yield "does_not_raise", path.outcome == "return"
        if path.outcome != "return":
            return
        if case == "push_save_pop":
            yield "collected_structure", self.col == {"ns": {"x": self.va}, "y": self.va} and self.col["ns"]["x"] is self.va
        else:
            yield "collected_structure", self.col == {"p": {"q": {"x": self.va}, "y": self.va}}
        yield "stack_empty_at_the_end", self.it.namespace_stack == []


@contract("genjax.state:State.eval_jaxpr_state", ["C19", "C14"])
class StateOtherStep(_NoReplay):
    """any other primitive is bound unchanged and its results are written to the out variables"""

    cases = ["single_result", "multiple_results", "no_outvars"]

    def call(self, case):
        self.col = {}
        self.it = st.State(self.col, [])
        multi = case == "multiple_results"
        self.p = J.Prim("f", multiple_results=multi, n_out=2 if multi else 1)
        x, y = J.Var("x"), J.Var("y")
        outs = [] if case == "no_outvars" else ([J.Var("o0"), J.Var("o1")] if multi else [J.Var("o0")])
        self.vx, self.vy = value("x"), value("y")
        return self.real(run, self.it, [J.Eqn(self.p, [x, y], outs, {"axis": 1})], [x, y], outs + [y], [self.vx, self.vy])

    def ensures(self, case, path):
        yield "does_not_raise", path.outcome == "return"
        if path.outcome != "return":
            return
        b = self.p.binds
        yield "bound_once_unchanged", len(b) == 1 and all(p is q for p, q in zip(b[0][0], (self.vx, self.vy))) and b[0][1] == {"axis": 1}
        yield "nothing_collected", self.col == {}
        yield "other_variables_untouched", path.value[-1] is self.vy


@contract("genjax.state:State.eval_jaxpr_state", ["C19", "C18"])
class StateScanStep(_NoReplay):
    """scan: the body is re-interpreted per iteration with a fresh interpreter; what it saved is stacked
    along the iteration axis and merged UNDER THE NAMESPACE PATH CURRENT AT THE SCAN (merging into, not
    replacing, namespaces that already exist); carry/outputs are those of the plain scan"""

    cases = ["root", "inside_namespace", "body_namespace_already_exists", "body_namespace_depth2_already_exists", "two_saves_same_name_in_body", "reverse_scan", "save_only_inside_nested_scan"]

    def call(self, case):
        self.case = case
        self.rev = case == "reverse_scan"
        self.other = value("other")
        self.col = {"keep": self.other}
        stack = ["ns"] if case == "inside_namespace" else []
        if case == "body_namespace_already_exists":
            self.col["inner"] = {"z": self.other}
        if case == "body_namespace_depth2_already_exists":
            self.col["outer"] = {"inner": {"z": self.other}, "sib": self.other}
        self.it = st.State(self.col, stack)
        # body(const, carry, x): save(x=carry-derived value) [inside namespace "inner" for that case]; returns (f(carry,x), g)
        cst, car, xv = J.Var("cst"), J.Var("car"), J.Var("xv")
        o1, o2, nc = J.Var("o1"), J.Var("o2"), J.Var("nc")
        self.f = J.Prim("f")
        eqns = [J.Eqn(self.f, [cst, car, xv], [nc], {})]
        tag = J.Eqn(site(st.state_p, name="x"), [nc], [o1], {})
        if case == "body_namespace_already_exists":
            eqns += [J.Eqn(site(st.namespace_push_p, namespace="inner"), [], [], {}), tag, J.Eqn(site(st.namespace_pop_p), [], [], {})]
        elif case == "body_namespace_depth2_already_exists":
            eqns += [J.Eqn(site(st.namespace_push_p, namespace="outer"), [], [], {}), J.Eqn(site(st.namespace_push_p, namespace="inner"), [], [], {}), tag,
                     J.Eqn(site(st.namespace_pop_p), [], [], {}), J.Eqn(site(st.namespace_pop_p), [], [], {})]
        elif case == "two_saves_same_name_in_body":
            eqns += [J.Eqn(site(st.state_p, name="x"), [car], [o2], {}), tag]
        elif case == "save_only_inside_nested_scan":
            # the outer body's only tagging happens inside an inner scan (a kernel that loops over sub-moves)
            ic, ix, io = J.Var("ic"), J.Var("ix"), J.Var("io")
            inner = J.ClosedJaxpr(J.Jaxpr([], [ic, ix], [J.Eqn(site(st.state_p, name="x"), [ic], [io], {})], [io, io]), [])
            self.T2 = fresh("T2", z3.IntSort())
            engine().assume(self.T2 >= 1)
            ifc, iys = J.Var("ifc"), J.Var("iys")
            self.inner_xs = Tensor.fresh("inner_xs", (self.T2,), V)
            ixs = J.Literal(self.inner_xs)
            eqns += [J.Eqn(J.scan_p, [nc, ixs], [ifc, iys], {"jaxpr": inner, "length": Sym(self.T2), "reverse": False, "unroll": 1, "num_consts": 0, "num_carry": 1, "linear": None})]
            o1 = ifc
        else:
            eqns += [tag]
        body = J.ClosedJaxpr(J.Jaxpr([], [cst, car, xv], eqns, [o1, o1]), [])
        self.T = fresh("T", z3.IntSort())
        engine().assume(self.T >= 1)
        k, c0, xs, fc, ys = (J.Var(n) for n in ("k", "c0", "xs", "fc", "ys"))
        self.vk, self.vc0 = value("const"), value("carry0")
        self.vxs = Tensor.fresh("xs", (self.T,), V)
        params = {"jaxpr": body, "length": Sym(self.T), "reverse": self.rev, "unroll": 1, "num_consts": 1, "num_carry": 1, "linear": None}
        return self.real(run, self.it, [J.Eqn(J.scan_p, [k, c0, xs], [fc, ys], params)], [k, c0, xs], [fc, ys], [self.vk, self.vc0, self.vxs])

    def ensures(self, case, path):
        yield "does_not_raise", path.outcome == "return"
        if path.outcome != "return":
            return
        scans = path.extra.get("scans", [])
        if case == "save_only_inside_nested_scan":
            st_x = self.col.get("x")
            yield "values_saved_inside_a_nested_scan_are_collected", isinstance(st_x, Tensor)
            if isinstance(st_x, Tensor):
                yield "stacked_along_both_iteration_axes", st_x.ndim == 2 and z3.eq(_lift(st_x.shape[0]), self.T) and z3.eq(_lift(st_x.shape[1]), self.T2)
            yield "rest_of_dictionary_untouched", self.col.get("keep") is self.other
            return
        yield "one_scan_with_the_original_length", len(scans) == 1 and z3.eq(scans[0]["T"], self.T)
        if len(scans) != 1:
            return
        rec = scans[0]
        t = rec["t"]
        yield "scan_direction_preserved", bool(rec["reverse"]) == self.rev
        pos = (self.T - 1 - t) if self.rev else t  # where the original scan stacks what iteration t produced
        from vt.gfi import enc

        carry_t = rec["carry_at"](t)
        step_val = lambda tt: self.f.bind.__self__ and None
        # value saved at iteration t: f(const, carry_t, xs_t)
        fb = [b for b in self.f.binds]
        yield "body_interpreted_once_per_generic_iteration", len(fb) == 1 and fb[0][0][0] is self.vk
        node = self.col
        if case == "inside_namespace":
            node = self.col.get("ns", {})
            yield "collected_under_the_namespace_current_at_the_scan", isinstance(self.col.get("ns"), dict) and "x" in self.col.get("ns", {}) and "x" not in self.col
        if case == "body_namespace_already_exists":
            yield "existing_namespace_merged_not_replaced", isinstance(self.col.get("inner"), dict) and self.col["inner"].get("z") is self.other and "x" in self.col["inner"]
            node = self.col.get("inner", {})
        if case == "body_namespace_depth2_already_exists":
            o = self.col.get("outer", {})
            yield "nested_existing_namespace_merged_at_every_level", isinstance(o, dict) and o.get("sib") is self.other and isinstance(o.get("inner"), dict) and o["inner"].get("z") is self.other and "x" in o["inner"]
            node = o.get("inner", {}) if isinstance(o, dict) else {}
        stacked = node.get("x") if isinstance(node, dict) else None
        yield "saved_values_stacked_along_iteration_axis", isinstance(stacked, Tensor) and stacked.ndim == 1 and z3.eq(_lift(stacked.shape[0]), self.T)
        if isinstance(stacked, Tensor):
            new_carry = rec["new_carry"]
            # iteration t's saved value is the value computed in iteration t (= the new carry here)
            yield "lane_t_is_the_value_saved_in_iteration_t", same(Sym(stacked.fn((pos,))), new_carry[0])
        yield "rest_of_dictionary_untouched", self.col.get("keep") is self.other
        yield "scan_primitive_not_rebound", len(J.scan_p.binds) == 0

    def __init__(self):
        super().__init__()
        J.scan_p.binds.clear()


@contract("genjax.state:state", ["C19", "C18"])
class StateWrapper(_NoReplay):
    """state(f)(*args) = (f's result, what was collected), with a fresh interpreter per call"""

    cases = ["two_calls"]

    def call(self, case):
        x, o = J.Var("x"), J.Var("o")
        closed = J.ClosedJaxpr(J.Jaxpr([], [x], [J.Eqn(site(st.state_p, name="v"), [x], [o], {})], [o]), [])

        def f(x):
            raise EngineLimit("body represented by its Jaxpr")

        f.__vt_jaxpr__ = closed
        self.v1, self.v2 = value("v1"), value("v2")
        sf = st.state(f)
        return self.real(sf, self.v1), self.real(sf, self.v2)

    def ensures(self, case, path):
        yield "does_not_raise", path.outcome == "return"
        if path.outcome != "return":
            return
        (r1, c1), (r2, c2) = path.value
        yield "result_is_fs_result", r1[0] is self.v1 and r2[0] is self.v2
        yield "collected_exactly_what_was_saved", c1 == {"v": self.v1} and c2 == {"v": self.v2} and c1["v"] is self.v1
        yield "no_state_shared_between_calls", c1 is not c2


# ------------------------------------------------------------------------------------------------
# user-facing functions: tag_state / save / namespace.  `initial_style_bind(prim, **params)(f, **elab)(*args)`
# evaluates to f(*args) and emits one equation of `prim` (assumed contract of the binding machinery).


class BindRec:
    def __init__(self):
        self.bound = []

    def __call__(self, prim, **params):
        def bind(f, **elab):
            def wrapped(*a, **k):
                Assumed.note("initial_style_bind(prim, **params)(f, **kw)(*args) evaluates to f(*args) and records one equation of prim")
                self.bound.append({"prim": prim, "params": params, "elab": elab, "args": a})
                return f(*a, **k)

            return wrapped

        return bind


@contract("genjax.state:tag_state", ["C19"])
class TagState(_NoReplay):
    cases = ["single", "pair", "no_values"]

    def call(self, case):
        self.rec = BindRec()
        st.initial_style_bind = self.rec
        self.a, self.b = value("a"), value("b")
        if case == "single":
            return self.real(self.fn, self.a, name="n")
        if case == "pair":
            return self.real(self.fn, self.a, self.b, name="n")
        return self.real(self.fn, name="n")

    def ensures(self, case, path):
        if case == "no_values":
            yield "requires_a_value", path.outcome == "raise" and isinstance(path.value.exc, ValueError)
            return
        yield "does_not_raise", path.outcome == "return"
        if path.outcome != "return":
            return
        r = path.value
        yield "identity_on_values", (r is self.a) if case == "single" else (isinstance(r, tuple) and r[0] is self.a and r[1] is self.b)
        b = self.rec.bound
        yield "one_state_site_with_the_name", len(b) == 1 and b[0]["prim"] is st.state_p and b[0]["elab"].get("name") == "n"
        yield "site_carries_the_values", len(b) == 1 and all(p is q for p, q in zip(b[0]["args"], (self.a, self.b)))


@contract("genjax.state:tag_state", ["C19"])
class TagStateBatchRule(_NoReplay):
    """under vmap the site is re-inserted on the batched values and every saved value keeps ITS OWN batch axis"""

    cases = ["single_batched", "pair_mixed_axes", "pair_one_unbatched"]

    def call(self, case):
        self.rec = BindRec()
        st.initial_style_bind = self.rec
        self.a, self.b = value("a"), value("b")
        self.real(self.fn, self.a, name="n")
        rule = self.rec.bound[0]["params"]["batch"]
        self.rec.bound.clear()
        n = fresh("n", z3.IntSort())
        self.va, self.vb = Tensor.fresh("va", (n,), V), Tensor.fresh("vb", (3, n), V)
        if case == "single_batched":
            self.dims = (0,)
            return self.real(rule, (self.va,), self.dims, name="n")
        self.dims = (0, 1) if case == "pair_mixed_axes" else (0, None)
        return self.real(rule, (self.va, self.vb), self.dims, name="n")

    def ensures(self, case, path):
        yield "does_not_raise", path.outcome == "return"
        if path.outcome != "return":
            return
        vals, dims = path.value
        b = self.rec.bound
        yield "site_reinserted_once_on_batched_values_with_the_name", len(b) == 1 and b[0]["prim"] is st.state_p and b[0]["elab"].get("name") == "n" and b[0]["args"][0] is self.va
        yield "values_are_the_batched_values", vals[0] is self.va and (len(vals) == 1 or vals[1] is self.vb)
        yield "each_value_keeps_its_own_batch_axis", tuple(dims) == tuple(self.dims)


@contract("genjax.state:save", ["C19", "C18", "C09"])
class Save(_NoReplay):
    cases = ["named", "leaf_single", "leaf_several", "both_modes"]

    def call(self, case):
        self.tags = []
        outer = self
        self._orig = st.tag_state
        st.tag_state = lambda *v, name: outer.tags.append((v, name)) or (v if len(v) > 1 else v[0])
        self.a, self.b = value("a"), value("b")
        try:
            if case == "named":
                return self.real(self.fn, first=self.a, second=self.b)
            if case == "leaf_single":
                return self.real(self.fn, self.a)
            if case == "leaf_several":
                return self.real(self.fn, self.a, self.b)
            return self.real(self.fn, self.a, x=self.b)
        finally:
            st.tag_state = self._orig

    def ensures(self, case, path):
        if case == "both_modes":
            yield "mixing_modes_raises", path.outcome == "raise" and isinstance(path.value.exc, ValueError)
            return
        yield "does_not_raise", path.outcome == "return"
        if path.outcome != "return":
            return
        r = path.value
        if case == "named":
            yield "each_value_tagged_under_its_name", self.tags == [((self.a,), "first"), ((self.b,), "second")]
            yield "returns_the_saved_values", r == {"first": self.a, "second": self.b}
        elif case == "leaf_single":
            yield "tagged_at_namespace_leaf", len(self.tags) == 1 and self.tags[0][1] == "__NAMESPACE_LEAF__" and self.tags[0][0][0] is self.a
            yield "returns_the_value", r is self.a
        else:
            yield "tagged_at_namespace_leaf_as_tuple", len(self.tags) == 1 and self.tags[0][1] == "__NAMESPACE_LEAF__" and self.tags[0][0][0] == (self.a, self.b)
            yield "returns_the_values", r == (self.a, self.b)


@contract("genjax.state:namespace", ["C19"])
class Namespace(_NoReplay):
    """push, run, pop — the pop also happens when the wrapped function raises"""

    cases = ["returns", "raises"]

    def call(self, case):
        self.log = []
        outer = self
        self._o = (st._namespace_push, st._namespace_pop)
        st._namespace_push = lambda ns: outer.log.append(("push", ns))
        st._namespace_pop = lambda: outer.log.append(("pop",))
        self.a = value("a")

        class Boom(Exception):
            pass

        self.Boom = Boom

        def f(x, k=None):
            outer.log.append(("call", x, k))
            if case == "raises":
                from vt.sym import documented

                raise documented(Boom())
            return x

        try:
            return self.real(self.fn(f, "ns"), self.a, k=1)
        finally:
            st._namespace_push, st._namespace_pop = self._o

    def ensures(self, case, path):
        yield "push_call_pop_in_order", self.log == [("push", "ns"), ("call", self.a, 1), ("pop",)]
        if case == "returns":
            yield "transparent", path.outcome == "return" and path.value is self.a
        else:
            yield "exception_propagates", path.outcome == "raise" and isinstance(path.value.exc, self.Boom)


@contract("genjax.state:_namespace_push", ["C19"])
class NsPushPop(_NoReplay):
    cases = ["push", "pop"]

    def call(self, case):
        self.rec = BindRec()
        st.initial_style_bind = self.rec
        if case == "push":
            return self.real(st._namespace_push, "ns")
        return self.real(st._namespace_pop)

    def ensures(self, case, path):
        yield "does_not_raise", path.outcome == "return"
        b = self.rec.bound
        if case == "push":
            yield "one_push_site_with_the_namespace", len(b) == 1 and b[0]["prim"] is st.namespace_push_p and b[0]["elab"].get("namespace") == "ns"
        else:
            yield "one_pop_site", len(b) == 1 and b[0]["prim"] is st.namespace_pop_p
        if len(b) == 1:
            rule = b[0]["params"]["batch"]
            b.clear()
            out = rule((), (), namespace="ns")
            yield "batch_rule_reinserts_the_site", len(b) == 1 and b[0]["prim"] is (st.namespace_push_p if case == "push" else st.namespace_pop_p) and out == ((), ())
            if case == "push":
                yield "batch_rule_keeps_the_namespace", b[0]["elab"].get("namespace") == "ns"


@contract("genjax.state:_nested_dict_merge", ["C19", "C18"])
class NestedDictMerge(_NoReplay):
    """unbounded depth by induction on nesting: for a generic entry (key, value) of src, if both value and dst[key]
    are dicts the merge RECURSES into (dst[key], value) in place and writes nothing else; otherwise dst[key] = value
    (a later write replaces); no other key of dst is touched"""

    cases = ["both_dicts", "value_dict_dst_missing_or_leaf", "value_leaf"]

    def call(self, case):
        pc = loops.pieces(st._nested_dict_merge, 0)
        self.pc = pc
        self.key = atom_sym("key")
        Has = z3.Function(engine().fresh_name("HasDst"), Atom, z3.BoolSort())
        self.Has = Has
        self.existing_dict = {"__existing__": 1}
        self.existing_leaf = value("existing_leaf")
        if case == "both_dicts":
            get = lambda k: self.existing_dict
            engine().assume(Has(self.key.e))
        else:
            get = lambda k: self.existing_leaf
        self.dst = SymDict("dst", init_has=lambda k: Has(k), init_get=get)
        self.val = {"__incoming__": 2} if case != "value_leaf" else value("incoming_leaf")
        self.rec = []
        outer = self
        self._o = st._nested_dict_merge
        st._nested_dict_merge = lambda d, s_: outer.rec.append((d, s_))
        base = {n: None for n in pc["locals"]}
        base.update(dst=self.dst, src=None)
        tg = pc["targets"]
        base[tg[0]], base[tg[1]] = self.key, self.val
        try:
            return self.real(pc["body"], **base)
        finally:
            st._nested_dict_merge = self._o

    def ensures(self, case, path):
        yield "does_not_raise", path.outcome == "return"
        if path.outcome != "return":
            return
        w = self.dst.writes
        if case == "both_dicts":
            yield "recurses_into_(dst[key], value)_in_place", len(self.rec) == 1 and self.rec[0][0] is self.existing_dict and self.rec[0][1] is self.val
            yield "existing_namespace_object_kept(no_overwrite)", len(w) == 0
        else:
            yield "no_recursion", not self.rec
            yield "dst[key]_set_to_value_and_nothing_else_written", len(w) == 1 and z3.eq(w[0][0], self.key.e) and w[0][1] is self.val
        yield "iterates_over_src_items", self.pc["iter_src"].replace(" ", "") == "src.items()"


# ------------------------------------------------------------------------------------------------
# _nested_dict_set / _nested_dict_get: unbounded namespace depth by loop invariant on the extracted pieces


@contract("genjax.state:_nested_dict_set", ["C19"])
class NestedDictSet(_NoReplay):
    """loop `for namespace in path`: each step descends into current[namespace], creating {} iff missing and
    touching nothing else; after the loop `current[key] = value` (set) / `current` is returned (get)."""

    cases = ["set:body", "set:suffix", "set:prefix", "get:body", "get:suffix"]

    def call(self, case):
        which, _, piece = case.partition(":")
        fn = st._nested_dict_set if which == "set" else st._nested_dict_get
        pc = loops.pieces(fn, 0)
        self.pc = pc
        Has = z3.Function(engine().fresh_name("Has"), Atom, z3.BoolSort())
        self.Has = Has
        self.child = {}
        def get(k):
            key = str(k)
            if key not in self.child:
                self.child[key] = {"__old_child__": key}
            return self.child[key]
        self.cur = SymDict("current", init_has=lambda k: Has(k), init_get=get)
        base = {n: None for n in pc["locals"]}
        self.ns = atom_sym("namespace")
        self.key, self.val = atom_sym("key"), value("value")
        if piece == "prefix":
            self.d = {"m": 1}
            base.update(d=self.d, path=("a",), key=self.key, value=self.val)
            base = {k: v for k, v in base.items() if k in pc["locals"]}
            return self.real(pc["prefix"], **base)
        base.update(current=self.cur, key=self.key, value=self.val, d=None, path=None)
        base = {k: v for k, v in base.items() if k in pc["locals"]}
        if piece == "suffix":
            return self.real(pc["suffix"], **base)
        base[pc["targets"][0]] = self.ns
        return self.real(pc["body"], **base)

    def ensures(self, case, path):
        which, _, piece = case.partition(":")
        yield "does_not_raise", path.outcome == "return"
        if path.outcome != "return":
            return
        kind, payload = path.value
        if piece == "prefix":
            yield "starts_at_the_root", kind == "fallthrough" and payload["current"] is self.d
            return
        if piece == "suffix":
            if which == "set":
                yield "sets_key_in_the_reached_node_only", len(self.cur.writes) == 1 and z3.eq(self.cur.writes[0][0], self.key.e) and self.cur.writes[0][1] is self.val
            else:
                yield "returns_the_reached_node", kind == "return" and payload is self.cur and not self.cur.writes
            return
        new = payload["current"]
        existed = self.Has(self.ns.e)
        w = self.cur.writes
        created = len(w) == 1 and z3.eq(w[0][0], self.ns.e) and isinstance(w[0][1], dict) and w[0][1] == {} and new is w[0][1]
        kept = len(w) == 0 and new is self.child.get(str(self.ns.e))
        yield "descends_into_existing_child_or_creates_empty", z3.If(existed, z3.BoolVal(kept), z3.BoolVal(created))
        yield "nothing_else_written", len(w) <= 1

@contract("genjax.state:State.eval_jaxpr_state", ["C19"])
class LeafModeWalk(_NoReplay):
    """leaf-mode save under a namespace stack of ANY depth: the inline block `current = collected_state; for namespace
    in namespace_path[:-1]: ...; current[namespace_path[-1]] = value` (extracted mechanically from the interpreter,
    located by its loop header) is the same walk as _nested_dict_set: each step descends into current[namespace],
    creating {} iff missing and writing nothing else; the value is stored under the LAST namespace in the node reached"""

    cases = ["prefix", "body", "suffix"]

    def call(self, case):
        pc = loops.block_pieces(st.State.eval_jaxpr_state, "namespace_path[:-1]")
        self.pc = pc
        for nm in ("current", "namespace_path", "value", "self"):
            if nm not in pc["locals"]:
                raise EngineLimit("leaf-mode block has no local %r (restructured)" % nm)
        Has = z3.Function(engine().fresh_name("Has"), Atom, z3.BoolSort())
        self.Has = Has
        self.child = {}

        def get(k):
            key = str(k)
            if key not in self.child:
                self.child[key] = {"__old_child__": key}
            return self.child[key]

        self.cur = SymDict("current", init_has=lambda k: Has(k), init_get=get)
        base = {n: None for n in pc["locals"]}
        self.val = value("value")
        self.ns = atom_sym("namespace")
        self.last = atom_sym("last_namespace")

        class Path:
            """namespace_path of arbitrary length: only its last element and its [:-1] prefix are used by the block"""

            def __init__(s, last):
                s.last = last

            def __getitem__(s, k):
                if k == -1:
                    return s.last
                if isinstance(k, slice) and k.start is None and k.stop == -1 and k.step is None:
                    return ("<all but the last namespace>",)
                raise EngineLimit("namespace_path[%r]" % (k,))

            def __bool__(s):
                return True

        self.path_obj = Path(self.last)
        if case == "prefix":
            self.root = {"m": 1}
            interp = st.State(collected_state=self.root, namespace_stack=[])
            base.update(self=interp, namespace_path=self.path_obj, value=self.val)
            kind, locs = self.real(pc["prefix"], **base)
            _k, it = pc["iter"](**locs)
            self.iter = it
            return kind, locs
        base.update(current=self.cur, namespace_path=self.path_obj, value=self.val)
        if case == "suffix":
            return self.real(pc["suffix"], **base)
        base[pc["targets"][0]] = self.ns
        return self.real(pc["body"], **base)

    def ensures(self, case, path):
        yield "does_not_raise", path.outcome == "return"
        if path.outcome != "return":
            return
        kind, payload = path.value
        if case == "prefix":
            yield "walk_starts_at_the_collected_state", kind == "fallthrough" and payload["current"] is self.root
            yield "walk_visits_every_namespace_but_the_last", self.iter == ("<all but the last namespace>",)
            return
        if case == "suffix":
            w = self.cur.writes
            yield "value_stored_under_the_last_namespace_in_the_reached_node_only", len(w) == 1 and z3.eq(w[0][0], self.last.e) and w[0][1] is self.val
            return
        new = payload["current"]
        existed = self.Has(self.ns.e)
        w = self.cur.writes
        created = len(w) == 1 and z3.eq(w[0][0], self.ns.e) and isinstance(w[0][1], dict) and w[0][1] == {} and new is w[0][1]
        kept = len(w) == 0 and new is self.child.get(str(self.ns.e))
        yield "descends_into_existing_child_or_creates_empty", z3.If(existed, z3.BoolVal(kept), z3.BoolVal(created))
        yield "nothing_else_written", len(w) <= 1


from vt.contract import canary as _canary  # noqa: E402

_canary(StateScanStep, "inside_namespace", "lane_t_is_the_value_saved_in_iteration_t")
