"""C17 — the ELBO objective and the VI loop (genjax/inference/vi.py).  Unbiasedness of the estimate and of its
gradient is C11's (the objective is wrapped by `expectation`); here: the objective computes
log p(x, z) - log q(z), is tight at the posterior (lemma), and the optimiser applies params + lr * gradient."""
from __future__ import annotations

import types
from vt.stubs.ns import StubNS

import z3

from vt import loader
from vt.contract import Contract, contract
from vt.gfi import AbsGF, enc, enc_args
from vt.stubs import jnp as jnp_stub, lax as lax_stub
from vt.sym import Assumed, EngineLimit, Sym, V, _lift, engine, fresh, integer, real, value
from vt.tensor import Tensor, mk_sum
from . import _patch  # noqa: F401
from .core_gfi import same

core = loader.load("core")
vi = loader.load("inference.vi")
JNP = jnp_stub.namespace()
vi.jnp = JNP
vi.scan = lax_stub.scan
EXPECT = []
vi.expectation = lambda f: EXPECT.append(f) or StubNS(inner=f, wrapped_by="expectation")


class _NoReplay(Contract):
    def replay(self, case, clause, model, path):
        return {"tier": "API-model", "confirmed": False, "note": "ADEV/VI cannot execute on the sandbox's JAX 0.11"}


@contract("genjax.inference.vi:elbo_factory", ["C17"])
class ElboFactory(_NoReplay):
    """elbo(*theta) = log p(target_args; merge(constraint, z)) + score(q trace) with z ~ q(constraint, *theta):
    i.e. log p(x, z) - log q(z); the objective is an `expectation` program"""

    cases = ["default"]

    def call(self, case):
        EXPECT.clear()
        self.p, self.q = AbsGF("target"), AbsGF("family")
        self.c = value("constraint")
        self.targs = (value("t0"),)
        self.theta = (value("theta0"), value("theta1"))
        obj = self.real(self.fn, self.p, self.q, self.c, self.targs)
        self.obj = obj
        return self.real(obj.inner, *self.theta)

    def ensures(self, case, path):
        yield "does_not_raise", path.outcome == "return"
        if path.outcome != "return":
            return
        p, q = self.p, self.q
        yield "objective_is_an_expectation_program", len(EXPECT) == 1 and getattr(self.obj, "wrapped_by", None) == "expectation"
        sc = [c for c in q.calls if c[0] == "simulate"]
        yield "family_simulated_once_on_(constraint, *params)", len(q.calls) == 1 and len(sc) == 1 and sc[0][1][0] is self.c and all(a is b for a, b in zip(sc[0][1][1:], self.theta))
        aq = enc_args((self.c,) + self.theta, {})
        z = q.DrawF(aq, z3.IntVal(1))
        ms = [p.MergeF(self.c.e, z, enc(None)), p.MergeF(z, self.c.e, enc(None))]
        ap = enc_args(self.targs, {})
        # precondition: the family's addresses are disjoint from the constrained ones (merge order immaterial)
        yield "value_is_log_p(constraint_and_z)_minus_log_q(z)", z3.Or(*[same(path.value, Sym(p.D(ap, m) - q.D(aq, z))) for m in ms])
        mc = [c for c in p.calls if c[0] == "merge"]
        yield "merged_map_contains_constraint_and_sampled_choices", len(mc) == 1 and {id(mc[0][1][0]), id(mc[0][1][1])} >= {id(self.c)}
        ac = [c for c in p.calls if c[0] == "assess"]
        yield "target_assessed_once_with_target_args", len(ac) == 1 and ac[0][1][1] is self.targs[0]


@contract("lemma:elbo_tight_at_posterior", ["C17"], kind="lemma")
class ElboTight(Contract):
    """if q is the exact posterior, log q(z) = log p(x,z) - log p(x), the objective equals log p(x) for EVERY draw z"""

    cases = ["default"]

    def call(self, case):
        return None

    def ensures(self, case, path):
        lp_xz, lq_z, lZ, val = z3.Reals("logp_xz logq_z logZ value")
        yield "value_is_log_evidence_for_every_draw", z3.Implies(z3.And(val == lp_xz - lq_z, lq_z == lp_xz - lZ), val == lZ)


@contract("genjax.inference.vi:optimize_vi", ["C17"])
class OptimizeVI(_NoReplay):
    """theta_{t+1} = theta_t + lr * grad_estimate(theta_t) for n_iterations steps; history[t] = theta_{t+1}; final = theta_T"""

    cases = ["track_history", "no_history"]

    def call(self, case):
        eng = engine()
        self.d = fresh("d", z3.IntSort())
        eng.assume(self.d >= 1)
        self.T = integer("n_iterations")
        eng.assume(self.T.e >= 1)
        self.lr = real("lr")
        self.init = Tensor.fresh("theta0", (self.d,))
        self.G = z3.Function("GradEst", V, z3.IntSort(), z3.RealSort())
        outer = self
        self.gcalls = []

        class Elbo:
            def grad_estimate(s, params):
                outer.gcalls.append(params)
                pt = enc(params)
                return Tensor(params.shape, lambda idx: outer.G(pt, idx[0]))

        return self.real(self.fn, Elbo(), self.init, self.lr, self.T, case == "track_history")

    def ensures(self, case, path):
        yield "does_not_raise", path.outcome == "return"
        if path.outcome != "return":
            return
        r = path.value
        scans = path.extra.get("scans", [])
        yield "one_scan_of_n_iterations", len(scans) == 1 and z3.eq(z3.simplify(scans[0]["T"]), z3.simplify(self.T.e))
        if len(scans) != 1:
            return
        rec = scans[0]
        t = rec["t"]
        i = fresh("i", z3.IntSort())
        rng = z3.And(i >= 0, i < self.d)
        cur = rec["carry_t"]
        new = rec["new_carry"]
        yield "starts_at_init_params", rec["init"] is self.init
        yield "gradient_estimated_at_the_current_params", len(self.gcalls) == 1 and self.gcalls[0] is cur
        yield "update_is_params_plus_lr_times_gradient(ascent)", z3.Implies(rng, new.fn((i,)) == cur.fn((i,)) + self.lr.e * self.G(enc(cur), i))
        fin = rec["carry_at"](rec["T"])
        yield "final_params_are_the_last_iterate", z3.Implies(rng, r.final_params.fn((i,)) == fin.fn((i,)))
        yield "n_iterations_recorded", r.n_iterations.value is self.T
        if case == "track_history":
            tt = fresh("tt", z3.IntSort())
            h = r.param_history
            yield "history_t_is_iterate_t+1", isinstance(h, Tensor) and h.ndim == 2 and z3.Implies(
                z3.And(rng, tt >= 0, tt < self.T.e), h.fn((tt, i)) == z3.substitute(new.fn((i,)), (t, tt))
            )
        else:
            yield "no_history_kept", not isinstance(r.param_history, Tensor) or r.param_history.shape[0] == 0


class HandlerRec:
    def __init__(self):
        self.sites = []

    def __call__(self, addr, gf, args, kwargs=None):
        self.sites.append((addr, gf, args, kwargs))
        return "site-value"


class _Family(_NoReplay):
    def run_body(self, fam, constraint, params):
        core.handler_stack.clear()
        self.h = HandlerRec()
        core.handler_stack.append(self.h)
        try:
            return self.real(fam.source.value, constraint, params)
        finally:
            core.handler_stack.clear()


@contract("genjax.inference.vi:mean_field_normal_family", ["C17"])
class MeanField(_Family):
    """params = [means (n) | log_stds (n)]; site 'x' ~ MVN(means, diag(exp(log_stds)^2)) with the named estimator"""

    cases = ["reparam", "reinforce", "unknown_estimator"]

    def call(self, case):
        self.n = fresh("n", z3.IntSort())
        engine().assume(self.n >= 1)
        if case == "unknown_estimator":
            return self.real(self.fn, Sym(self.n), "bogus")
        fam = self.real(self.fn, Sym(self.n), case)
        self.params = Tensor.fresh("params", (2 * self.n,))
        return self.run_body(fam, value("constraint"), self.params)

    def ensures(self, case, path):
        if case == "unknown_estimator":
            yield "unknown_estimator_raises_ValueError", path.outcome == "raise" and isinstance(path.value.exc, ValueError)
            return
        yield "does_not_raise", path.outcome == "return"
        if path.outcome != "return":
            return
        s = self.h.sites
        yield "one_site_named_x", len(s) == 1 and s[0][0] == "x"
        if len(s) != 1:
            return
        want = vi.multivariate_normal_reparam if case == "reparam" else vi.multivariate_normal_reinforce
        yield "estimator_selected_by_name", s[0][1] is want
        mean, cov = s[0][2]
        i, j = fresh("i", z3.IntSort()), fresh("j", z3.IntSort())
        n = self.n
        rng = z3.And(i >= 0, i < n, j >= 0, j < n)
        yield "means_are_the_first_n_params", isinstance(mean, Tensor) and z3.Implies(rng, mean.fn((i,)) == self.params.fn((i,)))
        sd = lambda k: JNP.exp(Sym(self.params.fn((n + k,)))).e
        yield "covariance_is_diag(exp(log_std)^2)", isinstance(cov, Tensor) and cov.ndim == 2 and z3.Implies(
            rng, cov.fn((i, j)) == z3.If(i == j, sd(i) * sd(i), z3.RealVal(0))
        )
        yield "returns_the_site_value", path.value == "site-value"


@contract("genjax.inference.vi:full_covariance_normal_family", ["C17"])
class FullCov(_Family):
    cases = ["reparam", "reinforce", "unknown_estimator"]

    def call(self, case):
        self.n = fresh("n", z3.IntSort())
        engine().assume(self.n >= 1)
        if case == "unknown_estimator":
            return self.real(self.fn, Sym(self.n), "bogus")
        fam = self.real(self.fn, Sym(self.n), case)
        self.mean, self.L = Tensor.fresh("mean", (self.n,)), Tensor.fresh("L", (self.n, self.n))
        return self.run_body(fam, value("constraint"), {"mean": self.mean, "chol_cov": self.L})

    def ensures(self, case, path):
        if case == "unknown_estimator":
            yield "unknown_estimator_raises_ValueError", path.outcome == "raise" and isinstance(path.value.exc, ValueError)
            return
        yield "does_not_raise", path.outcome == "return"
        if path.outcome != "return":
            return
        s = self.h.sites
        yield "one_site_named_x", len(s) == 1 and s[0][0] == "x"
        if len(s) != 1:
            return
        want = vi.multivariate_normal_reparam if case == "reparam" else vi.multivariate_normal_reinforce
        yield "estimator_selected_by_name", s[0][1] is want
        mean, cov = s[0][2]
        i, j = fresh("i", z3.IntSort()), fresh("j", z3.IntSort())
        yield "mean_passed", mean is self.mean
        yield "covariance_is_L_L_transpose", isinstance(cov, Tensor) and cov.ndim == 2 and cov.fn((i, j)) == mk_sum(self.n, lambda k: self.L.fn((i, k)) * self.L.fn((j, k)))


@contract("genjax.inference.vi:elbo_vi", ["C17"])
class ElboVI(_NoReplay):
    """elbo_vi = optimize_vi(elbo_factory(target, family, constraint, target_args), init, lr, n, track)"""

    cases = ["default"]

    def call(self, case):
        self.log = []
        outer = self
        self._o = (vi.elbo_factory, vi.optimize_vi)
        vi.elbo_factory = lambda *a: outer.log.append(("factory", a)) or "ELBO"
        vi.optimize_vi = lambda **k: outer.log.append(("opt", k)) or "RESULT"
        self.a = (AbsGF("p"), AbsGF("q"), value("init"), value("c"), (value("t0"),), real("lr"), integer("n"), False)
        try:
            return self.real(self.fn, *self.a)
        finally:
            vi.elbo_factory, vi.optimize_vi = self._o

    def ensures(self, case, path):
        yield "does_not_raise", path.outcome == "return"
        if path.outcome != "return":
            return
        p, q, init, c, targs, lr, n, track = self.a
        yield "objective_built_from_(target, family, constraint, target_args)", self.log[0] == ("factory", (p, q, c, targs)) and all(x is y for x, y in zip(self.log[0][1], (p, q, c, targs)))
        k = self.log[1][1]
        yield "optimiser_gets_objective_init_lr_iterations_tracking", k.get("elbo_fn") == "ELBO" and k.get("init_params") is init and k.get("learning_rate") is lr and k.get("n_iterations") is n and k.get("track_history") is track
        yield "returns_the_optimisers_result", path.value == "RESULT"

from vt.contract import track as _track  # noqa: E402

_track(EXPECT)

from vt.contract import canary as _canary  # noqa: E402

_canary(OptimizeVI, "track_history", "update_is_params_plus_lr_times_gradient(ascent)")
