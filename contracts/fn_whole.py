"""Whole-function stand-ins for `Fn` (BOUNDED in program shape).

The unbounded argument for @gen functions is the object invariant of each handler at ONE generic `@` site plus the
`Fn.<op>` plumbing obligations (contracts/core_gfi.py).  Those are tied to how the work is split between `Fn.<op>` and
the handler classes (which fields a handler carries, who sums the weight).  A change that moves work between the two -
each site looking fine alone - makes them undecided or lets them pass for the wrong reason.  These contracts run the
WHOLE real `Fn.simulate / assess / generate / update / regenerate` - real handler stack, real `@` plumbing, real nested
`Fn` - on one fixed program over ABSTRACT callees and state the property's own equations on the result:

    def inner(u):       z = g3(u) @ "z";                    return z
    def body(a, kw):    x = g1(a, kw=kw) @ "x";  y = g2(x) @ "y";  s = inner(y) @ "sub";  return (x, y, s)

Bounded: one program shape (two dependent sites and a nested @gen call with its own site), every constraint subset
/ abstract selection / argument change on it.  Listed under `bounded`, never counted as proved; a refutation is a
concrete program + operation on which the real code breaks the property's equation."""
from __future__ import annotations

import z3

from vt import loader
from vt.contract import Contract, contract
from vt.gfi import AbsGF, enc, enc_args, sel_id
from vt.sym import Assumed, EngineLimit, Sym, V, _lift, engine, fresh, real, value
from . import _patch  # noqa: F401
from .core_gfi import args_recorded, same
from .selection import EPS, AbsSel, cons, den, mk_selection
from vt.sym import atom

core = loader.load("core")


class _Whole(Contract):
    kind = "bounded"

    def replay(self, case, clause, model, path):
        from .native import run_native

        return run_native("gfi_battery", "generic")

    def program(self):
        self.g1, self.g2, self.g3 = AbsGF("g1"), AbsGF("g2"), AbsGF("g3")
        g1, g2, g3 = self.g1, self.g2, self.g3

        def inner_body(u):
            return core.Thunk(g3, (u,), {}) @ "z"

        self.inner = core.Fn(core.Const(inner_body))
        inner = self.inner

        def body(a, kw=None):
            x = core.Thunk(g1, (a,), {"kw": kw}) @ "x"
            y = core.Thunk(g2, (x,), {}) @ "y"
            s = core.Thunk(inner, (y,), {}) @ "sub"
            return (x, y, s)

        self.f = core.Fn(core.Const(body))
        core.handler_stack.clear()

    # spec terms -----------------------------------------------------------------------------------
    def site_args(self, a, kw, x1, x2):
        """encoded argument tuples of the three sites, given the values the earlier sites hold"""
        g1, g2 = self.g1, self.g2
        a1 = enc_args((a,), {"kw": kw})
        r1 = g1.R(a1, x1)
        a2 = enc_args((Sym(r1),), {})
        r2 = g2.R(a2, x2)
        a3 = enc_args((Sym(r2),), {})
        return a1, a2, a3

    def density(self, a, kw, xs):
        x1, x2, x3 = xs
        a1, a2, a3 = self.site_args(a, kw, x1, x2)
        return self.g1.D(a1, x1) + self.g2.D(a2, x2) + self.g3.D(a3, x3)

    def retval(self, a, kw, xs):
        x1, x2, x3 = xs
        a1, a2, a3 = self.site_args(a, kw, x1, x2)
        return (self.g1.R(a1, x1), self.g2.R(a2, x2), self.g3.R(a3, x3))

    def leaves(self, ch):
        """(x, y, sub/z) value terms of a choice map of the program, or None if it does not have that shape"""
        try:
            x, y, z = ch["x"], ch["y"], ch["sub"]["z"]
        except (KeyError, TypeError):
            return None
        if not all(isinstance(v, Sym) for v in (x, y, z)) or set(ch) != {"x", "y", "sub"} or set(ch["sub"]) != {"z"}:
            return None
        return x.e, y.e, z.e

    def coherent(self, tr, a, kw):
        """the property's coherence equation on a trace of the program under arguments (a, kw)"""
        ch = tr.get_choices()
        xs = self.leaves(ch)
        yield "choices_have_the_programs_addresses(x, y, sub/z)", xs is not None
        if xs is None:
            return
        yield "score_is_minus_the_joint_density_of_its_choices", same(tr.get_score(), Sym(-self.density(a, kw, xs)))
        r = tr.get_retval()
        want = self.retval(a, kw, xs)
        yield "retval_is_the_programs_return_value_on_its_choices", isinstance(r, tuple) and len(r) == 3 and all(same(u, Sym(w)) for u, w in zip(r, want))
        yield "args_recorded", args_recorded(tr.get_args(), (a,), {"kw": kw})
        yield "handler_stack_balanced", len(core.handler_stack) == 0

    def calls_of(self, g, method):
        return [c for c in g.calls if c[0] == method]


def _is_app(e, decl):
    return z3.is_app(e) and e.decl().eq(decl)


@contract("genjax.core:Fn.simulate", ["C01", "C05"])
class FnSimulateWhole(_Whole):
    """simulate -> coherent trace whose three choices are fresh draws of the callees on the arguments they depend on;
    assess on the trace's choices returns exactly -score and the same return value"""

    cases = ["program"]

    def call(self, case):
        self.program()
        self.a, self.kw = value("a"), value("kw")
        tr = self.real(self.f.simulate, self.a, kw=self.kw)
        dens, r = self.real(self.f.assess, tr.get_choices(), self.a, kw=self.kw)
        return tr, dens, r

    def ensures(self, case, path):
        yield "does_not_raise", path.outcome == "return"
        if path.outcome != "return":
            core.handler_stack.clear()
            return
        tr, dens, r = path.value
        yield from self.coherent(tr, self.a, self.kw)
        xs = self.leaves(tr.get_choices())
        if xs is None:
            return
        a1, a2, a3 = self.site_args(self.a, self.kw, xs[0], xs[1])
        for nm, g, x, ai in (("x", self.g1, xs[0], a1), ("y", self.g2, xs[1], a2), ("sub/z", self.g3, xs[2], a3)):
            yield "choice_%s_is_a_fresh_draw_of_its_callee_on_the_values_it_depends_on" % nm, _is_app(x, g.DrawF) and z3.simplify(x.arg(0) == ai)
        yield "assess_of_the_traces_choices_is_minus_its_score", same(dens, Sym(self.density(self.a, self.kw, xs)))
        yield "assess_returns_the_same_return_value", isinstance(r, tuple) and len(r) == 3 and all(same(u, v) for u, v in zip(r, tr.get_retval()))
        yield "each_callee_simulated_once_then_assessed_once", all([c[0] for c in g.calls] == ["simulate", "assess"] for g in (self.g1, self.g2, self.g3))


CONSTRAINTS = {
    "all": lambda c: {"x": c["x"], "y": c["y"], "sub": {"z": c["z"]}},
    "x_only": lambda c: {"x": c["x"]},
    "y_and_nested": lambda c: {"y": c["y"], "sub": {"z": c["z"]}},
    "nested_only": lambda c: {"sub": {"z": c["z"]}},
    "empty_nested_constraint": lambda c: {"x": c["x"], "sub": {}},
    "empty_dict": lambda c: {},
    "None": lambda c: None,
}


def _constrained(con):
    return {"x": con is not None and "x" in con, "y": con is not None and "y" in con, "z": con is not None and "z" in (con.get("sub") or {})}


@contract("genjax.core:Fn.generate", ["C02", "C10", "C05"])
class FnGenerateWhole(_Whole):
    """generate(c) for every constraint subset (incl. a partially / emptily constrained nested call): coherent trace;
    constrained addresses come from the callee's generate ON that constraint, the others are fresh draws; the weight is
    the sum of the callees' weights at the constrained sites - 0 when nothing is constrained, also for a whole sub-call
    left unconstrained"""

    cases = list(CONSTRAINTS)

    def call(self, case):
        self.program()
        self.a, self.kw = value("a"), value("kw")
        self.c = {"x": value("cx"), "y": value("cy"), "z": value("cz")}
        self.con = CONSTRAINTS[case](self.c)
        import copy

        self.con_before = copy.deepcopy(self.con) if self.con is not None else None
        return self.real(self.f.generate, self.con, self.a, kw=self.kw)

    def ensures(self, case, path):
        yield "does_not_raise", path.outcome == "return"
        if path.outcome != "return":
            core.handler_stack.clear()
            return
        tr, w = path.value
        yield from self.coherent(tr, self.a, self.kw)
        xs = self.leaves(tr.get_choices())
        if xs is None:
            return
        a1, a2, a3 = self.site_args(self.a, self.kw, xs[0], xs[1])
        is_con = _constrained(self.con)
        total = z3.RealVal(0)
        for nm, key, g, x, ai in (("x", "x", self.g1, xs[0], a1), ("y", "y", self.g2, xs[1], a2), ("sub/z", "z", self.g3, xs[2], a3)):
            if is_con[key]:
                ok = _is_app(x, g.GenX) and z3.simplify(z3.And(x.arg(0) == ai, x.arg(1) == enc(self.c[key])))
                yield "constrained_%s_is_the_callees_generate_on_exactly_that_constraint" % nm, ok
                if _is_app(x, g.GenX):
                    total = total + g.GenW(ai, enc(self.c[key]), x.arg(2))
            else:
                yield "unconstrained_%s_is_a_fresh_draw_from_its_conditional_prior" % nm, _is_app(x, g.DrawF) and z3.simplify(x.arg(0) == ai)
        yield "weight_is_the_sum_of_the_callee_weights_at_the_constrained_sites", same(w, Sym(total))
        if not any(is_con.values()):
            yield "weight_zero_when_nothing_is_constrained", same(w, 0.0)
        yield "constraint_map_not_mutated", self.con == self.con_before or (self.con is None and self.con_before is None)


class _Edit(_Whole):
    def old_trace(self):
        """history: the trace being edited was produced by the real simulate under OLD arguments (coherent by the
        simulate contract); its leaves are recorded before the edit"""
        self.a0, self.kw0 = value("a_old"), value("kw_old")
        self.tr0 = self.real(self.f.simulate, self.a0, kw=self.kw0)
        xs = self.leaves(self.tr0.get_choices())
        if xs is None:
            raise EngineLimit("simulate did not produce the program's choice map (see Fn.simulate's own obligations)")
        self.x0 = xs
        self.score0 = _lift(self.tr0.get_score())
        for g in (self.g1, self.g2, self.g3):
            del g.calls[:]
        return self.tr0

    def old_site_args(self):
        return self.site_args(self.a0, self.kw0, self.x0[0], self.x0[1])


@contract("genjax.core:Fn.update", ["C03", "C05", "C09"])
class FnUpdateWhole(_Edit):
    """update(trace, c, new args) for every constraint subset: coherent under the NEW arguments, constrained addresses
    hold the callee's updated value, every other address keeps its old value, weight = density(new) - density(old),
    discard holds the callee's discard at the constrained addresses; the old trace is not touched"""

    cases = [k for k in CONSTRAINTS if k != "empty_nested_constraint"] + ["empty_nested_constraint", "None:only_the_keyword_argument_changes", "y_and_nested:only_the_keyword_argument_changes"]

    def call(self, case):
        self.program()
        tr = self.old_trace()
        self.a, self.kw = value("a_new"), value("kw_new")
        if "only_the_keyword_argument_changes" in case:
            self.a = self.a0  # the SAME positional object as in the old trace: only kw differs
        self.c = {"x": value("cx"), "y": value("cy"), "z": value("cz")}
        self.con = CONSTRAINTS[case.split(":")[0]](self.c)
        # G4 of the callees, instantiated: re-constraining an address with the value it already holds changes nothing
        Assumed.note("GFI contract G4 assumed of callees, instance: update with the value an address already holds leaves it unchanged (UpdX(x, x) = x)")
        for g, x in zip((self.g1, self.g2, self.g3), self.x0):
            engine().assume(g.UpdX(x, x) == x)
        return self.real(self.f.update, tr, self.con, self.a, kw=self.kw)

    def ensures(self, case, path):
        yield "does_not_raise", path.outcome == "return"
        if path.outcome != "return":
            core.handler_stack.clear()
            return
        tr, w, d = path.value
        yield from self.coherent(tr, self.a, self.kw)
        xs = self.leaves(tr.get_choices())
        if xs is None:
            return
        is_con = _constrained(self.con)
        for nm, key, g, x, xo in (("x", "x", self.g1, xs[0], self.x0[0]), ("y", "y", self.g2, xs[1], self.x0[1]), ("sub/z", "z", self.g3, xs[2], self.x0[2])):
            if is_con[key]:
                yield "constrained_%s_holds_the_callees_updated_value" % nm, x == g.UpdX(xo, enc(self.c[key]))
            else:
                yield "unconstrained_%s_keeps_its_old_value" % nm, x == xo
        new_d = self.density(self.a, self.kw, xs)
        old_d = self.density(self.a0, self.kw0, self.x0)
        yield "weight_is_density_of_new_minus_density_of_old", same(w, Sym(new_d - old_d))
        dl = d if isinstance(d, dict) else {}
        for nm, key, g, xo in (("x", "x", self.g1, self.x0[0]), ("y", "y", self.g2, self.x0[1])):
            if is_con[key]:
                yield "discard_%s_is_the_callees_discard(previous value)" % nm, isinstance(dl.get(key), Sym) and same(dl[key], Sym(g.UpdD(xo, enc(self.c[key]))))
        if is_con["z"]:
            sub = dl.get("sub")
            yield "discard_sub/z_is_the_callees_discard(previous value)", isinstance(sub, dict) and isinstance(sub.get("z"), Sym) and same(sub["z"], Sym(self.g3.UpdD(self.x0[2], enc(self.c["z"]))))
        xs0 = self.leaves(self.tr0.get_choices())
        yield "old_trace_not_mutated", xs0 is not None and all(z3.eq(u, v) for u, v in zip(xs0, self.x0)) and z3.eq(_lift(self.tr0.get_score()), self.score0) and args_recorded(self.tr0.get_args(), (self.a0,), {"kw": self.kw0})


@contract("genjax.core:Fn.regenerate", ["C04", "C05", "C09", "C16"])
class FnRegenerateWhole(_Edit):
    """regenerate(trace, s, new args): every site's callee regenerates under the REMAINDER of the selection below its
    address (two levels deep for the nested call), the result is coherent under the new arguments, the weight is the
    sum of the callees' MH weights = [density(new) - density(old)] - [prior(new selected) - prior(old selected)]"""

    cases = ["abstract_selection", "sel=none", "sel=all"]

    def call(self, case):
        self.program()
        tr = self.old_trace()
        self.a, self.kw = value("a_new"), value("kw_new")
        self.s = mk_selection(case)
        return self.real(self.f.regenerate, tr, self.s, self.a, kw=self.kw)

    def ensures(self, case, path):
        yield "does_not_raise", path.outcome == "return"
        if path.outcome != "return":
            core.handler_stack.clear()
            return
        tr, w, d = path.value
        yield from self.coherent(tr, self.a, self.kw)
        xs = self.leaves(tr.get_choices())
        if xs is None:
            return
        a_new = self.site_args(self.a, self.kw, xs[0], xs[1])
        a_old = self.old_site_args()
        p = fresh("p", EPS.sort())
        total = z3.RealVal(0)
        ok_calls = True
        for nm, addr, g, x, xo, an, ao in (("x", ("x",), self.g1, xs[0], self.x0[0], a_new[0], a_old[0]), ("y", ("y",), self.g2, xs[1], self.x0[1], a_new[1], a_old[1]),
                                           ("sub/z", ("sub", "z"), self.g3, xs[2], self.x0[2], a_new[2], a_old[2])):
            calls = self.calls_of(g, "regenerate")
            yield "callee_%s_regenerated_exactly_once" % nm, len(calls) == 1
            if len(calls) != 1:
                ok_calls = False
                continue
            sub_sel = calls[0][1][1]
            below = p
            for k in reversed(addr):
                below = cons(atom(k), below)
            yield "callee_%s_receives_the_remainder_of_the_selection_below_its_address" % nm, den(sub_sel, p) == den(self.s, below)
            se = sel_id(sub_sel)
            yield "new_%s_is_the_callees_regenerated_value_under_the_new_arguments" % nm, _is_app(x, g.RegX) and z3.simplify(z3.And(x.arg(0) == an, x.arg(1) == xo, x.arg(2) == se))
            total = total + (g.D(an, x) - g.D(ao, xo)) - (g.P(an, x, se) - g.P(ao, xo, se))
        if ok_calls:
            yield "weight_is_the_sum_of_the_sites_MH_weights", same(w, Sym(total))
        xs0 = self.leaves(self.tr0.get_choices())
        yield "old_trace_not_mutated", xs0 is not None and all(z3.eq(u, v) for u, v in zip(xs0, self.x0)) and z3.eq(_lift(self.tr0.get_score()), self.score0)


@contract("genjax.core:Fn.generate", ["C02", "C05"])
class FnGenerateHistoryWhole(_Whole):
    """history: the SAME @gen function object is used for two generate calls with different constraint subsets (and a
    simulate in between); the second call's trace and weight are those of ITS constraints alone, and the first call's
    trace is not touched by the later calls (no handler state survives a call)"""

    cases = ["x_only_then_nested_only"]

    def call(self, case):
        self.program()
        self.a, self.kw = value("a"), value("kw")
        self.c1 = {"x": value("cx1"), "y": value("cy1"), "z": value("cz1")}
        self.c2 = {"x": value("cx2"), "y": value("cy2"), "z": value("cz2")}
        con1 = CONSTRAINTS["x_only"](self.c1)
        con2 = CONSTRAINTS["nested_only"](self.c2)
        tr1, w1 = self.real(self.f.generate, con1, self.a, kw=self.kw)
        self.x1 = self.leaves(tr1.get_choices())
        self.score1 = _lift(tr1.get_score())
        self.real(self.f.simulate, self.a, kw=self.kw)
        tr2, w2 = self.real(self.f.generate, con2, self.a, kw=self.kw)
        return tr1, w1, tr2, w2

    def ensures(self, case, path):
        yield "does_not_raise", path.outcome == "return"
        if path.outcome != "return":
            core.handler_stack.clear()
            return
        tr1, w1, tr2, w2 = path.value
        for nm, f in self.coherent(tr2, self.a, self.kw):
            yield "second_call:" + nm, f
        xs = self.leaves(tr2.get_choices())
        if xs is None or self.x1 is None:
            return
        a1, a2, a3 = self.site_args(self.a, self.kw, xs[0], xs[1])
        yield "second_call:x_and_y_are_fresh_draws(the first call's constraint is not remembered)", _is_app(xs[0], self.g1.DrawF) and _is_app(xs[1], self.g2.DrawF)
        ok = _is_app(xs[2], self.g3.GenX) and z3.simplify(z3.And(xs[2].arg(0) == a3, xs[2].arg(1) == enc(self.c2["z"])))
        yield "second_call:nested_site_is_generated_on_the_second_calls_constraint", ok
        if _is_app(xs[2], self.g3.GenX):
            yield "second_call:weight_is_the_nested_sites_weight_alone", same(w2, Sym(self.g3.GenW(a3, enc(self.c2["z"]), xs[2].arg(2))))
        x1_now = self.leaves(tr1.get_choices())
        yield "first_calls_trace_untouched_by_the_later_calls", x1_now is not None and all(z3.eq(u, v) for u, v in zip(x1_now, self.x1)) and z3.eq(_lift(tr1.get_score()), self.score1)


@contract("genjax.core:Fn.generate", ["C02", "C05"])
class FnGenerateOtherAddressesHistory(Contract):
    """history over a program whose ADDRESS SET depends on an argument (one site per data point): the same @gen
    function object is first run on 2 points (simulate or generate), then generate is called on 3 points with a
    constraint on the new address y2 only - that address must hold the constrained value, with the site's weight
    (nothing learnt about the function in an earlier call may decide how a later call treats its constraints)"""

    kind = "bounded"
    cases = ["simulate_2_points_then_generate_3_points_constraining_y2", "generate_2_points_then_generate_3_points_constraining_y2"]

    def replay(self, case, clause, model, path):
        from .native import run_native

        return run_native("gfi_battery", "generic")

    def call(self, case):
        self.g = AbsGF("site")
        g = self.g

        def body(a, n):
            out = []
            for i in range(n):
                out.append(core.Thunk(g, (a, i), {}) @ ("y%d" % i))
            return tuple(out)

        self.f = core.Fn(core.Const(body))
        core.handler_stack.clear()
        self.a, self.c0, self.c = value("a"), value("c0"), value("c")
        if case.startswith("simulate"):
            self.real(self.f.simulate, self.a, 2)
        else:
            self.real(self.f.generate, {"y0": self.c0}, self.a, 2)
        return self.real(self.f.generate, {"y2": self.c}, self.a, 3)

    def ensures(self, case, path):
        yield "does_not_raise", path.outcome == "return"
        if path.outcome != "return":
            core.handler_stack.clear()
            return
        tr, w = path.value
        ch = tr.get_choices()
        ok = isinstance(ch, dict) and set(ch) == {"y0", "y1", "y2"} and all(isinstance(v, Sym) for v in ch.values())
        yield "second_call:one_choice_per_data_point", ok
        if not ok:
            return
        g = self.g
        a2 = enc_args((self.a, 2), {})
        y2 = ch["y2"].e
        gen = _is_app(y2, g.GenX) and z3.simplify(z3.And(y2.arg(0) == a2, y2.arg(1) == enc(self.c)))
        yield "second_call:the_new_address_is_generated_on_its_constraint", gen
        yield "second_call:unconstrained_addresses_are_fresh_draws", _is_app(ch["y0"].e, g.DrawF) and _is_app(ch["y1"].e, g.DrawF)
        if _is_app(y2, g.GenX):
            yield "second_call:weight_is_the_constrained_sites_weight", same(w, Sym(g.GenW(a2, enc(self.c), y2.arg(2))))
