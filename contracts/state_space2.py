"""C20, second part: the functions that COMPOSE the exact baselines (forward filtering + backward sampling, the exact
log-marginal wrappers, the inference-problem builders, the dataset samplers that iterate the step models over time).
Modular: each callee is replaced by a recorder standing for its own contract (proved in state_space.py); what is
decided here is that the right results are passed between them, in the right argument order."""
from __future__ import annotations

import z3

from vt import loader
from vt.contract import Contract, contract
from vt.gfi import AbsTrace
from vt.stubs.ns import StubNS
from vt.sym import EngineLimit, Sym, engine, fresh, integer, value
from vt.tensor import Tensor
from . import state_space as SS  # noqa: F401  (module patches)
from .core_gfi import same
from .extra2 import patched

core = loader.load("core")
ss = SS.ss


class _Native(Contract):
    native = "hmm"

    def replay(self, case, clause, model, path):
        from .native import run_native

        return run_native("state_space_native", self.native)


class Rec:
    def __init__(self):
        self.calls = []

    def fn(self, name, result):
        def f(*a, **k):
            self.calls.append((name, a, k))
            return result(*a, **k) if callable(result) else result

        return f


@contract("genjax.extras.state_space:forward_filtering_backward_sampling", ["C20"])
class FFBS(_Native):
    """forward filter on (observations, model), backward sample from THAT filter with the transition matrix, log
    probability of THAT sampled sequence under the same observations and model; all three returned"""

    cases = ["default"]

    def call(self, case):
        r = self.rec = Rec()
        self.obs, self.pi, self.Tm, self.Em = value("obs"), value("init"), value("trans"), value("emis")
        self.alpha, self.lm, self.states, self.lp = value("alpha"), value("log_marginal"), value("states"), value("log_prob")
        with patched(ss, forward_filter=r.fn("ff", (self.alpha, self.lm)), backward_sample=r.fn("bs", self.states), compute_sequence_log_prob=r.fn("lp", self.lp)):
            return self.real(self.fn, self.obs, self.pi, self.Tm, self.Em)

    def ensures(self, case, path):
        yield "does_not_raise", path.outcome == "return"
        if path.outcome != "return":
            return
        c = {n: (a, k) for n, a, k in self.rec.calls}
        yield "each_stage_runs_once", sorted(n for n, _, _ in self.rec.calls) == ["bs", "ff", "lp"]
        if len(c) != 3:
            return
        yield "filter_on_the_observations_and_model", c["ff"][0] == (self.obs, self.pi, self.Tm, self.Em) and all(x is y for x, y in zip(c["ff"][0], (self.obs, self.pi, self.Tm, self.Em)))
        yield "backward_sample_from_that_filter_with_the_transition_matrix", len(c["bs"][0]) == 2 and c["bs"][0][0] is self.alpha and c["bs"][0][1] is self.Tm
        yield "log_probability_of_the_sampled_sequence_under_the_same_observations_and_model", all(x is y for x, y in zip(c["lp"][0], (self.states, self.obs, self.pi, self.Tm, self.Em))) and len(c["lp"][0]) == 5
        t = path.value
        yield "trace_holds_states_observations_log_prob", t.states is self.states and t.observations is self.obs and t.log_prob is self.lp


@contract("genjax.extras.state_space:discrete_hmm_exact_log_marginal", ["C20"])
class HmmExactLM(_Native):
    cases = ["default"]

    def call(self, case):
        r = self.rec = Rec()
        self.args = tuple(value(n) for n in ("obs", "init", "trans", "emis"))
        self.lm = value("log_marginal")
        with patched(ss, forward_filter=r.fn("ff", (value("alpha"), self.lm))):
            return self.real(self.fn, *self.args)

    def ensures(self, case, path):
        yield "does_not_raise", path.outcome == "return"
        if path.outcome == "return":
            yield "is_the_forward_filters_log_marginal_on_the_same_arguments", path.value is self.lm and len(self.rec.calls) == 1 and all(x is y for x, y in zip(self.rec.calls[0][1], self.args)) and len(self.rec.calls[0][1]) == 4


@contract("genjax.extras.state_space:linear_gaussian_exact_log_marginal", ["C20"])
class LgExactLM(_Native):
    native = "kalman"
    cases = ["default"]

    def call(self, case):
        r = self.rec = Rec()
        self.args = tuple(value(n) for n in ("obs", "m0", "P0", "A", "Q", "C", "R"))
        self.lm = value("log_marginal")
        with patched(ss, kalman_filter=r.fn("kf", (value("means"), value("covs"), self.lm))):
            return self.real(self.fn, *self.args)

    def ensures(self, case, path):
        yield "does_not_raise", path.outcome == "return"
        if path.outcome == "return":
            yield "is_the_kalman_filters_log_marginal_on_the_same_arguments_in_order", path.value is self.lm and len(self.rec.calls) == 1 and all(x is y for x, y in zip(self.rec.calls[0][1], self.args)) and len(self.rec.calls[0][1]) == 7


class _Problem(_Native):
    cases = ["default"]
    names = ()
    sampler = exact = tester = None

    def call(self, case):
        r = self.rec = Rec()
        self.params = tuple(value(n) for n in self.names)
        self.T = core.Const(integer("T"))
        self.z, self.o, self.lm = value("states"), value("observations"), value("log_marginal")
        with patched(ss, **{self.sampler: r.fn("sample", (self.z, self.o, {"obs": self.o})), self.exact: r.fn("exact", self.lm)}):
            ds = self.real(getattr(ss, self.tester), *self.params, self.T)
            n1 = len(r.calls)
            prob = self.real(self.fn, *self.params, self.T)
        self.n1 = n1
        return ds, prob

    def ensures(self, case, path):
        yield "does_not_raise", path.outcome == "return"
        if path.outcome != "return":
            return
        ds, (ds2, lm) = path.value
        calls = self.rec.calls
        yield "test_dataset_is_one_sampled_sequence_of_length_T", self.n1 == 1 and calls[0][0] == "sample" and all(x is y for x, y in zip(calls[0][1], self.params + (self.T,))) and len(calls[0][1]) == len(self.params) + 1 and not calls[0][2]
        yield "dataset_labels_latents_z_and_observations_obs", isinstance(ds, dict) and set(ds) == {"z", "obs"} and ds["z"] is self.z and ds["obs"] is self.o
        ex = [c for c in calls if c[0] == "exact"]
        yield "exact_log_marginal_of_the_datasets_observations_under_the_same_parameters", len(ex) == 1 and ex[0][1][0] is self.o and all(x is y for x, y in zip(ex[0][1][1:], self.params)) and len(ex[0][1]) == len(self.params) + 1
        yield "returns_dataset_and_that_log_marginal", isinstance(ds2, dict) and ds2.get("obs") is self.o and ds2.get("z") is self.z and lm is self.lm


@contract("genjax.extras.state_space:discrete_hmm_inference_problem", ["C20"])
class HmmProblem(_Problem):
    names = ("init", "trans", "emis")
    sampler, exact, tester = "sample_hmm_dataset", "discrete_hmm_exact_log_marginal", "discrete_hmm_test_dataset"


@contract("genjax.extras.state_space:linear_gaussian_inference_problem", ["C20"])
class LgProblem(_Problem):
    native = "kalman"
    names = ("m0", "P0", "A", "Q", "C", "R")
    sampler, exact, tester = "sample_linear_gaussian_dataset", "linear_gaussian_exact_log_marginal", "linear_gaussian_test_dataset"


class StepModel:
    """stands for the step model (`discrete_hmm` / `linear_gaussian`, proved in state_space.py): simulate(*carry)
    returns a trace whose return value is the next carry and whose choices are that step's state and observation"""

    def __init__(self, n_params):
        n = engine().fresh_name
        from vt.sym import V

        self.n_params = n_params
        self.State = z3.Function(n("StepState"), V, z3.IntSort(), z3.IntSort(), V)  # (previous state, time, nonce)
        self.Obs = z3.Function(n("StepObs"), V, z3.IntSort(), V)
        self.calls = []

    def simulate(self, *carry):
        from vt.gfi import next_nonce
        from vt.sym import _lift

        self.calls.append(carry)
        prev, t, *params = carry
        nu = next_nonce()
        from vt.gfi import enc

        s = Sym(self.State(enc(prev), _lift(t), nu))
        o = Sym(self.Obs(s.e, nu))
        new_carry = (s, t + 1, *params)
        return AbsTrace(self, (carry, {}), {"state": s, "obs": o}, new_carry, Sym(z3.RealVal(0)))


class _Dataset(_Native):
    cases = ["single_sequence"]
    names = ()
    model = None

    def call(self, case):
        self.params = tuple(value(n) for n in self.names)
        self.Tn = integer("T")
        engine().assume(self.Tn.e >= 1)
        self.step = StepModel(len(self.params))
        with patched(ss, **{self.model: self.step}):
            return self.real(self.fn, *self.params, core.Const(self.Tn))

    def ensures(self, case, path):
        yield "does_not_raise", path.outcome == "return"
        if path.outcome != "return":
            return
        states, obs, constraints = path.value
        scans = path.extra.get("scans", [])
        yield "one_scan_of_T_steps", len(scans) == 1 and z3.eq(z3.simplify(scans[0]["T"] == self.Tn.e), z3.BoolVal(True)) or (len(scans) == 1 and same(Sym(scans[0]["T"]), self.Tn))
        if len(scans) != 1:
            return
        rec = scans[0]
        init = rec["init"]
        yield "starts_at_time_0_with_the_models_parameters", len(init) == 2 + len(self.params) and same(init[1], 0) and all(x is y for x, y in zip(init[2:], self.params))
        yield "step_model_simulated_on_the_carry", len(self.step.calls) == 1 and all(same(x, y) if isinstance(x, Sym) else x is y for x, y in zip(self.step.calls[0], rec["carry_t"]))
        nc = rec["new_carry"]
        ct = rec["carry_t"]
        yield "next_carry_is_the_steps_return_value(state_and_time_advance,parameters_kept)", len(nc) == len(ct) and same(nc[1], ct[1] + 1) and all(same(x, y) if isinstance(x, Sym) else x is y for x, y in zip(nc[2:], ct[2:]))
        y = rec["y"]
        tt = fresh("tt", z3.IntSort())
        t = rec["t"]
        if isinstance(states, Tensor) and isinstance(obs, Tensor) and isinstance(y, AbsTrace):
            want_s = z3.substitute(y.x["state"].e, (t, tt))
            want_o = z3.substitute(y.x["obs"].e, (t, tt))
            rng = z3.And(tt >= 0, tt < self.Tn.e)
            yield "states_are_the_stacked_step_states_in_time_order", z3.Implies(rng, states.fn((tt,)) == want_s)
            yield "observations_are_the_stacked_step_observations_in_time_order", z3.Implies(rng, obs.fn((tt,)) == want_o)
        else:
            yield "states_and_observations_are_stacked_arrays", False
        yield "constraints_hold_the_observations", isinstance(constraints, dict) and set(constraints) == {"obs"} and constraints["obs"] is obs


@contract("genjax.extras.state_space:sample_hmm_dataset", ["C20"])
class HmmDataset(_Dataset):
    names = ("init", "trans", "emis")
    model = "discrete_hmm"


@contract("genjax.extras.state_space:sample_linear_gaussian_dataset", ["C20"])
class LgDataset(_Dataset):
    native = "kalman"
    names = ("m0", "P0", "A", "Q", "C", "R")
    model = "linear_gaussian"
