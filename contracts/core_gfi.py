"""C01–C05: the GFI contract proved of `Distribution` and of the `Fn` handlers (step invariants).

Spec vocabulary: vt.gfi (D, R, LP, Draw..., coherent).  Top-level postconditions are written from the
property statements; helper conditions from the code and its call sites.
"""
from __future__ import annotations

import z3

from vt import loader
from vt.contract import Contract, contract
from vt.gfi import AbsGF, AbsTrace, abstract_distribution, enc, enc_args, sel_id
from vt.maps import SymDict, SymSet
from vt.sym import Atom, EngineLimit, PathSort, Sym, V, _lift, atom_sym, boolean, engine, fresh, real, value
from . import _patch  # noqa: F401
from .selection import EPS, AbsSel, den, mk_selection, CONCRETE_SEL

core = loader.load("core")


def same(a, b):
    """term equality of two proxies/python scalars as a formula"""
    if a is b:
        return z3.BoolVal(True)
    if a is None or b is None:
        return z3.BoolVal(False)
    from vt.tensor import Tensor, dim_eq

    ta, tb = isinstance(a, Tensor), isinstance(b, Tensor)
    if ta != tb:
        return z3.BoolVal(False)  # an array is not a scalar
    if ta:
        if a.ndim != b.ndim or not all(dim_eq(x, y) for x, y in zip(a.shape, b.shape)):
            return z3.BoolVal(False)
        idx = tuple(z3.Int("same!i%d" % k) for k in range(a.ndim))
        return a.fn(idx) == b.fn(idx)
    ea, eb = _lift(a), _lift(b)
    if ea.sort() != eb.sort():
        if z3.is_arith_sort(ea.sort()) and z3.is_arith_sort(eb.sort()):
            from vt.sym import _num2

            ea, eb = _num2(ea, eb)
        else:
            return z3.BoolVal(False)
    return ea == eb


def battery_replay(*scenarios):
    """native replay = search a failing input in the concrete battery (real package, beartype on)"""
    from .native import run_native

    last = None
    for sc in scenarios + ("generic",):
        last = run_native("gfi_battery", sc)
        if last.get("confirmed"):
            return last
    return last


def args_recorded(tr_args, args, kwargs):
    """the trace stores (args, kwargs) in the standard format, element-wise identical"""
    if not (isinstance(tr_args, tuple) and len(tr_args) == 2 and isinstance(tr_args[1], dict)):
        return False
    a, k = tr_args
    if len(a) != len(args) or set(k) != set(kwargs):
        return False
    return all(x is y for x, y in zip(a, args)) and all(k[n] is kwargs[n] for n in k)


def mk_handler(cls, **fields):
    """construct a handler of the real class by FIELD NAME; a handler whose dataclass no longer has these fields was
    restructured: the step invariant below is written for this state vector and is then undecided (the bounded
    whole-function checks in fn_whole.py still decide the property on the fixed program)"""
    import dataclasses

    have = [f.name for f in dataclasses.fields(cls)]
    if set(have) != set(fields):
        raise EngineLimit("handler %s has fields %s, the step invariant is written for %s" % (cls.__name__, have, sorted(fields)))
    return cls(**fields)


class _DistBase(Contract):
    def replay(self, case, clause, model, path):
        return battery_replay()

    cases = ["args_only", "with_kwargs"]

    def mk(self, case):
        self.d, self.Smp, self.LP, self.log = abstract_distribution("d")
        self.args = (value("a0"), value("a1"))
        self.kwargs = {"kw": value("kw")} if "with_kwargs" in case else {}
        self.a = enc_args(self.args, self.kwargs)

    def old_trace(self):
        """a coherent old trace of d under old arguments (requires coherent(t))"""
        self.args0 = (value("b0"), value("b1"))
        self.kwargs0 = {"kw": value("kw_old")} if self.kwargs else {}
        self.a0 = enc_args(self.args0, self.kwargs0)
        self.x0 = value("x_old")
        self.s0 = real("score_old")
        engine().assume(self.s0.e == -self.LP(self.x0.e, self.a0))  # coherent(t)
        self.tr0 = core.Tr(self.d, (self.args0, self.kwargs0), self.x0, self.x0, self.s0)
        self.tr0_fields = (self.tr0._gen_fn, self.tr0._args, self.tr0._choices, self.tr0._retval, self.tr0._score)
        return self.tr0

    def frame(self):
        t = self.tr0
        return (t._gen_fn, t._args, t._choices, t._retval, t._score) == self.tr0_fields and all(
            a is b for a, b in zip((t._gen_fn, t._args, t._choices, t._retval, t._score), self.tr0_fields)
        )

    def sampler_calls(self):
        return [c for c in self.log if c[0] == "sample"]

    def sampled_with_site_args(self):
        sc = self.sampler_calls()
        return len(sc) == 1 and len(sc[0][1]) == len(self.args) and all(x is y for x, y in zip(sc[0][1], self.args)) and set(sc[0][2]) == set(self.kwargs) and all(sc[0][2][k] is self.kwargs[k] for k in self.kwargs)

    def coherent_tr(self, tr, x_expected=None):
        """Tr of d under (args, kwargs): score = -LP(x, a), retval = choices = x, args recorded, gen_fn is d"""
        out = {}
        out["result_is_Tr_of_this_distribution"] = isinstance(tr, core.Tr) and tr._gen_fn is self.d
        if not isinstance(tr, core.Tr):
            return out
        x = tr.get_choices()
        out["score_is_minus_logpdf_of_choices"] = same(tr.get_score(), Sym(-self.LP(enc(x), self.a)))
        out["retval_is_the_choice"] = same(tr.get_retval(), x)
        out["args_recorded"] = args_recorded(tr.get_args(), self.args, self.kwargs)
        if x_expected is not None:
            out["choice_value"] = same(x, x_expected)
        return out


@contract("genjax.core:Distribution.simulate", ["C01", "C02", "C04"])
class DistSimulate(_DistBase):
    def call(self, case):
        self.mk(case)
        return self.real(self.fn, self.d, *self.args, **self.kwargs)

    def ensures(self, case, path):
        yield "does_not_raise", path.outcome == "return"
        if path.outcome != "return":
            return
        tr = path.value
        yield "sampler_called_once_with_site_arguments", self.sampled_with_site_args()
        for n, f in self.coherent_tr(tr).items():
            yield n, f
        # the stored value is the sampler's result for exactly this site's arguments (a fresh draw)
        x = tr.get_choices()
        yield "choice_is_the_sampler_result", isinstance(x, Sym) and z3.is_app(x.e) and x.e.decl().eq(self.Smp) and z3.eq(x.e.arg(0), self.a)


@contract("genjax.core:Distribution.assess", ["C01", "C02"])
class DistAssess(_DistBase):
    def call(self, case):
        self.mk(case)
        self.x = value("x")
        return self.real(self.fn, self.d, self.x, *self.args, **self.kwargs)

    def ensures(self, case, path):
        yield "does_not_raise", path.outcome == "return"
        if path.outcome != "return":
            return
        logp, r = path.value
        yield "density_is_logpdf", same(logp, Sym(self.LP(self.x.e, self.a)))
        yield "retval_is_the_choice", same(r, self.x)
        yield "no_sampling", not self.sampler_calls()


@contract("genjax.core:Distribution.generate", ["C02", "C10"])
class DistGenerate(_DistBase):
    cases = ["unconstrained:args_only", "unconstrained:with_kwargs", "constrained:args_only", "constrained:with_kwargs"]

    def call(self, case):
        self.mk(case)
        self.x = None if case.startswith("unconstrained") else value("x")
        return self.real(self.fn, self.d, self.x, *self.args, **self.kwargs)

    def ensures(self, case, path):
        yield "does_not_raise", path.outcome == "return"
        if path.outcome != "return":
            return
        tr, w = path.value
        for n, f in self.coherent_tr(tr, self.x).items():
            yield n, f
        if self.x is None:
            yield "weight_zero_when_unconstrained", same(w, 0.0)
            yield "sampler_called_once_with_site_arguments", self.sampled_with_site_args()
        else:
            yield "weight_is_logpdf_of_constraint", same(w, Sym(self.LP(self.x.e, self.a)))
            yield "constrained_value_unchanged", same(tr.get_choices(), self.x)
            yield "no_sampling", not self.sampler_calls()


@contract("genjax.core:Distribution.update", ["C03", "C05", "C09"])
class DistUpdate(_DistBase):
    cases = ["constrained:args_only", "constrained:with_kwargs", "unconstrained(None):args_only", "unconstrained(None):with_kwargs"]

    def call(self, case):
        self.mk(case)
        tr = self.old_trace()
        self.c = None if case.startswith("unconstrained") else value("x_new")
        return self.real(self.fn, self.d, tr, self.c, *self.args, **self.kwargs)

    def ensures(self, case, path):
        yield "does_not_raise", path.outcome == "return"
        if path.outcome != "return":
            return
        tr, w, disc = path.value
        x_new = self.c if self.c is not None else self.x0
        for n, f in self.coherent_tr(tr, x_new).items():
            yield n, f
        yield "weight_is_density_ratio", same(w, Sym(self.LP(_lift(x_new), self.a) - self.LP(self.x0.e, self.a0)))
        if self.c is not None:
            yield "discard_is_old_value", same(disc, self.x0)
        else:
            yield "discard_is_old_value_or_None", disc is None or same(disc, self.x0)
        yield "old_trace_not_mutated", self.frame()
        yield "no_sampling", not self.sampler_calls()


@contract("genjax.core:Distribution.regenerate", ["C04", "C05", "C09", "C16"])
class DistRegenerate(_DistBase):
    """resampled iff Sel(s, eps) — the same predicate Distribution.filter uses (C16)"""

    cases = _DistBase.cases + ["args_only:" + c for c in CONCRETE_SEL]

    def call(self, case):
        self.mk(case.split(":sel=")[0])
        tr = self.old_trace()
        self.s = mk_selection(case)
        return self.real(self.fn, self.d, tr, self.s, *self.args, **self.kwargs)

    def ensures(self, case, path):
        yield "does_not_raise", path.outcome == "return"
        if path.outcome != "return":
            return
        tr, w, disc = path.value
        selected = den(self.s, EPS)
        for n, f in self.coherent_tr(tr).items():
            yield n, f
        x = tr.get_choices()
        is_draw = isinstance(x, Sym) and z3.is_app(x.e) and x.e.decl().eq(self.Smp) and z3.eq(x.e.arg(0), self.a)
        is_old = x is self.x0 or (isinstance(x, Sym) and z3.eq(x.e, self.x0.e))
        # on each path exactly one of the two holds syntactically; tie it to the spec predicate
        yield "selected_iff_fresh_draw_from_site_prior", z3.BoolVal(bool(is_draw)) == selected
        yield "unselected_iff_identical_old_value", z3.BoolVal(bool(is_old)) == z3.Not(selected)
        yield "sampler_called_iff_selected", z3.BoolVal(self.sampled_with_site_args()) == selected
        lp = self.LP
        mh = z3.If(selected, z3.RealVal(0), lp(self.x0.e, self.a) - lp(self.x0.e, self.a0))
        yield "weight_is_MH_weight", same(w, Sym(mh))
        yield "discard_is_old_value_iff_selected", z3.If(selected, same(disc, self.x0), z3.BoolVal(disc is None))
        yield "old_trace_not_mutated", self.frame()


# ================================================================================================
# handlers: one generic `@` site = the inductive step of the handler's object invariant


class _HandlerBase(Contract):
    def replay(self, case, clause, model, path):
        return battery_replay()

    cases = ["args_only", "with_kwargs", "kwargs_None"]

    def site(self, case):
        self.addr = atom_sym("addr")
        self.g = AbsGF("g")
        self.args = (value("a0"), value("a1"))
        self.kwargs = {"kw": value("kw")} if case == "with_kwargs" else ({} if case == "args_only" else None)
        self.kw_eff = self.kwargs or {}
        self.a = enc_args(self.args, self.kw_eff)
        self.parent = object()

    def abstract_trace_map(self, name="trace_map"):
        Has = z3.Function(engine().fresh_name("In_" + name), Atom, z3.BoolSort())
        self.TMHas = Has
        self.tm_tok = {}

        def get(k):
            return ("old-entry", k)

        return SymDict(name, init_has=lambda k: Has(k), init_get=get)

    def callee_called(self, method, *expected_prefix):
        """callee invoked exactly once, with the site's arguments after the expected leading ones"""
        cs = [c for c in self.g.calls if c[0] == method]
        if len(cs) != 1 or len(self.g.calls) != 1:
            return False
        _, a, k = cs[0]
        lead, rest = a[: len(expected_prefix)], a[len(expected_prefix) :]
        ok_lead = all(
            (x is y) or (isinstance(x, Sym) and isinstance(y, Sym) and z3.eq(x.e, y.e)) or (x is None and y is None)
            for x, y in zip(lead, expected_prefix)
        ) and len(lead) == len(expected_prefix)
        return ok_lead and len(rest) == len(self.args) and all(x is y for x, y in zip(rest, self.args)) and set(k) == set(self.kw_eff) and all(
            k[n] is self.kw_eff[n] for n in k
        )

    def map_step(self, m, expected_value):
        """m' = m[addr |-> expected_value] and nothing else written"""
        return len(m.writes) == 1 and z3.eq(m.writes[0][0], self.addr.e) and m.writes[0][1] is expected_value


@contract("genjax.core:Simulate.__call__", ["C01"])
class SimulateStep(_HandlerBase):
    cases = ["args_only", "with_kwargs", "kwargs_None"]

    def call(self, case):
        self.site(case)
        self.score0 = real("score0")
        self.tm = self.abstract_trace_map()
        self.h = mk_handler(core.Simulate, score=self.score0, trace_map=self.tm, parent_fn=self.parent)
        return self.real(self.fn, self.h, self.addr, self.g, self.args, self.kwargs)

    def ensures(self, case, path):
        collide = self.TMHas(self.addr.e)
        if path.outcome == "raise":
            yield "raises_only_on_address_collision", z3.And(collide, isinstance(path.value.exc, ValueError))
            yield "no_state_change_on_collision", len(self.tm.writes) == 0 and self.h.score is self.score0 and not self.g.calls
            return
        yield "address_collision_raises", z3.Not(collide)
        yield "callee_simulated_once_with_site_arguments", self.callee_called("simulate")
        tr = self.tm.writes[0][1] if self.tm.writes else None
        yield "trace_map_step", isinstance(tr, AbsTrace) and self.map_step(self.tm, tr)
        if not isinstance(tr, AbsTrace):
            return
        yield "score_step", same(self.h.score, self.score0 + tr.get_score())
        yield "returns_callee_retval", path.value is tr.get_retval()
        # coherence of the stored sub-trace for (g, site args): carried from the callee contract
        yield "subtrace_coherent", same(tr.get_score(), Sym(-self.g.D(self.a, enc(tr.get_choices()))))


@contract("genjax.core:Assess.__call__", ["C01", "C02", "C17"])
class AssessStep(_HandlerBase):
    cases = ["args_only", "with_kwargs", "kwargs_None", "choice_is_subtrace"]

    def call(self, case):
        self.site("args_only" if case == "choice_is_subtrace" else case)
        self.logp0 = real("logp0")
        InC = z3.Function(engine().fresh_name("In_choice_map"), Atom, z3.BoolSort())
        CV = z3.Function(engine().fresh_name("ChoiceAt"), Atom, V)
        self.InC, self.CV = InC, CV
        if case == "choice_is_subtrace":
            # choice maps may hold sub-traces (e.g. a trace's own _choices): their choices are used
            get = lambda k: AbsTrace(self.g, None, Sym(CV(k)), None, None)
        else:
            get = lambda k: Sym(CV(k))
        self.cm = SymDict("choice_map", init_has=lambda k: InC(k), init_get=get)
        Vis = z3.Function(engine().fresh_name("Visited"), Atom, z3.BoolSort())
        self.Vis = Vis
        self.visited = SymSet("visited", init_has=lambda k: Vis(k))
        self.h = mk_handler(core.Assess, choice_map=self.cm, logp=self.logp0, visited_addresses=self.visited, parent_fn=self.parent)
        return self.real(self.fn, self.h, self.addr, self.g, self.args, self.kwargs)

    def ensures(self, case, path):
        collide = self.Vis(self.addr.e)
        present = self.InC(self.addr.e)
        if path.outcome == "raise":
            exc = path.value.exc
            yield "raises_only_on_collision_or_missing_choice", z3.Or(
                z3.And(collide, isinstance(exc, ValueError)), z3.And(z3.Not(present), isinstance(exc, KeyError))
            )
            yield "no_density_change_on_error", self.h.logp is self.logp0
            return
        yield "address_collision_raises", z3.Not(collide)
        x = Sym(self.CV(self.addr.e))
        yield "callee_assessed_once_on_the_choice_at_addr_with_site_arguments", self.callee_called("assess", x)
        yield "density_step", same(self.h.logp, self.logp0 + Sym(self.g.D(self.a, x.e)))
        r = path.value
        yield "returns_callee_retval", same(r, Sym(self.g.R(self.a, x.e)))
        yield "visited_step", len(self.visited.added) == 1 and z3.eq(self.visited.added[0], self.addr.e)
        yield "choice_map_not_written", len(self.cm.writes) == 0


@contract("genjax.core:Generate.__call__", ["C02", "C10"])
class GenerateStep(_HandlerBase):
    cases = ["args_only", "with_kwargs", "kwargs_None", "args_only:constraint_is_a_kept_trace_of_the_callee"]

    def call(self, case):
        kept = case.endswith("kept_trace_of_the_callee")
        self.site(case.split(":")[0])
        self.score0, self.w0 = real("score0"), real("weight0")
        InC = z3.Function(engine().fresh_name("In_choice_map"), Atom, z3.BoolSort())
        CV = z3.Function(engine().fresh_name("ChoiceAt"), Atom, V)
        self.InC, self.CV = InC, CV
        if kept:
            # the constraint at the address is a TRACE of this very callee, recorded under OTHER arguments (a sub-trace
            # carried over from an earlier run): it stands for its choices; the site must still be generated - scored -
            # under the arguments of THIS call
            a_old, s_old = fresh("args_of_the_kept_trace", V), fresh("score_of_the_kept_trace", z3.RealSort())
            self.kept_tr = AbsTrace(self.g, Sym(a_old), Sym(CV(self.addr.e)), Sym(self.g.R(a_old, CV(self.addr.e))), Sym(s_old))
            engine().assume(InC(self.addr.e))
            self.cm = SymDict("choice_map", init_has=lambda k: InC(k), init_get=lambda k: self.kept_tr)
        else:
            self.cm = SymDict("choice_map", init_has=lambda k: InC(k), init_get=lambda k: Sym(CV(k)))
        self.tm = self.abstract_trace_map()
        self.h = mk_handler(core.Generate, choice_map=self.cm, score=self.score0, weight=self.w0, trace_map=self.tm, parent_fn=self.parent)
        return self.real(self.fn, self.h, self.addr, self.g, self.args, self.kwargs)

    def ensures(self, case, path):
        collide = self.TMHas(self.addr.e)
        if path.outcome == "raise":
            yield "raises_only_on_address_collision", z3.And(collide, isinstance(path.value.exc, ValueError))
            yield "no_state_change_on_collision", len(self.tm.writes) == 0 and self.h.score is self.score0 and self.h.weight is self.w0
            return
        yield "address_collision_raises", z3.Not(collide)
        constrained = self.InC(self.addr.e)
        gc = [c for c in self.g.calls if c[0] == "generate"]
        yield "callee_generate_called_once", len(gc) == 1 and len(self.g.calls) == 1
        if len(gc) != 1:
            return
        c = gc[0][1][0]
        x = Sym(self.CV(self.addr.e))
        # constrained -> callee.generate(choice at addr); missing -> callee.generate(None)
        yield "constraint_passed_iff_present", z3.If(constrained, same(c, x), z3.BoolVal(c is None))
        yield "site_arguments_forwarded", self.callee_called("generate", c)
        tr = self.tm.writes[0][1] if self.tm.writes else None
        yield "trace_map_step", isinstance(tr, AbsTrace) and self.map_step(self.tm, tr)
        if not isinstance(tr, AbsTrace):
            return
        yield "score_step", same(self.h.score, self.score0 + tr.get_score())
        w_callee = z3.If(constrained, self.g.GenW(self.a, x.e, z3.IntVal(1)), z3.RealVal(0))
        yield "weight_step(missing_subcall_contributes_0)", same(self.h.weight, self.w0 + Sym(w_callee))
        yield "returns_callee_retval", path.value is tr.get_retval()
        yield "choice_map_not_written", len(self.cm.writes) == 0
        yield "subtrace_coherent", same(tr.get_score(), Sym(-self.g.D(self.a, enc(tr.get_choices()))))


class _EditBase(_HandlerBase):
    def old(self):
        """old Fn trace: _choices maps every address to a coherent sub-trace of the site's callee"""
        InT = z3.Function(engine().fresh_name("In_old_trace"), Atom, z3.BoolSort())
        XO = z3.Function(engine().fresh_name("OldChoice"), Atom, V)
        SO = z3.Function(engine().fresh_name("OldScore"), Atom, z3.RealSort())
        AO = z3.Function(engine().fresh_name("OldArgs"), Atom, V)
        self.InT, self.XO, self.SO, self.AO = InT, XO, SO, AO
        self.old_sub = {}

        def get(k):
            key = str(k)
            if key not in self.old_sub:
                self.old_sub[key] = AbsTrace(self.g, Sym(AO(k)), Sym(XO(k)), Sym(self.g.R(AO(k), XO(k))), Sym(SO(k)))
            return self.old_sub[key]

        self.old_choices = SymDict("old._choices", init_has=lambda k: InT(k), init_get=get)
        self.old_tr = core.Tr(self.parent_fn(), ((), {}), self.old_choices, value("old_ret"), real("old_score"))
        # coherent(sub-trace at addr): score = -D(args, x)
        k = self.addr.e
        engine().assume(SO(k) == -self.g.D(AO(k), XO(k)))
        return self.old_tr

    def parent_fn(self):
        return core.Fn(core.Const(lambda: None))


@contract("genjax.core:Update.__call__", ["C03", "C05", "C09"])
class UpdateStep(_EditBase):
    cases = ["args_only", "with_kwargs", "kwargs_None"]

    def call(self, case):
        self.site(case)
        tr = self.old()
        self.score0, self.w0 = real("score0"), real("weight0")
        InC = z3.Function(engine().fresh_name("In_choice_map"), Atom, z3.BoolSort())
        CV = z3.Function(engine().fresh_name("ChoiceAt"), Atom, V)
        self.InC, self.CV = InC, CV
        self.cm = SymDict("choice_map", init_has=lambda k: InC(k), init_get=lambda k: Sym(CV(k)))
        self.tm = self.abstract_trace_map()
        self.disc = self.abstract_trace_map("discard")
        self.h = mk_handler(core.Update, trace=tr, choice_map=self.cm, trace_map=self.tm, discard=self.disc, score=self.score0, weight=self.w0, parent_fn=self.parent)
        return self.real(self.fn, self.h, self.addr, self.g, self.args, self.kwargs)

    def ensures(self, case, path):
        k = self.addr.e
        collide = self.tm._init_has(k)
        in_old = self.InT(k)
        if path.outcome == "raise":
            exc = path.value.exc
            yield "raises_only_on_collision_or_address_missing_from_old_trace", z3.Or(
                z3.And(collide, isinstance(exc, ValueError)), z3.And(z3.Not(in_old), isinstance(exc, KeyError))
            )
            return
        yield "address_collision_raises", z3.Not(collide)
        uc = [c for c in self.g.calls if c[0] == "update"]
        yield "callee_update_called_once", len(uc) == 1 and len(self.g.calls) == 1
        if len(uc) != 1:
            return
        sub, c = uc[0][1][0], uc[0][1][1]
        yield "old_subtrace_at_addr_passed", sub is self.old_sub.get(str(k))
        constrained = self.InC(k)
        # new value if constrained else the old visible value
        yield "constraint_is_new_or_old_value", z3.If(constrained, same(c, Sym(self.CV(k))), same(c, Sym(self.XO(k))))
        yield "site_arguments_forwarded", self.callee_called("update", sub, c)
        tr = self.tm.writes[0][1] if self.tm.writes else None
        yield "trace_map_step", isinstance(tr, AbsTrace) and self.map_step(self.tm, tr)
        if not isinstance(tr, AbsTrace):
            return
        x_new = z3.If(constrained, self.g.UpdX(self.XO(k), self.CV(k)), self.g.UpdX(self.XO(k), self.XO(k)))
        yield "score_step", same(self.h.score, self.score0 + tr.get_score())
        yield "weight_step_is_density_ratio", same(
            self.h.weight, self.w0 + Sym(self.g.D(self.a, x_new) - self.g.D(self.AO(k), self.XO(k)))
        )
        yield "discard_step", len(self.disc.writes) == 1 and z3.eq(self.disc.writes[0][0], k)
        yield "returns_callee_retval", path.value is tr.get_retval()
        yield "old_trace_and_choice_map_not_written", len(self.cm.writes) == 0 and len(self.old_choices.writes) == 0


@contract("genjax.core:Regenerate.__call__", ["C04", "C05", "C09", "C16"])
class RegenerateStep(_EditBase):
    cases = ["args_only", "with_kwargs", "kwargs_None"]

    def call(self, case):
        self.site(case)
        tr = self.old()
        self.score0, self.w0 = real("score0"), real("weight0")
        self.sel_inner = AbsSel.fresh("S")
        self.s = core.Selection(self.sel_inner)
        self.tm = self.abstract_trace_map()
        self.disc = self.abstract_trace_map("discard")
        self.h = mk_handler(core.Regenerate, trace=tr, s=self.s, trace_map=self.tm, discard=self.disc, score=self.score0, weight=self.w0, parent_fn=self.parent)
        return self.real(self.fn, self.h, self.addr, self.g, self.args, self.kwargs)

    def ensures(self, case, path):
        k = self.addr.e
        collide = self.tm._init_has(k)
        in_old = self.InT(k)
        if path.outcome == "raise":
            exc = path.value.exc
            yield "raises_only_on_collision_or_address_missing_from_old_trace", z3.Or(
                z3.And(collide, isinstance(exc, ValueError)), z3.And(z3.Not(in_old), isinstance(exc, KeyError))
            )
            return
        yield "address_collision_raises", z3.Not(collide)
        rc = [c for c in self.g.calls if c[0] == "regenerate"]
        yield "callee_regenerate_called_once", len(rc) == 1 and len(self.g.calls) == 1
        if len(rc) != 1:
            return
        sub, subsel = rc[0][1][0], rc[0][1][1]
        yield "old_subtrace_at_addr_passed", sub is self.old_sub.get(str(k))
        # the REMAINDER of the selection below addr is what the callee receives
        p = fresh("p", PathSort)
        from .selection import cons

        yield "callee_receives_remaining_selection", den(subsel, p) == den(self.s, cons(self.addr, p))
        yield "site_arguments_forwarded", self.callee_called("regenerate", sub, subsel)
        tr = self.tm.writes[0][1] if self.tm.writes else None
        yield "trace_map_step", isinstance(tr, AbsTrace) and self.map_step(self.tm, tr)
        if not isinstance(tr, AbsTrace):
            return
        yield "score_step", same(self.h.score, self.score0 + tr.get_score())
        # weight accumulates the callee's MH weight
        g = self.g
        se = sel_id(subsel)
        x2 = g.RegX(self.a, self.XO(k), se, z3.IntVal(1))
        mh = (g.D(self.a, x2) - g.D(self.AO(k), self.XO(k))) - (g.P(self.a, x2, se) - g.P(enc(Sym(self.AO(k))), self.XO(k), se))
        yield "weight_step_is_callee_MH_weight", same(self.h.weight, self.w0 + Sym(mh))
        yield "discard_step", len(self.disc.writes) == 1 and z3.eq(self.disc.writes[0][0], k)
        yield "returns_callee_retval", path.value is tr.get_retval()


# ================================================================================================
# Fn.<op>: handler pushed in the invariant's initial state, body run on (*args, **kwargs), result built
# from the *same* handler, stack balanced.  The body is abstract: it reaches the handler only through
# the handler object on top of the stack (A-BODY), leaves it in an arbitrary final state, and may run
# nested generative functions (push/pop of an unrelated handler).


class _FnOp(Contract):
    def replay(self, case, clause, model, path):
        return battery_replay()

    cases = ["empty_stack:args_only", "empty_stack:with_kwargs", "nested_stack:args_only"]
    handler_cls = None

    def mk(self, case):
        self.args = (value("a0"), value("a1"))
        self.kwargs = {"kw": value("kw")} if "with_kwargs" in case else {}
        self.r = value("body_retval")
        self.seen = {}
        outer = self

        def body(*a, **k):
            st = core.handler_stack
            outer.seen["args"], outer.seen["kwargs"] = a, k
            outer.seen["depth_in_body"] = len(st)
            h = st[-1]
            outer.seen["handler"] = h
            outer.seen["initial"] = dict(h.__dict__)
            # a nested generative function call inside the body
            inner = core.Simulate(Sym(z3.RealVal(0)), {}, None)
            st.append(inner)
            st.pop()
            outer.final_state(h)
            return outer.r

        self.f = core.Fn(core.Const(body))
        self.sentinel = object()
        core.handler_stack.clear()
        if case.startswith("nested_stack"):
            core.handler_stack.append(self.sentinel)
        self.depth0 = len(core.handler_stack)

    def final_state(self, h):
        self.fin = {}
        for name in ("score", "weight", "logp"):
            if hasattr(h, name):
                v = real("final_" + name)
                setattr(h, name, v)
                self.fin[name] = v
        for name in ("trace_map", "discard"):
            if hasattr(h, name):
                m = {"__marker__": name}
                setattr(h, name, m)
                self.fin[name] = m

    def common(self, path):
        yield "does_not_raise", path.outcome == "return"
        yield "stack_balanced", len(core.handler_stack) == self.depth0 and (self.depth0 == 0 or core.handler_stack[-1] is self.sentinel)
        core.handler_stack.clear()
        if path.outcome != "return":
            return
        s = self.seen
        yield "body_called_with_exactly_args_kwargs", len(s.get("args", ())) == len(self.args) and all(x is y for x, y in zip(s["args"], self.args)) and set(s["kwargs"]) == set(self.kwargs) and all(s["kwargs"][k] is self.kwargs[k] for k in self.kwargs)
        yield "handler_on_top_during_body", s.get("depth_in_body") == self.depth0 + 1 and isinstance(s.get("handler"), self.handler_cls)
        init = s.get("initial", {})
        yield "handler_parent_is_this_fn", init.get("parent_fn") is self.f
        for name in ("score", "weight", "logp"):
            if name in init:
                yield f"initial_{name}_is_zero", same(init[name], 0.0)
        for name in ("trace_map", "discard"):
            if name in init:
                yield f"initial_{name}_is_empty", type(init[name]) is dict and init[name] == {}
        if "visited_addresses" in init:
            yield "initial_visited_is_empty", type(init["visited_addresses"]) is set and not init["visited_addresses"]

    def tr_ok(self, tr):
        yield "result_trace_is_Tr_of_this_fn", isinstance(tr, core.Tr) and tr._gen_fn is self.f
        if not isinstance(tr, core.Tr):
            return
        yield "args_recorded", args_recorded(tr._args, self.args, self.kwargs)
        yield "choices_are_the_handlers_trace_map", tr._choices is self.fin.get("trace_map")
        yield "retval_is_body_retval", tr._retval is self.r
        yield "score_is_the_handlers_score", tr._score is self.fin.get("score")


@contract("genjax.core:Fn.simulate", ["C01"])
class FnSimulate(_FnOp):
    handler_cls = core.Simulate

    def call(self, case):
        self.mk(case)
        return self.real(self.fn, self.f, *self.args, **self.kwargs)

    def ensures(self, case, path):
        yield from self.common(path)
        if path.outcome == "return":
            yield from self.tr_ok(path.value)


@contract("genjax.core:Fn.assess", ["C01", "C17"])
class FnAssess(_FnOp):
    handler_cls = core.Assess

    def call(self, case):
        self.mk(case)
        self.x = {"__marker__": "x"}
        return self.real(self.fn, self.f, self.x, *self.args, **self.kwargs)

    def ensures(self, case, path):
        yield from self.common(path)
        if path.outcome == "return":
            logp, r = path.value
            yield "handler_reads_the_given_choice_map", self.seen["initial"].get("choice_map") is self.x
            yield "density_is_the_handlers_logp", logp is self.fin.get("logp")
            yield "retval_is_body_retval", r is self.r


@contract("genjax.core:Fn.generate", ["C02", "C10"])
class FnGenerate(_FnOp):
    cases = ["empty_stack:args_only", "empty_stack:with_kwargs", "nested_stack:args_only", "unconstrained(None):args_only", "unconstrained(None):with_kwargs"]

    def call(self, case):
        self.mk(case)
        self.x = None if case.startswith("unconstrained") else {"__marker__": "x"}
        self.handler_cls = core.Simulate if self.x is None else core.Generate
        return self.real(self.fn, self.f, self.x, *self.args, **self.kwargs)

    def ensures(self, case, path):
        yield from self.common(path)
        if path.outcome == "return":
            tr, w = path.value
            yield from self.tr_ok(tr)
            if self.x is None:
                yield "weight_zero_when_unconstrained", same(w, 0.0)
            else:
                yield "handler_reads_the_given_constraints", self.seen["initial"].get("choice_map") is self.x
                yield "weight_is_the_handlers_weight", w is self.fin.get("weight")


class _FnEdit(_FnOp):
    def old(self):
        self.old_tr = core.Tr(self.f, ((value("b0"),), {}), {"__marker__": "old"}, value("old_ret"), real("old_score"))
        return self.old_tr


@contract("genjax.core:Fn.update", ["C03", "C05", "C09"])
class FnUpdate(_FnEdit):
    handler_cls = core.Update
    cases = ["empty_stack:args_only", "empty_stack:with_kwargs", "nested_stack:args_only", "constraint_None:args_only"]

    def call(self, case):
        self.mk(case)
        self.x = None if case.startswith("constraint_None") else {"__marker__": "x"}
        return self.real(self.fn, self.f, self.old(), self.x, *self.args, **self.kwargs)

    def ensures(self, case, path):
        yield from self.common(path)
        if path.outcome == "return":
            tr, w, d = path.value
            yield from self.tr_ok(tr)
            init = self.seen["initial"]
            yield "handler_edits_the_given_trace", init.get("trace") is self.old_tr
            if self.x is None:
                yield "None_constraint_is_the_empty_map", type(init.get("choice_map")) is dict and init.get("choice_map") == {}
            else:
                yield "handler_reads_the_given_constraints", init.get("choice_map") is self.x
            yield "weight_is_the_handlers_weight", w is self.fin.get("weight")
            yield "discard_is_the_handlers_discard", d is self.fin.get("discard")


@contract("genjax.core:Fn.regenerate", ["C04", "C05", "C09", "C16"])
class FnRegenerate(_FnEdit):
    handler_cls = core.Regenerate
    cases = _FnEdit.cases + ["empty_stack:args_only:" + c for c in CONCRETE_SEL]

    def call(self, case):
        self.mk(case.split(":sel=")[0])
        self.s = mk_selection(case)
        return self.real(self.fn, self.f, self.old(), self.s, *self.args, **self.kwargs)

    def ensures(self, case, path):
        yield from self.common(path)
        if path.outcome == "return":
            tr, w, d = path.value
            yield from self.tr_ok(tr)
            init = self.seen["initial"]
            yield "handler_edits_the_given_trace", init.get("trace") is self.old_tr
            yield "handler_uses_the_given_selection", init.get("s") is self.s
            yield "weight_is_the_handlers_weight", w is self.fin.get("weight")
            yield "discard_is_the_handlers_discard", d is self.fin.get("discard")


# ------------------------------------------------------------------------------------------------
# the `@` plumbing: GFI.__call__ -> Thunk -> trace() -> handler on top of the stack


@contract("genjax.core:trace", ["C01", "C02", "C03", "C04"])
class TraceFn(Contract):
    cases = ["kwargs", "kwargs_None"]

    def call(self, case):
        self.calls = []
        outer = self

        class H:
            def __call__(s, addr, gf, args, kwargs):
                outer.calls.append((s, addr, gf, args, kwargs))
                return outer.ret

        self.ret = value("ret")
        self.h_low, self.h_top = H(), H()
        core.handler_stack.clear()
        core.handler_stack.extend([self.h_low, self.h_top])
        self.addr, self.g, self.args = atom_sym("addr"), object(), (value("a0"),)
        self.kwargs = {"kw": value("kw")} if case == "kwargs" else None
        return self.real(self.fn, self.addr, self.g, self.args, self.kwargs)

    def ensures(self, case, path):
        core.handler_stack.clear()
        yield "does_not_raise", path.outcome == "return"
        if path.outcome != "return":
            return
        yield "top_handler_called_once", len(self.calls) == 1 and self.calls[0][0] is self.h_top
        if len(self.calls) == 1:
            _, addr, g, args, kw = self.calls[0]
            yield "address_callee_args_forwarded", addr is self.addr and g is self.g and args is self.args
            yield "kwargs_forwarded", (kw is self.kwargs) if self.kwargs else kw == {}
        yield "returns_handler_result", path.value is self.ret


@contract("genjax.core:Thunk.__matmul__", ["C01"])
class ThunkMatmul(Contract):
    cases = ["default"]

    def call(self, case):
        self.calls = []
        outer = self

        class H:
            def __call__(s, addr, gf, args, kwargs):
                outer.calls.append((addr, gf, args, kwargs))
                return outer.ret

        self.ret = value("ret")
        core.handler_stack.clear()
        core.handler_stack.append(H())
        self.g = AbsGF("g")
        self.args, self.kwargs = (value("a0"), value("a1")), {"kw": value("kw")}
        self.addr = atom_sym("addr")
        th = core.Thunk(self.g, self.args, self.kwargs)
        return self.real(self.fn, th, self.addr)

    def ensures(self, case, path):
        core.handler_stack.clear()
        yield "does_not_raise", path.outcome == "return"
        if path.outcome == "return":
            yield "site_is_(addr, callee, args, kwargs)", len(self.calls) == 1 and self.calls[0][0] is self.addr and self.calls[0][1] is self.g and self.calls[0][2] is self.args and self.calls[0][3] == self.kwargs and all(self.calls[0][3][k] is self.kwargs[k] for k in self.kwargs)
            yield "returns_handler_result", path.value is self.ret


@contract("genjax.core:GFI.__call__", ["C01"])
class GFICall(Contract):
    cases = ["inside_handler", "top_level"]

    def call(self, case):
        core.handler_stack.clear()
        self.args, self.kwargs = (value("a0"),), {"kw": value("kw")}
        if case == "inside_handler":
            core.handler_stack.append(object())
            self.g, _, _, _ = abstract_distribution("d")
        else:
            self.g, self.Smp, self.LP, self.log = abstract_distribution("d")
        return self.real(self.fn, self.g, *self.args, **self.kwargs)

    def ensures(self, case, path):
        core.handler_stack.clear()
        yield "does_not_raise", path.outcome == "return"
        if path.outcome != "return":
            return
        r = path.value
        if case == "inside_handler":
            yield "returns_thunk_of_(self,args,kwargs)", isinstance(r, core.Thunk) and r.gen_fn is self.g and r.args == self.args and all(a is b for a, b in zip(r.args, self.args)) and set(r.kwargs) == set(self.kwargs) and all(r.kwargs[k] is self.kwargs[k] for k in self.kwargs)
        else:
            sc = [c for c in self.log if c[0] == "sample"]
            yield "top_level_call_simulates_and_returns_retval", len(sc) == 1 and isinstance(r, Sym) and r.e.decl().eq(self.Smp)


@contract("genjax.core:GFI.log_density", ["C01"])
class LogDensity(Contract):
    cases = ["scalar"]

    def call(self, case):
        self.g = AbsGF("g")
        self.x, self.args = value("x"), (value("a0"),)
        return self.real(self.fn, self.g, self.x, *self.args)

    def ensures(self, case, path):
        yield "does_not_raise", path.outcome == "return"
        if path.outcome == "return":
            yield "is_assess_density", same(path.value, Sym(self.g.D(enc_args(self.args, {}), self.x.e)))


@contract("genjax.core:Trace.update", ["C03", "C05"])
class TraceUpdate(Contract):
    """convenience: trace.update(x) == gen_fn.update(trace, x, *stored_args, **stored_kwargs)"""

    cases = ["stored_args_reused", "stored_kwargs_reused", "explicit_args", "explicit_args:trace_was_made_with_kwargs", "explicit_kwargs_only:trace_was_made_with_args"]

    def call(self, case):
        self.g = AbsGF("g")
        self.args0 = (value("b0"), value("b1"))
        self.kw0 = {"kw": value("kw0")} if (case == "stored_kwargs_reused" or "trace_was_made_with_kwargs" in case) else {}
        self.tr = AbsTrace(self.g, (self.args0, self.kw0), value("x0"), value("r0"), real("s0"))
        self.c = value("c")
        self.new, self.new_kw = (), {}
        if case.startswith("explicit_args"):
            # the caller gives the NEW call: exactly these arguments (a trace made with kwargs does not lend its kwargs)
            self.new = (value("n0"),)
            return self.real(self.fn, self.tr, self.c, *self.new)
        if case.startswith("explicit_kwargs_only"):
            self.new_kw = {"kw": value("nkw")}
            return self.real(self.fn, self.tr, self.c, **self.new_kw)
        return self.real(self.fn, self.tr, self.c)

    def ensures(self, case, path):
        yield "does_not_raise", path.outcome == "return"
        if path.outcome != "return":
            return
        uc = [c for c in self.g.calls if c[0] == "update"]
        yield "gen_fn_update_called_once", len(uc) == 1
        if len(uc) != 1:
            return
        _, a, k = uc[0]
        explicit = case.startswith("explicit")
        exp_args = self.new if explicit else self.args0
        exp_kw = self.new_kw if explicit else self.kw0
        yield "trace_and_constraint_forwarded", a[0] is self.tr and a[1] is self.c
        yield "arguments_are_the_stored_(or_given)_ones", len(a) == 2 + len(exp_args) and all(x is y for x, y in zip(a[2:], exp_args)) and set(k) == set(exp_kw) and all(k[n] is exp_kw[n] for n in k)


@contract("genjax.core:Tr.get_score", ["C01", "C08", "C05"])
class TrGetScore(Contract):
    """G7 for Tr: scalar score as is; a vectorised trace reports the sum of its lane scores"""

    cases = ["scalar", "vectorised", "doubly_vectorised(nested_combinators)"]

    def call(self, case):
        from vt.tensor import Tensor

        if case == "scalar":
            self.s = real("s")
        else:
            self.n = fresh("n", z3.IntSort())
            self.m = fresh("m", z3.IntSort())
            engine().assume(z3.And(self.n >= 1, self.m >= 1))
            self.s = Tensor.fresh("s", (self.n,) if case == "vectorised" else (self.n, self.m))
        tr = core.Tr(None, None, None, None, self.s)
        return self.real(self.fn, tr)

    def ensures(self, case, path):
        from vt.tensor import mk_sum

        yield "does_not_raise", path.outcome == "return"
        if path.outcome == "return":
            if case == "scalar":
                yield "score_as_stored", path.value is self.s
            elif case == "vectorised":
                yield "sum_of_lane_scores", same(path.value, Sym(mk_sum(self.n, lambda i: self.s.fn((i,)))))
            else:
                # Scan(Scan(.)), Vmap(Vmap(.)): the score is the sum over ALL lanes, a scalar
                yield "sum_over_all_lanes_is_a_scalar", same(path.value, Sym(mk_sum(self.n, lambda i: mk_sum(self.m, lambda j: self.s.fn((i, j))))))


@contract("genjax.core:get_choices", ["C01", "C03"])
class GetChoices(Contract):
    """strips traces (recursively) and Fixed wrappers, keeps the address structure"""

    cases = ["nested"]

    def call(self, case):
        g = AbsGF("g")
        self.v1, self.v2, self.v3 = value("v1"), value("v2"), value("v3")
        sub = AbsTrace(g, None, self.v2, None, None)
        inner_tr = core.Tr(None, None, {"c": core.Fixed(self.v3), "d": sub}, None, None)
        self.tree = {"a": self.v1, "b": inner_tr}
        top = core.Tr(None, None, self.tree, None, None)
        return self.real(self.fn, top)

    def ensures(self, case, path):
        yield "does_not_raise", path.outcome == "return"
        if path.outcome == "return":
            r = path.value
            yield "structure_and_values", isinstance(r, dict) and set(r) == {"a", "b"} and r["a"] is self.v1 and isinstance(r["b"], dict) and set(r["b"]) == {"c", "d"} and r["b"]["c"] is self.v3 and r["b"]["d"] is self.v2

from vt.contract import canary as _canary  # noqa: E402

_canary(DistUpdate, "constrained:args_only", "weight_is_density_ratio")
_canary(GenerateStep, "args_only", "weight_step(missing_subcall_contributes_0)")
_canary(RegenerateStep, "args_only", "callee_receives_remaining_selection")
