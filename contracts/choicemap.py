"""C16 (second half) — filter / merge partition choice maps at leaf level.

Abstraction of a choice map x (nested dicts): its leaf set  Leaf_x : Path -> Bool  and leaf values
Val_x : Path -> V.  Contracts (from the property: "filter(x, s) splits a choice map into two disjoint
maps whose merge is x and whose first part holds exactly the selected leaves"):

  Fn.filter(x, s) = (x+, x-):   Leaf_{x+}(p) <=> Leaf_x(p) /\\ Sel(s,p)      Val_{x+} = Val_x on it
                                Leaf_{x-}(p) <=> Leaf_x(p) /\\ ~Sel(s,p)     (None has no leaves)
  Fn.merge(x, x', None) = (m, d): Leaf_m = Leaf_x \\/ Leaf_x' ; Val_m = Val_x' where x' has the leaf else Val_x
                                  Leaf_d(p) <=> both have leaf p (the overwritten leaves of x), Val_d = Val_x
  Fn.merge(x, x', check) = (m, None): shared leaves hold where(check, Val_x, Val_x'), others copied

The `for` loops are verified by invariant on the mechanically extracted pieces (vt.loops): prefix
establishes the invariant, the body preserves it for a *generic* entry and an *arbitrary* pre-state
(symbolic accumulators), the suffix turns it into the postcondition.  The recursive call is replaced
by the contract itself (induction on nesting depth).  All statements are pointwise in one universally
quantified path P0; quantified hypotheses are instantiated by hand at the terms the goal mentions.
"""
from __future__ import annotations

import z3

from vt import loader, loops
from vt.contract import Contract, contract
from vt.maps import SymDict, key_term
from vt.sym import Assumed, Atom, EngineLimit, PathSort, Sym, V, atom, atom_sym, boolean, engine, fresh, value
from .selection import EPS, AbsSel, cons, den, head, tail

core = loader.load("core")


class AbsNode(dict):
    """abstract nested-dict node: leaf(q) -> Bool, val(q) -> V (closures over relative paths)."""

    def __init__(self, leaf, val, name="node"):
        super().__init__()
        self.leaf, self.val, self.name = leaf, val, name

    def __bool__(self):
        # well-formed abstract nodes are non-empty dicts (the empty dict is a separate declared case)
        return True

    def __repr__(self):
        return "<AbsNode %s>" % self.name

    def __hash__(self):
        return id(self)

    def __eq__(self, o):
        return self is o


def leafset(obj, p):
    if obj is None:
        return z3.BoolVal(False)
    if isinstance(obj, AbsNode):
        return obj.leaf(p)
    if isinstance(obj, SymDict):
        k = head(p)
        return z3.And(z3.Length(p) > 0, z3.Or(*[z3.And(c, leafset(v, tail(p))) for c, v in obj.lookup_cases(k)]))
    if isinstance(obj, dict):
        return z3.And(
            z3.Length(p) > 0, z3.Or(*[z3.And(head(p) == atom(k), leafset(v, tail(p))) for k, v in obj.items()])
        )
    if isinstance(obj, Sym):
        return p == EPS
    raise EngineLimit("leafset of %r" % type(obj))


_UNDEF = z3.Function("UndefVal", PathSort, V)


def leafval(obj, p):
    """value at leaf p (meaningful only where leafset holds)"""
    if obj is None:
        return _UNDEF(p)
    if isinstance(obj, AbsNode):
        return obj.val(p)
    if isinstance(obj, SymDict):
        k = head(p)
        r = _UNDEF(p)
        for c, v in reversed(obj.lookup_cases(k)):
            r = z3.If(c, leafval(v, tail(p)), r)
        return r
    if isinstance(obj, dict):
        r = _UNDEF(p)
        for k, v in obj.items():
            r = z3.If(head(p) == atom(k), leafval(v, tail(p)), r)
        return r
    if isinstance(obj, Sym):
        if obj.e.sort() != V:
            raise EngineLimit("leaf of sort %s" % obj.e.sort())
        return obj.e
    raise EngineLimit("leafval of %r" % type(obj))


def abstract_map(name, nonempty=None):
    """x: arbitrary nested choice map.  Returns (SymDict, InX, LeafX, ValX)."""
    InX = z3.Function(engine().fresh_name("In_" + name), Atom, z3.BoolSort())
    LeafX = z3.Function(engine().fresh_name("Leaf_" + name), PathSort, z3.BoolSort())
    ValX = z3.Function(engine().fresh_name("Val_" + name), PathSort, V)
    d = SymDict(
        name,
        init_has=lambda k: InX(k),
        init_get=lambda k: AbsNode(lambda q, k=k: LeafX(cons(k, q)), lambda q, k=k: ValX(cons(k, q)), name + "[k]"),
        nonempty=nonempty,
    )
    return d, InX, LeafX, ValX


def wf_at(InX, LeafX, p):
    """well-formedness of an abstract map, instantiated at p: leaves live under keys of the map"""
    return z3.Implies(LeafX(p), z3.And(z3.Length(p) > 0, InX(head(p))))


def seq_split(p):
    """valid sequence fact, given to the solver as a hint"""
    return z3.Implies(z3.Length(p) > 0, p == cons(head(p), tail(p)))


def _one_loop(pc, what):
    if pc["n_loops"] != 1:
        raise EngineLimit("%s has %d top-level for-loops; the loop invariant is written for ONE loop over all entries (restructured function: undecided here, see the bounded whole-function check)" % (what, pc["n_loops"]))


def _need(locs, *names):
    for n in names:
        if n not in locs:
            raise EngineLimit("loop piece has no local named %r (function was restructured)" % n)


# ================================================================================================
# Fn.filter


class _FilterBase(Contract):
    def setup(self):
        self.pc = loops.pieces(self.fn, 0)
        _one_loop(self.pc, "Fn.filter")
        _need(self.pc["locals"], "self", "x", "selection")
        self.P0 = fresh("P0", PathSort)
        self.sel_inner = AbsSel.fresh("S")
        self.selection = core.Selection(self.sel_inner)
        self.S = lambda p: den(self.selection, p)
        eng = engine()
        eng.assume(seq_split(self.P0))

    def accumulators(self, locs):
        """identify the loop state BY ROLE, not by name (a renamed local must not matter): the prefix, run on a token
        map, leaves two empty dicts and two False flags; the suffix returns (A if fa else None, B if fb else None) - run
        on marker objects it tells which dict is the selected / unselected part and which flag guards which"""
        if getattr(self, "_roles", None):
            return self._roles
        pc = self.pc
        base = {n: None for n in pc["locals"]}
        base.update(x={"tok": 1}, selection=None, self=None)
        try:
            kind, pl = pc["prefix"](**base)
        except Exception as e:
            raise EngineLimit("Fn.filter prefix not runnable on a token map: %r" % (e,))
        if kind != "fallthrough":
            raise EngineLimit("Fn.filter prefix returns on a non-empty map")
        dicts = [n for n, v in pl.items() if type(v) is dict and v == {} and n != "x"]
        flags = [n for n, v in pl.items() if v is False]
        if len(dicts) != 2 or len(flags) != 2:
            raise EngineLimit("Fn.filter loop state is not two dict accumulators and two flags (restructured): %r %r" % (dicts, flags))
        MA, MB = {"__marker__": "A"}, {"__marker__": "B"}
        probe = dict(pl)
        probe.update({dicts[0]: MA, dicts[1]: MB, flags[0]: True, flags[1]: True})
        try:
            k1, r1 = pc["suffix"](**probe)
            probe.update({flags[0]: True, flags[1]: False})
            k2, r2 = pc["suffix"](**probe)
        except Exception as e:
            raise EngineLimit("Fn.filter suffix not runnable on markers: %r" % (e,))
        if k1 != "return" or not (isinstance(r1, tuple) and len(r1) == 2 and {id(r1[0]), id(r1[1])} == {id(MA), id(MB)}):
            raise EngineLimit("Fn.filter suffix does not return the two accumulators")
        a_sel = dicts[0] if r1[0] is MA else dicts[1]
        a_uns = dicts[1] if r1[0] is MA else dicts[0]
        # with flags[1] = False exactly one position became None: that position's flag is flags[1]
        if r2[0] is None and r2[1] is not None:
            a_fs, a_fu = flags[1], flags[0]
        elif r2[1] is None and r2[0] is not None:
            a_fs, a_fu = flags[0], flags[1]
        else:
            raise EngineLimit("Fn.filter suffix does not guard its parts by the two flags")
        self._roles = (a_sel, a_uns, a_fs, a_fu)
        return self._roles

    def inv(self, selected, unselected, fs, fu, Done, pt):
        LeafX, ValX, S = self.LeafX, self.ValX, self.S
        from vt.sym import _b

        fs, fu = _b(fs), _b(fu)
        in_done = z3.And(z3.Length(pt) > 0, Done(head(pt)), LeafX(pt))
        return {
            "selected_leaves": leafset(selected, pt) == z3.And(in_done, S(pt)),
            "unselected_leaves": leafset(unselected, pt) == z3.And(in_done, z3.Not(S(pt))),
            "flag_selected": z3.Implies(z3.Not(fs), z3.Not(leafset(selected, pt))),
            "flag_unselected": z3.Implies(z3.Not(fu), z3.Not(leafset(unselected, pt))),
            "selected_values": z3.Implies(leafset(selected, pt), leafval(selected, pt) == ValX(pt)),
            "unselected_values": z3.Implies(leafset(unselected, pt), leafval(unselected, pt) == ValX(pt)),
        }

    def post(self, res, pt):
        xp, xm = res
        LeafX, ValX, S = self.LeafX, self.ValX, self.S
        return {
            "first_holds_exactly_selected_leaves": leafset(xp, pt) == z3.And(LeafX(pt), S(pt)),
            "second_holds_exactly_unselected_leaves": leafset(xm, pt) == z3.And(LeafX(pt), z3.Not(S(pt))),
            "disjoint": z3.Not(z3.And(leafset(xp, pt), leafset(xm, pt))),
            "values_kept": z3.And(
                z3.Implies(leafset(xp, pt), leafval(xp, pt) == ValX(pt)),
                z3.Implies(leafset(xm, pt), leafval(xm, pt) == ValX(pt)),
            ),
        }


class _FilterStub:
    """`self` of the loop body: the recursive call is the Fn.filter contract (induction on depth)."""

    def __init__(self, owner):
        self.o = owner

    def filter(self, val, subsel):
        o = self.o
        Assumed.note("induction hypothesis: recursive Fn.filter call on a strictly smaller sub-map satisfies the Fn.filter contract")
        if not isinstance(val, AbsNode):
            raise EngineLimit("recursive filter on a non-dict value")
        R = lambda q: den(subsel, q)
        t = tail(o.P0)
        eng = engine()
        plus_none = eng.decide(fresh("sub_selected_is_None", z3.BoolSort()))
        minus_none = eng.decide(fresh("sub_unselected_is_None", z3.BoolSort()))
        if plus_none:
            eng.assume(z3.Not(z3.And(val.leaf(t), R(t))))
            sp = None
        else:
            sp = AbsNode(lambda q: z3.And(val.leaf(q), R(q)), val.val, "sub+")
        if minus_none:
            eng.assume(z3.Not(z3.And(val.leaf(t), z3.Not(R(t)))))
            sm = None
        else:
            sm = AbsNode(lambda q: z3.And(val.leaf(q), z3.Not(R(q))), val.val, "sub-")
        return sp, sm


@contract("genjax.core:Fn.filter", ["C16", "C09"])
class FnFilterLoop(_FilterBase):
    """loop invariant of Fn.filter's `for addr, value in x.items()`"""

    cases = ["prefix", "body[leaf]", "body[dict]", "body[empty_dict]", "suffix"]

    def call(self, case):
        self.setup()
        eng = engine()
        P0 = self.P0
        nonempty = fresh("x_nonempty", z3.BoolSort())
        self.x, self.InX, self.LeafX, self.ValX = abstract_map("x", nonempty=nonempty)
        eng.assume(wf_at(self.InX, self.LeafX, P0))
        eng.assume(z3.Implies(z3.Not(nonempty), z3.Not(self.InX(head(P0)))))
        stub = _FilterStub(self)
        names = self.pc["locals"]
        base = {n: None for n in names}
        base.update(self=stub, x=self.x, selection=self.selection)
        a_sel, a_uns, a_fs, a_fu = self.accumulators(names)
        if case == "prefix":
            return self.real(self.pc["prefix"], **base)
        Done = z3.Function(eng.fresh_name("Done"), Atom, z3.BoolSort())
        LeafSel0 = z3.Function(eng.fresh_name("LeafSel0"), PathSort, z3.BoolSort())
        ValSel0 = z3.Function(eng.fresh_name("ValSel0"), PathSort, V)
        LeafUns0 = z3.Function(eng.fresh_name("LeafUns0"), PathSort, z3.BoolSort())
        ValUns0 = z3.Function(eng.fresh_name("ValUns0"), PathSort, V)
        HasSel0 = z3.Function(eng.fresh_name("HasSel0"), Atom, z3.BoolSort())
        HasUns0 = z3.Function(eng.fresh_name("HasUns0"), Atom, z3.BoolSort())

        def acc(name, has, leaf, val):
            return SymDict(
                name,
                init_has=lambda k: has(k),
                init_get=lambda k: AbsNode(lambda q, k=k: leaf(cons(k, q)), lambda q, k=k: val(cons(k, q)), name + "0[k]"),
            )

        sel0 = acc("selected", HasSel0, LeafSel0, ValSel0)
        uns0 = acc("unselected", HasUns0, LeafUns0, ValUns0)
        # representation facts of the symbolic accumulators (a leaf lives under a present key), at P0
        eng.assume(z3.Implies(LeafSel0(P0), z3.And(z3.Length(P0) > 0, HasSel0(head(P0)))))
        eng.assume(z3.Implies(LeafUns0(P0), z3.And(z3.Length(P0) > 0, HasUns0(head(P0)))))
        fs0, fu0 = boolean("found_selected0"), boolean("found_unselected0")
        self.Done = Done
        for f in self.inv(sel0, uns0, fs0, fu0, Done, P0).values():
            eng.assume(f)
        if case == "suffix":
            # loop exit: every key of x has been visited
            eng.assume(z3.Implies(self.InX(head(P0)), Done(head(P0))))
            loc = dict(base)
            loc.update({a_sel: sel0, a_uns: uns0, a_fs: fs0, a_fu: fu0})
            return self.real(self.pc["suffix"], **loc)
        # generic entry of x.items(): a key of x not visited before
        addr = atom_sym("addr")
        self.addr = addr
        eng.assume(self.InX(addr.e))
        eng.assume(z3.Not(Done(addr.e)))
        t = tail(P0)
        if case == "body[leaf]":
            v = value("v")
            eng.assume(self.LeafX(cons(addr, t)) == (t == EPS))
            eng.assume(self.ValX(cons(addr, EPS)) == v.e)
            val = v
        elif case == "body[empty_dict]":
            val = {}  # a sub-call without choices: no leaves below addr
            eng.assume(z3.Not(self.LeafX(cons(addr, t))))
        else:
            val = self.x[addr]  # AbsNode view of x below addr
            eng.assume(z3.Not(self.LeafX(cons(addr, EPS))))  # a dict node is not itself a leaf
        loc = dict(base)
        loc.update({a_sel: sel0, a_uns: uns0, a_fs: fs0, a_fu: fu0})
        tg = self.pc["targets"]
        if len(tg) != 2:
            raise EngineLimit("loop targets %r" % (tg,))
        loc[tg[0]], loc[tg[1]] = addr, val
        return self.real(self.pc["body"], **loc)

    def ensures(self, case, path):
        yield "does_not_raise", path.outcome == "return"
        if path.outcome != "return":
            return
        P0 = self.P0
        kind, payload = path.value
        a_sel, a_uns, a_fs, a_fu = self.accumulators(self.pc["locals"])
        if case == "prefix":
            if kind == "return":
                for n, f in self.post(payload, P0).items():
                    yield "early_return/" + n, f
            else:
                nothing = lambda k: z3.BoolVal(False)
                for n, f in self.inv(payload[a_sel], payload[a_uns], payload[a_fs], payload[a_fu], nothing, P0).items():
                    yield "invariant_established/" + n, f
        elif case == "suffix":
            yield "returns", kind == "return"
            if kind == "return":
                for n, f in self.post(payload, P0).items():
                    yield "postcondition/" + n, f
        else:
            Done1 = lambda k: z3.Or(self.Done(k), k == self.addr.e)
            for n, f in self.inv(payload[a_sel], payload[a_uns], payload[a_fs], payload[a_fu], Done1, P0).items():
                yield "invariant_preserved/" + n, f

    def replay(self, case, clause, model, path):
        from .native import run_native

        return run_native("filter_vs_spec")


# ================================================================================================
# Fn.merge

from . import _patch  # noqa: E402,F401


def abstract_map2(name, special=None, nonempty=None):
    """like abstract_map, but `special` = {key term: value object} overrides the generic AbsNode view"""
    d, InX, LeafX, ValX = abstract_map(name, nonempty)
    if special:
        base_get = d._init_get

        def get(k):
            for sk, sv in special.items():
                if z3.eq(k, sk):
                    return sv
            return base_get(k)

        d._init_get = get
    return d, InX, LeafX, ValX


class _MergeStub:
    def __init__(self, owner):
        self.o = owner

    def merge(self, a, b, check=None):
        o = self.o
        Assumed.note("induction hypothesis: recursive Fn.merge call on strictly smaller sub-maps satisfies the Fn.merge contract")
        if not (isinstance(a, AbsNode) and isinstance(b, AbsNode)):
            raise EngineLimit("recursive merge on non-dict values")
        if check is not None and not isinstance(check, Sym):
            raise EngineLimit("recursive merge called with a check that is not a value")
        # the hypothesis is instantiated with the check actually passed (a call that drops or changes it gets
        # the merge that check produces, and the invariant below decides whether that is the right one)
        t = tail(o.P0)
        m = AbsNode(
            lambda q: z3.Or(a.leaf(q), b.leaf(q)),
            lambda q: o.merged_val(a.leaf(q), b.leaf(q), a.val(q), b.val(q), (check,)),
            "merged_sub",
        )
        if check is not None:
            return m, None
        if engine().decide(fresh("sub_discard_is_None", z3.BoolSort())):
            engine().assume(z3.Not(z3.And(a.leaf(t), b.leaf(t))))
            return m, None
        return m, AbsNode(lambda q: z3.And(a.leaf(q), b.leaf(q)), a.val, "disc_sub")


@contract("genjax.core:Fn.merge", ["C16", "C17", "C03", "C01", "C05", "C09"])
class FnMergeLoop(Contract):
    """loop invariant of Fn.merge's `for key in all_keys`.  Precondition `compat`: where both maps have the
    key, the two values are both dicts or both leaves (choice maps of one address structure)."""

    cases = [
        f"{piece}[{chk}]" if piece in ("suffix",) else f"{piece}[{chk}]"
        for chk in ("no_check", "check")
        for piece in ("prefix", "body:leaf/leaf", "body:dict/dict", "body:only_x", "body:only_x_", "suffix")
    ]

    def merged_val(self, la, lb, va, vb, check=None):
        check = self.check if check is None else check[0]
        if check is None:
            return z3.If(lb, vb, va)  # x_ wins
        return z3.If(z3.And(la, lb), z3.If(check.e, va, vb), z3.If(lb, vb, va))

    def inv(self, result, discarded, Done, pt):
        LX, LY, VX, VY = self.LeafX, self.LeafY, self.ValX, self.ValY
        in_done = z3.And(z3.Length(pt) > 0, Done(head(pt)))
        d = {
            "result_leaves": leafset(result, pt) == z3.And(in_done, z3.Or(LX(pt), LY(pt))),
            "result_values": z3.Implies(
                leafset(result, pt), leafval(result, pt) == self.merged_val(LX(pt), LY(pt), VX(pt), VY(pt))
            ),
        }
        if self.check is None:
            d["discard_leaves"] = leafset(discarded, pt) == z3.And(in_done, LX(pt), LY(pt))
            d["discard_values"] = z3.Implies(leafset(discarded, pt), leafval(discarded, pt) == VX(pt))
        else:
            d["discard_empty_under_check"] = z3.Not(leafset(discarded, pt))
        return d

    def post(self, res, pt):
        m, d = res
        LX, LY, VX, VY = self.LeafX, self.LeafY, self.ValX, self.ValY
        out = {
            "merged_is_union_of_leaves": leafset(m, pt) == z3.Or(LX(pt), LY(pt)),
            "merged_values(second_wins|where_check)": z3.Implies(
                leafset(m, pt), leafval(m, pt) == self.merged_val(LX(pt), LY(pt), VX(pt), VY(pt))
            ),
        }
        if self.check is None:
            out["discard_is_overwritten_leaves"] = leafset(d, pt) == z3.And(LX(pt), LY(pt))
            out["discard_values_are_old"] = z3.Implies(leafset(d, pt), leafval(d, pt) == VX(pt))
        else:
            out["no_discard_under_check"] = z3.Not(leafset(d, pt))
        return out

    def merge_roles(self):
        """the two accumulators BY ROLE (renaming them must not matter): the prefix leaves two empty dicts; the suffix
        returns (merged, discard-or-None) - run on two non-empty marker dicts it tells which is which"""
        if getattr(self, "_roles", None):
            return self._roles
        pc = self.pc

        class KeysOnly(dict):
            pass

        base = {n: None for n in pc["locals"]}
        base.update(x=KeysOnly(k1=1), x_=KeysOnly(k2=2), check=None, self=None)
        try:
            kind, pl = pc["prefix"](**base)
        except Exception as e:
            raise EngineLimit("Fn.merge prefix not runnable on token maps: %r" % (e,))
        if kind != "fallthrough":
            raise EngineLimit("Fn.merge prefix returns early on dict arguments")
        dicts = [n for n, v in pl.items() if type(v) is dict and v == {}]
        if len(dicts) != 2:
            raise EngineLimit("Fn.merge loop state is not two dict accumulators (restructured): %r" % (dicts,))
        MA, MB = {"__marker__": "A"}, {"__marker__": "B"}
        probe = dict(pl)
        probe.update({dicts[0]: MA, dicts[1]: MB})
        try:
            k1, r1 = pc["suffix"](**probe)
        except Exception as e:
            raise EngineLimit("Fn.merge suffix not runnable on markers: %r" % (e,))
        if k1 != "return" or not (isinstance(r1, tuple) and len(r1) == 2 and r1[0] in (MA, MB) and (r1[0] is MA or r1[0] is MB)):
            raise EngineLimit("Fn.merge suffix does not return (merged, discard)")
        self._roles = (dicts[0], dicts[1]) if r1[0] is MA else (dicts[1], dicts[0])
        return self._roles

    def call(self, case):
        piece, chk = case[:-1].split("[")
        eng = engine()
        self.pc = loops.pieces(self.fn, 0)
        _one_loop(self.pc, "Fn.merge")
        names = self.pc["locals"]
        _need(names, "self", "x", "x_", "check")
        RES, DIS = self.merge_roles()
        self.P0 = P0 = fresh("P0", PathSort)
        eng.assume(seq_split(P0))
        self.check = boolean("check") if chk == "check" else None
        base = {n: None for n in names}
        stub = _MergeStub(self)
        if piece == "prefix":
            class KeysOnly(dict):
                pass

            x, x_ = KeysOnly(k1=1, k2=2), KeysOnly(k2=3, k3=4)
            base.update(self=stub, x=x, x_=x_, check=self.check)
            return self.real(self.pc["prefix"], **base)
        key = atom_sym("key")
        self.key = key
        t = tail(P0)
        special_x, special_y = {}, {}
        if piece == "body:leaf/leaf":
            vx, vy = value("vx"), value("vy")
            special_x[key.e], special_y[key.e] = vx, vy
        self.x, self.InX, self.LeafX, self.ValX = abstract_map2("x", special_x)
        self.y, self.InY, self.LeafY, self.ValY = abstract_map2("x_", special_y)
        for In, Leaf in ((self.InX, self.LeafX), (self.InY, self.LeafY)):
            eng.assume(wf_at(In, Leaf, P0))
        Done = z3.Function(eng.fresh_name("Done"), Atom, z3.BoolSort())
        self.Done = Done
        LR0 = z3.Function(eng.fresh_name("LeafRes0"), PathSort, z3.BoolSort())
        VR0 = z3.Function(eng.fresh_name("ValRes0"), PathSort, V)
        LD0 = z3.Function(eng.fresh_name("LeafDis0"), PathSort, z3.BoolSort())
        VD0 = z3.Function(eng.fresh_name("ValDis0"), PathSort, V)
        HR0 = z3.Function(eng.fresh_name("HasRes0"), Atom, z3.BoolSort())
        HD0 = z3.Function(eng.fresh_name("HasDis0"), Atom, z3.BoolSort())
        dis_nonempty = fresh("discarded_nonempty", z3.BoolSort())

        def acc(name, has, leaf, val, nonempty=None):
            return SymDict(
                name,
                init_has=lambda k: has(k),
                init_get=lambda k: AbsNode(lambda q, k=k: leaf(cons(k, q)), lambda q, k=k: val(cons(k, q)), name + "0[k]"),
                nonempty=nonempty,
            )

        res0 = acc("result", HR0, LR0, VR0)
        dis0 = acc("discarded", HD0, LD0, VD0, dis_nonempty)
        eng.assume(z3.Implies(LR0(P0), z3.And(z3.Length(P0) > 0, HR0(head(P0)))))
        eng.assume(z3.Implies(LD0(P0), z3.And(z3.Length(P0) > 0, HD0(head(P0)))))
        eng.assume(z3.Implies(HD0(head(P0)), dis_nonempty))
        for f in self.inv(res0, dis0, Done, P0).values():
            eng.assume(f)
        # helper closures the prefix defines (a hoisted `pick(v1, v2)` over `check` ...) are taken from a run of the
        # real prefix on token maps with THIS check; everything else the body reads is supplied symbolically below
        class _Keys(dict):
            pass

        try:
            tb = {n: None for n in names}
            tb.update(self=stub, x=_Keys(k1=1), x_=_Keys(k2=2), check=self.check)
            _kind, _pl = self.pc["prefix"](**tb)
            if _kind == "fallthrough":
                base.update({n: v for n, v in _pl.items() if callable(v) and not isinstance(v, (dict, type(stub)))})
        except EngineLimit:
            raise
        except Exception as e:
            raise EngineLimit("Fn.merge prefix not runnable on token maps: %r" % (e,))
        base.update(self=stub, x=self.x, x_=self.y, check=self.check)
        base[RES], base[DIS] = res0, dis0
        if piece == "suffix":
            k0 = head(P0)
            eng.assume(z3.Implies(z3.Or(self.InX(k0), self.InY(k0)), Done(k0)))
            return self.real(self.pc["suffix"], **base)
        # generic element of all_keys = keys(x) | keys(x_), not visited before
        eng.assume(z3.Not(Done(key.e)))
        inx, iny = self.InX(key.e), self.InY(key.e)
        if piece == "body:only_x":
            eng.assume(z3.And(inx, z3.Not(iny)))
        elif piece == "body:only_x_":
            eng.assume(z3.And(z3.Not(inx), iny))
        else:
            eng.assume(z3.And(inx, iny))
        if piece == "body:leaf/leaf":
            for Leaf, Val, v in ((self.LeafX, self.ValX, vx), (self.LeafY, self.ValY, vy)):
                eng.assume(Leaf(cons(key, t)) == (t == EPS))
                eng.assume(Val(cons(key, EPS)) == v.e)
        elif piece == "body:dict/dict":
            eng.assume(z3.Not(self.LeafX(cons(key, EPS))))
            eng.assume(z3.Not(self.LeafY(cons(key, EPS))))
        tg = self.pc["targets"]
        if len(tg) != 1:
            raise EngineLimit("loop targets %r" % (tg,))
        base[tg[0]] = key
        return self.real(self.pc["body"], **base)

    def ensures(self, case, path):
        piece, chk = case[:-1].split("[")
        yield "does_not_raise", path.outcome == "return"
        if path.outcome != "return":
            return
        kind, payload = path.value
        if piece == "prefix":
            yield "falls_through", kind == "fallthrough"
            if kind == "fallthrough":
                RES, DIS = self.merge_roles()
                yield "result_starts_empty", payload[RES] == {} and type(payload[RES]) is dict
                yield "discarded_starts_empty", payload[DIS] == {} and type(payload[DIS]) is dict
                # semantic: the loop header's iterable, evaluated in the locals the prefix leaves, visits every key
                # of either map exactly once (no coupling to how the code names or builds that collection)
                try:
                    _k, it = self.pc["iter"](**payload)
                    visited = list(it)
                except Exception as e:  # the iterable needs something the token maps do not have
                    raise EngineLimit("loop iterable %r not evaluable on token maps: %r" % (self.pc["iter_src"], e))
                yield "loop_visits_every_key_of_either_map_exactly_once", sorted(visited) == ["k1", "k2", "k3"]
            return
        P0 = self.P0
        if piece == "suffix":
            yield "returns", kind == "return"
            if kind == "return":
                for n, f in self.post(payload, P0).items():
                    yield "postcondition/" + n, f
            return
        Done1 = lambda k: z3.Or(self.Done(k), k == self.key.e)
        RES, DIS = self.merge_roles()
        for n, f in self.inv(payload[RES], payload[DIS], Done1, P0).items():
            yield "invariant_preserved/" + n, f

    def replay(self, case, clause, model, path):
        from .native import run_native

        return run_native("merge_vs_spec")


@contract("lemma:filter_then_merge_is_identity", ["C16"], kind="lemma")
class FilterMergeLemma(Contract):
    """client lemma over the two contracts: merge(x-, x+)[0] has exactly x's leaves with x's values."""

    cases = ["pointwise"]

    def call(self, case):
        return None

    def ensures(self, case, path):
        p = z3.Const("p", PathSort)
        LX = z3.Function("LeafX", PathSort, z3.BoolSort())
        VX = z3.Function("ValX", PathSort, V)
        S = z3.Function("S", PathSort, z3.BoolSort())
        Lp, Lm, Lr = (z3.Function(n, PathSort, z3.BoolSort()) for n in ("Lplus", "Lminus", "Lmerged"))
        Vp, Vm, Vr = (z3.Function(n, PathSort, V) for n in ("Vplus", "Vminus", "Vmerged"))
        filter_c = [
            Lp(p) == z3.And(LX(p), S(p)),
            Lm(p) == z3.And(LX(p), z3.Not(S(p))),
            z3.Implies(Lp(p), Vp(p) == VX(p)),
            z3.Implies(Lm(p), Vm(p) == VX(p)),
        ]
        merge_c = [Lr(p) == z3.Or(Lm(p), Lp(p)), z3.Implies(Lr(p), Vr(p) == z3.If(Lp(p), Vp(p), Vm(p)))]
        yield "same_leaves", z3.Implies(z3.And(*filter_c, *merge_c), Lr(p) == LX(p))
        yield "same_values", z3.Implies(z3.And(*filter_c, *merge_c, Lr(p)), Vr(p) == VX(p))
        yield "parts_disjoint", z3.Implies(z3.And(*filter_c), z3.Not(z3.And(Lp(p), Lm(p))))


# ================================================================================================
# Distribution.filter / merge and the delegating combinators


def _dist():
    return core.Distribution(core.Const(None), core.Const(None), core.Const("d"))


@contract("genjax.core:Distribution.filter", ["C16", "C09"])
class DistFilter(Contract):
    """a distribution's choice is one leaf at the empty path: selected iff Sel(s, eps)"""

    cases = ["default"]

    def call(self, case):
        self.x = value("x")
        self.s = core.Selection(AbsSel.fresh("S"))
        return self.real(self.fn, _dist(), self.x, self.s)

    def ensures(self, case, path):
        yield "does_not_raise", path.outcome == "return"
        if path.outcome != "return":
            return
        xp, xm = path.value
        sel_eps = den(self.s, EPS)
        p = fresh("p", PathSort)
        yield "first_holds_exactly_selected_leaves", leafset(xp, p) == z3.And(p == EPS, sel_eps)
        yield "second_holds_exactly_unselected_leaves", leafset(xm, p) == z3.And(p == EPS, z3.Not(sel_eps))
        yield "value_kept", z3.And(*[z3.Implies(leafset(r, EPS), leafval(r, EPS) == self.x.e) for r in (xp, xm)])
        yield "other_is_None", (xp is None) != (xm is None)


@contract("genjax.core:Distribution.merge", ["C16", "C01", "C03"])
class DistMerge(Contract):
    cases = ["check", "no_check"]

    def call(self, case):
        self.a, self.b = value("a"), value("b")
        self.c = boolean("check") if case == "check" else None
        return self.real(self.fn, _dist(), self.a, self.b, self.c)

    def ensures(self, case, path):
        if case == "no_check":
            # the 41 running tests pin this: merging two raw values without a check is an error
            yield "raises_without_check", path.outcome == "raise"
            return
        yield "does_not_raise", path.outcome == "return"
        if path.outcome != "return":
            return
        m, d = path.value
        yield "where_check_first_else_second", isinstance(m, Sym) and m.e == z3.If(self.c.e, self.a.e, self.b.e)
        yield "no_discard", d is None


class _Delegate(Contract):
    """combinator method = the callee's method on the same arguments"""

    cases = ["default"]
    method = "filter"
    attr = "callee"

    def call(self, case):
        self.token = object()
        calls = []

        class Callee:
            def filter(s, *a, **k):
                calls.append(("filter", a, k))
                return self.token

            def merge(s, *a, **k):
                calls.append(("merge", a, k))
                return self.token

        self.calls = calls
        self.callee = Callee()
        other = Callee()
        if self.owner is core.Scan:
            obj = core.Scan(self.callee, core.Const(3))
        else:
            obj = core.Cond(self.callee, other)
        self.args = (value("x"), value("y"), boolean("c")) if self.method == "merge" else (value("x"), core.Selection(AbsSel.fresh("S")))
        return self.real(self.fn, obj, *self.args)

    def ensures(self, case, path):
        yield "does_not_raise", path.outcome == "return"
        if path.outcome != "return":
            return
        yield "returns_callee_result", path.value is self.token
        yield "called_once_with_same_arguments", len(self.calls) == 1 and self.calls[0][0] == self.method and all(
            a is b for a, b in zip(self.calls[0][1], self.args)
        ) and len(self.calls[0][1]) == len(self.args) and not self.calls[0][2]


@contract("genjax.core:Scan.filter", ["C16"])
class ScanFilter(_Delegate):
    method = "filter"


@contract("genjax.core:Cond.filter", ["C16"])
class CondFilter(_Delegate):
    method = "filter"


@contract("genjax.core:Scan.merge", ["C16", "C01"])
class ScanMerge(_Delegate):
    method = "merge"


@contract("genjax.core:Cond.merge", ["C16", "C01", "C05", "C09"])
class CondMerge(_Delegate):
    method = "merge"

from vt.contract import canary as _canary  # noqa: E402

_canary(FnFilterLoop, "body[leaf]", "invariant_preserved/selected_leaves")
_canary(FnMergeLoop, "body:leaf/leaf[no_check]", "invariant_preserved/result_values")


# ================================================================================================
# Whole-function stand-ins (BOUNDED): the loop-invariant proofs above are tied to the shape of one `for` loop; a
# restructured Fn.merge / Fn.filter (two loops, helper functions, comprehension) makes them *undecided*.  These
# run the WHOLE real function — real recursion, no extraction — on every pair of concrete map shapes from a small
# grammar with symbolic leaf values (and an abstract selection / symbolic check), against the same leaf-level
# specification.  Bounded in width (keys a, b) and depth (<= 4 through single-key chains); listed under `bounded`,
# never counted as proved.  A refutation is a concrete shape on which the real function disagrees with the spec.


def _shapes(depth, keys=("a", "b")):
    """all map shapes of nesting depth <= depth over the given keys; leaves are the token 'L'"""
    if depth == 0:
        return ["L"]
    sub = _shapes(depth - 1, keys)
    out = ["L"]
    import itertools

    for present in itertools.product([False, True], repeat=len(keys)):
        ks = [k for k, p in zip(keys, present) if p]
        for combo in itertools.product(sub, repeat=len(ks)):
            out.append(dict(zip(ks, combo)))
    return out


def _instantiate(shape, prefix, leaves):
    """fresh symbolic leaf per 'L'; records path -> value term"""
    if shape == "L":
        v = value("leaf_" + "_".join(prefix) if prefix else "leaf")
        leaves[tuple(prefix)] = v
        return v
    return {k: _instantiate(s, prefix + [k], leaves) for k, s in shape.items()}


def _compat(a, b):
    if a == "L" or b == "L":
        return a == "L" and b == "L"
    return all(_compat(a[k], b[k]) for k in a if k in b)


def _leaves_of(obj, prefix=()):
    """concrete result -> {path: value}; None / {} have no leaves"""
    if obj is None:
        return {}
    if isinstance(obj, dict):
        out = {}
        for k, v in obj.items():
            out.update(_leaves_of(v, prefix + (k,)))
        return out
    return {prefix: obj}


def _chain(shape, n):
    for _ in range(n):
        shape = {"k": shape}
    return shape


def _merge_pairs():
    base = [s for s in _shapes(2) if s != "L"]
    pairs = [(a, b) for a in base for b in base if _compat(a, b)]
    # deeper: the same pairs under one and two shared single-key chains (an interior node whose children agree
    # while the leaves below differ), and under a chain on one side only next to a sibling
    small = [s for s in _shapes(1) if s != "L"]
    deep = [(_chain(a, n), _chain(b, n)) for n in (1, 2) for a in small for b in small if _compat(a, b)]
    return pairs + deep


@contract("genjax.core:Fn.merge", ["C16", "C17", "C03", "C01", "C05", "C09"], kind="bounded")
class FnMergeWhole(Contract):
    """BOUNDED whole-function check of Fn.merge (real recursion): every compatible pair of map shapes over keys
    {a, b} up to depth 2, and the one-key shapes under shared chains up to depth 4, with symbolic leaves"""

    cases = ["no_check", "check"]

    def call(self, case):
        self.check = boolean("check") if case == "check" else None
        f = core.Fn(core.Const(lambda: None))
        self.bad, self.n = [], 0
        for sa, sb in _merge_pairs():
            la, lb = {}, {}
            x, y = _instantiate(sa, ["x"], la), _instantiate(sb, ["y"], lb)
            la = {p[1:]: v for p, v in la.items()}
            lb = {p[1:]: v for p, v in lb.items()}
            m, d = self.real(self.fn, f, x, y, self.check)
            self.n += 1
            got_m, got_d = _leaves_of(m), _leaves_of(d)
            want_m, want_d = {}, {}
            for p in set(la) | set(lb):
                if p in la and p in lb:
                    if self.check is None:
                        want_m[p] = lb[p].e
                        want_d[p] = la[p].e
                    else:
                        want_m[p] = z3.If(self.check.e, la[p].e, lb[p].e)
                else:
                    want_m[p] = (la[p] if p in la else lb[p]).e
            ok = set(got_m) == set(want_m) and set(got_d) == set(want_d)
            if ok:
                for p in want_m:
                    g = got_m[p]
                    ok = ok and isinstance(g, Sym) and z3.eq(z3.simplify(g.e), z3.simplify(want_m[p]))
                for p in want_d:
                    g = got_d[p]
                    ok = ok and isinstance(g, Sym) and z3.eq(z3.simplify(g.e), z3.simplify(want_d[p]))
                ok = ok and (d is None) == (not want_d)
            if not ok:
                self.bad.append((sa, sb, {"/".join(p): str(v) for p, v in got_m.items()}, {"/".join(p): str(v) for p, v in got_d.items()}))
        return self.n

    def ensures(self, case, path):
        yield "does_not_raise", path.outcome == "return"
        if path.outcome != "return":
            return
        yield "shape_pairs_generated", self.n > 300
        self.witness = self.bad[:3]
        yield "merged_and_discard_agree_with_the_leaf_level_spec_on_every_shape_pair", not self.bad

    def replay(self, case, clause, model, path):
        from .native import run_native

        r = dict(run_native("merge_vs_spec"))
        r["bounded_witness(x_shape, x'_shape, merged leaves, discarded leaves)"] = [repr(b)[:600] for b in getattr(self, "witness", [])]
        return r


@contract("genjax.core:Fn.filter", ["C16", "C09"], kind="bounded")
class FnFilterWhole(Contract):
    """BOUNDED whole-function check of Fn.filter (real recursion, abstract selection): twelve map shapes over keys
    {a, b, k} up to depth 3 (incl. empty maps and empty sub-maps); the first part holds exactly the leaves p with
    Sel(s, p), the second the others"""

    cases = ["depth<=3"]
    max_paths = 20000
    tiers = ("thorough",)  # ~600 paths: too slow for the every-change tier

    def call(self, case):
        f = core.Fn(core.Const(lambda: None))
        L = "L"
        shapes = [
            {}, {"a": L}, {"a": L, "b": L}, {"a": {"a": L}}, {"a": {"a": L, "b": L}}, {"a": {"a": L}, "b": L}, {"a": {}},
            {"a": {"a": L}, "b": {"b": L}}, {"a": {"a": L, "b": L}, "b": {"a": L}}, {"k": {"a": {"a": L, "b": L}}},
            {"k": {"a": {"b": L}, "b": L}}, {"a": {}, "b": L},
        ]
        eng = engine()
        # one shape per path: the engine's decision mechanism enumerates them
        idx = 0
        for i in range(4):
            if eng.decide(fresh("shape_bit%d" % i, z3.BoolSort())):
                idx |= 1 << i
        if idx >= len(shapes):
            idx = idx % len(shapes)
        self.shape = shapes[idx]
        leaves = {}
        x = _instantiate(self.shape, ["x"], leaves)
        self.leaves = {p[1:]: v for p, v in leaves.items()}
        self.sel = core.Selection(AbsSel.fresh("S"))
        return self.real(self.fn, f, x, self.sel)

    def ensures(self, case, path):
        yield "does_not_raise", path.outcome == "return"
        if path.outcome != "return":
            return
        xp, xm = path.value
        gp, gm = _leaves_of(xp), _leaves_of(xm)
        from vt.sym import atom as _atom

        def pth(p):
            t = EPS
            for k in reversed(p):
                t = cons(_atom(k), t)
            return t

        fs = []
        for p, v in self.leaves.items():
            s = den(self.sel, pth(p))
            inp = z3.BoolVal(p in gp and isinstance(gp[p], Sym) and z3.eq(gp[p].e, v.e))
            inm = z3.BoolVal(p in gm and isinstance(gm[p], Sym) and z3.eq(gm[p].e, v.e))
            fs.append(z3.And(inp == s, inm == z3.Not(s)))
        extra = set(gp) - set(self.leaves) | set(gm) - set(self.leaves)
        yield "parts_hold_exactly_the_selected_/_unselected_leaves_with_their_values", z3.And(z3.BoolVal(not extra), *fs)

    def replay(self, case, clause, model, path):
        from .native import run_native

        r = dict(run_native("filter_vs_spec"))
        r["bounded_witness_shape"] = repr(getattr(self, "shape", None))
        return r
