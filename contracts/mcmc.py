"""C09 (mh / mala / hmc), C05 (kernel results are whole traces), C18 (chain) — contracts on
genjax/inference/mcmc.py with an abstract target generative function (GFI contract only), abstract
gradients and stub distributions.  The code is proved to compute the textbook proposal / proposal
densities / acceptance; the reversibility theorem itself is cited (A-MATH), not proved.
"""
from __future__ import annotations

import types
from vt.stubs.ns import StubNS

import jax.tree_util as real_jtu
import z3

from vt import loader
from vt.contract import Contract, contract
from vt.gfi import AbsGF, AbsTrace, enc, enc_args, sel_id
from vt.stubs import dists, jnp as jnp_stub, jtu as jtu_stub, lax as lax_stub, vmap as vmap_stub
from vt.sym import Assumed, EngineLimit, Sym, V, _lift, boolean, engine, fresh, integer, real, value
from vt.tensor import Tensor, mk_sum, _toreal
from . import _patch  # noqa: F401
from .core_gfi import same
from .selection import AbsSel

core = loader.load("core")
mcmc = loader.load("inference.mcmc")

UNI, NRM = dists.StubDist("uniform"), dists.StubDist("normal")

def denotes(x, v):
    """the argument x of a sampler call DENOTES the constant v (a python number, a symbolic scalar or an array whose
    every element simplifies to v) - the way the constant is written must not matter"""
    if isinstance(x, bool):
        return False
    if isinstance(x, (int, float)):
        return float(x) == float(v)
    if isinstance(x, Tensor):
        idx = tuple(z3.Int("den!i%d" % k) for k in range(x.ndim))
        e = z3.simplify(x.fn(idx))
    elif isinstance(x, Sym):
        e = z3.simplify(x.e)
    else:
        return False
    return (z3.is_rational_value(e) or z3.is_int_value(e)) and float(e.as_fraction() if z3.is_rational_value(e) else e.as_long()) == float(v)


def call_params_are(c, *vals):
    return len(c["args"]) == len(vals) and all(denotes(a, v) for a, v in zip(c["args"], vals))




class SaveRec:
    def __init__(self):
        self.calls = []

    def __call__(self, *a, **k):
        self.calls.append((a, k))
        return k or a


SAVE = SaveRec()
GRADS = []


def grad_stub(f):
    """jax.grad of an *opaque* scalar function: uninterpreted gradient, one function symbol per leaf"""

    def g(z):
        Assumed.note("jax.grad(f)(z): gradient of f at z, with the pytree structure and leaf shapes of z (uninterpreted: Grad_leaf(point))")
        val = f(z)  # the function really is evaluated (records what it computes)
        pt = enc(z)
        GRADS.append({"f": f, "at": z, "value": val})
        if not isinstance(z, dict):
            raise EngineLimit("grad at a non-dict point")
        out = {}
        for k, leaf in z.items():
            if isinstance(leaf, Tensor):
                G = z3.Function("Grad_" + k, V, z3.IntSort(), z3.RealSort())
                out[k] = Tensor(leaf.shape, lambda idx, G=G: G(pt, idx[0]))
            else:
                G = z3.Function("Grad_" + k, V, z3.RealSort())
                out[k] = Sym(G(pt))
        return out

    return g


def grad_at(z):
    pt = enc(z)
    out = {}
    for k, leaf in z.items():
        if isinstance(leaf, Tensor):
            G = z3.Function("Grad_" + k, V, z3.IntSort(), z3.RealSort())
            out[k] = Tensor(leaf.shape, lambda idx, G=G: G(pt, idx[0]))
        else:
            out[k] = Sym(z3.Function("Grad_" + k, V, z3.RealSort())(pt))
    return out


JNP = jnp_stub.namespace()
mcmc.jnp = JNP
mcmc.jtu = jtu_stub.namespace()
mcmc.jax = StubNS(
    lax=StubNS(select=lax_stub.select, select_n=lax_stub.select_n, scan=lax_stub.scan),
    grad=grad_stub,
    tree_util=jtu_stub.namespace(),
)
mcmc.uniform, mcmc.normal = UNI, NRM
mcmc.save = SAVE
mcmc.modular_vmap = vmap_stub.modular_vmap
mcmc.len = __import__("vt.maps", fromlist=["vt_len"]).vt_len


def reset():
    UNI.reset()
    NRM.reset()
    SAVE.calls.clear()
    GRADS.clear()


def leafwise_select(final, accept, new, old):
    """every leaf of `final` is `accept ? new : old` (so the result is the proposed or the input trace as a whole)"""
    fl, _ = real_jtu.tree_flatten(final, is_leaf=lambda x: isinstance(x, (Sym, Tensor)))
    nl, _ = real_jtu.tree_flatten(new, is_leaf=lambda x: isinstance(x, (Sym, Tensor)))
    ol, _ = real_jtu.tree_flatten(old, is_leaf=lambda x: isinstance(x, (Sym, Tensor)))
    if not (len(fl) == len(nl) == len(ol)) or not fl:
        return z3.BoolVal(False)
    a = _lift(accept)
    cs = []
    i = z3.Int("sel!i")
    for f, n, o in zip(fl, nl, ol):
        if isinstance(f, Tensor):
            if not (isinstance(n, Tensor) and isinstance(o, Tensor)):
                return z3.BoolVal(False)
            cs.append(f.fn((i,)) == z3.If(a, n.fn((i,)), o.fn((i,))))
        elif isinstance(f, Sym):
            cs.append(same(f, Sym(z3.If(a, _lift(n), _lift(o)))))
        else:
            cs.append(z3.BoolVal(f is n or f is o or f == n))
    return z3.And(*cs)


class _NoReplay(Contract):
    def replay(self, case, clause, model, path):
        return {"tier": "API-model", "confirmed": False, "note": "the built-in distributions used by the kernels cannot execute on the sandbox's JAX 0.11"}


@contract("genjax.inference.mcmc:mh", ["C09", "C05"])
class MH(_NoReplay):
    """proposal = regenerate-from-prior on the selection with the trace's own arguments; accept iff
    log u < min(0, weight) with u ~ U(0,1); result by leaf-wise select; acceptance saved"""

    cases = ["default"]

    def call(self, case):
        reset()
        self.g = AbsGF("target")
        self.args, self.kw = (value("a0"), value("a1")), {"kw": value("kw")}
        a = enc_args(self.args, self.kw)
        self.x0 = value("x0")
        self.tr = AbsTrace(self.g, (self.args, self.kw), self.x0, Sym(self.g.R(a, self.x0.e)), Sym(-self.g.D(a, self.x0.e)))
        self.s = core.Selection(AbsSel.fresh("S"))
        return self.real(self.fn, self.tr, self.s)

    def ensures(self, case, path):
        yield "does_not_raise", path.outcome == "return"
        if path.outcome != "return":
            return
        g = self.g
        rc = [c for c in g.calls if c[0] == "regenerate"]
        yield "proposal_is_one_regenerate_of_the_selection_with_the_traces_arguments", len(g.calls) == 1 and len(rc) == 1 and rc[0][1][0] is self.tr and rc[0][1][1] is self.s and all(
            p is q for p, q in zip(rc[0][1][2:], self.args)
        ) and len(rc[0][1]) == 4 and set(rc[0][2]) == {"kw"} and rc[0][2]["kw"] is self.kw["kw"]
        yield "one_uniform(0,1)_draw", len(UNI.sample_calls) == 1 and call_params_are(UNI.sample_calls[0], 0.0, 1.0) and UNI.sample_calls[0]["sample_shape"] == ()
        if len(UNI.sample_calls) != 1 or len(rc) != 1:
            return
        a = enc_args(self.args, self.kw)
        se = sel_id(self.s)
        x2 = g.RegX(a, self.x0.e, se, z3.IntVal(1))
        w = (g.D(a, x2) - g.D(a, self.x0.e)) - (g.P(a, x2, se) - g.P(a, self.x0.e, se))
        u = dists.DrawR(UNI.id, UNI.sample_calls[0]["nonce"], z3.RealVal(0), z3.RealVal(1))
        accept = JNP.log(Sym(u)).e < z3.If(w >= 0, z3.RealVal(0), w)
        new = AbsTrace(g, (self.args, self.kw), Sym(x2), Sym(g.R(a, x2)), Sym(-g.D(a, x2)))
        yield "result_is_leafwise_select(accept, proposed, current)_with_MH_acceptance", leafwise_select(path.value, accept, new, self.tr)
        yield "acceptance_saved_once", len(SAVE.calls) == 1 and set(SAVE.calls[0][1]) == {"accept"} and same(SAVE.calls[0][1]["accept"], Sym(accept))
        yield "rejected_move_returns_the_input_leaves", z3.Implies(z3.Not(accept), leafwise_select(path.value, z3.BoolVal(False), new, self.tr))


# ------------------------------------------------------------------------------------------------
# gradient-based kernels: concrete address structure {k1: array leaf (d,), k2: scalar leaf | u: unselected}


class MTarget(AbsGF):
    """abstract target for mala / hmc: GFI contract with dict-valued choices
    (filter/merge at leaf level as proved for Fn in C16; update per G4)."""

    def __init__(self, mode):
        super().__init__("target")
        self.mode = mode
        self.d = fresh("d", z3.IntSort())
        engine().assume(self.d >= 1)
        self.SEL = {"k1": Tensor.fresh("x1", (self.d,)), "k2": real("x2")}
        self.UNSEL = {"u": real("u_obs")}
        if mode == "all_selected":
            self.UNSEL = None
        self.current = dict(self.SEL, **(self.UNSEL or {}))
        self.discards = []

    def filter(self, x, s):
        self.calls.append(("filter", (x, s), {}))
        if x is self.current:
            if self.mode == "none_selected":
                return None, x
            return self.SEL, self.UNSEL
        for d in self.discards:
            if x is d:
                return {k: v for k, v in x.items() if k in self.SEL}, ({k: v for k, v in x.items() if k not in self.SEL} or None)
        raise EngineLimit("filter of an unexpected choice map")

    def merge(self, a, b, check=None):
        self.calls.append(("merge", (a, b, check), {}))
        m = dict(a)
        m.update(b)
        return m, {k: a[k] for k in a if k in b} or None

    def update(self, tr, c, *args, **kwargs):
        Assumed.note("GFI contract G4 assumed of the target (update: constrained addresses take the new values, others keep theirs; weight = density ratio; discard = old values)")
        self.calls.append(("update", (tr, c) + args, kwargs))
        a = enc_args(args, kwargs)
        x2 = dict(tr.x)
        x2.update(c)
        disc = {k: tr.x[k] for k in c}
        self.discards.append(disc)
        new = AbsTrace(self, (tuple(args), dict(kwargs)), x2, Sym(self.R(a, enc(x2))), Sym(-self.D(a, enc(x2))))
        return new, Sym(self.D(a, enc(x2))) + tr.score, disc


class _Grad(_NoReplay):
    MODES = ["some_selected", "all_selected", "none_selected"]

    def replay(self, case, clause, model, path):
        from .native import run_native

        return run_native("mcmc_noise", "hmc" if "hmc" in self.target else "mala")

    def mk(self, mode):
        reset()
        self.g = MTarget(mode)
        g = self.g
        self.args, self.kw = (value("a0"),), {"kw": value("kw")}
        self.a = enc_args(self.args, self.kw)
        self.tr = AbsTrace(g, (self.args, self.kw), g.current, Sym(g.R(self.a, enc(g.current))), Sym(-g.D(self.a, enc(g.current))))
        self.s = core.Selection(AbsSel.fresh("S"))
        self.eps = real("step_size")
        engine().assume(self.eps.e > 0)

    def dens(self, z):
        """log_density_wrt_selected(z) = D(args, merge(unselected, z)) (= D(args, z) when all selected)"""
        g = self.g
        full = dict(g.UNSEL or {}, **z)
        return g.D(self.a, enc(full))

    def unchanged_when_nothing_selected(self, path):
        yield "returns_the_input_trace", path.value is self.tr
        yield "saves_accept_True", len(SAVE.calls) == 1 and SAVE.calls[0][1] == {"accept": True}
        yield "no_randomness_no_update", not UNI.sample_calls and not NRM.sample_calls and not [c for c in self.g.calls if c[0] == "update"]

    def LN(self, v, mu, sigma):
        return NRM.LP(_toreal(_lift(v)), _toreal(_lift(mu)), _toreal(_lift(sigma)))

    def sumLN(self, vs, mus, sigma):
        """sum over leaves and coordinates of log N(v; mu, sigma) (element-wise with broadcasting)"""
        probe = dists.StubDist("normal")  # same LP symbol, no call recording
        tot = z3.RealVal(0)
        for k in ("k1", "k2"):
            lp = probe.logpdf(vs[k], mus[k], Sym(sigma) if isinstance(sigma, z3.ExprRef) else sigma)
            tot = tot + _lift(JNP.sum(lp))
        return tot


@contract("genjax.inference.mcmc:_create_log_density_wrt_selected", ["C09", "C16"])
class LogDensityWrtSelected(_Grad):
    """z |-> D(args, merge(unselected, z)); with everything selected z |-> D(args, z)"""

    cases = ["some_selected", "all_selected"]

    def call(self, case):
        self.mk(case)
        f = self.real(self.fn, self.g, (self.args, self.kw), self.g.UNSEL)
        self.z = {"k1": Tensor.fresh("z1", (self.g.d,)), "k2": real("z2")}
        return self.real(f, self.z)

    def ensures(self, case, path):
        yield "does_not_raise", path.outcome == "return"
        if path.outcome == "return":
            yield "density_of_unselected_merged_with_argument", same(path.value, Sym(self.dens(self.z)))
            ac = [c for c in self.g.calls if c[0] == "assess"]
            yield "assessed_once_with_the_traces_arguments", len(ac) == 1 and ac[0][1][1] is self.args[0] and ac[0][2].get("kw") is self.kw["kw"]


@contract("genjax.inference.mcmc:mala", ["C09", "C05"])
class MALA(_Grad):
    """proposal x' = x + (eps^2/2) grad log p(x) + eps*xi with ONE STANDARD-NORMAL DRAW PER COORDINATE,
    forward/backward Gaussian proposal densities with the gradients at x / x', model weight from update
    with only the proposed leaves as constraints, log alpha = min(0, w + bwd - fwd)"""

    cases = _Grad.MODES

    def call(self, case):
        self.mk(case)
        return self.real(self.fn, self.tr, self.s, self.eps)

    def ensures(self, case, path):
        yield "does_not_raise", path.outcome == "return"
        if path.outcome != "return":
            return
        if case == "none_selected":
            yield from self.unchanged_when_nothing_selected(path)
            return
        g, eps, E = self.g, self.eps.e, self.eps
        fc = [c for c in g.calls if c[0] == "filter"]
        yield "selection_restricts_the_move_via_filter(choices, selection)", len(fc) >= 1 and fc[0][1][0] is g.current and fc[0][1][1] is self.s
        uc = [c for c in g.calls if c[0] == "update"]
        yield "one_update_with_the_traces_arguments", len(uc) == 1 and uc[0][1][0] is self.tr and uc[0][1][2] is self.args[0] and uc[0][2].get("kw") is self.kw["kw"]
        if len(uc) != 1:
            return
        prop = uc[0][1][1]
        yield "only_the_selected_leaves_are_constrained", isinstance(prop, dict) and set(prop) == {"k1", "k2"}
        # gradients are those of log_density_wrt_selected
        yield "gradients_of_the_restricted_log_density", len(GRADS) == 2 and all(same(G["value"], Sym(self.dens(G["at"]))) for G in GRADS)
        if not (isinstance(prop, dict) and set(prop) == {"k1", "k2"}) or len(GRADS) != 2:
            return
        gx = grad_at(g.SEL)
        # noise: one N(0,1) draw per coordinate
        ns = NRM.sample_calls
        yield "standard_normal_noise_one_sample_call_per_leaf", len(ns) == 2 and all(call_params_are(c, 0.0, 1.0) for c in ns)
        i = fresh("i", z3.IntSort())
        if len(ns) == 2:
            noise1 = (prop["k1"] - g.SEL["k1"] - (E * E / 2) * gx["k1"])
            nu1 = [c["nonce"] for c in ns]
            per_coord = z3.Or(*[noise1.fn((i,)) == eps * dists.DrawRI(NRM.id, n_, i, z3.RealVal(0), z3.RealVal(1)) for n_ in nu1])
            yield "array_leaf:proposal=x+(eps^2/2)grad+eps*xi_with_independent_xi_per_coordinate", z3.Implies(z3.And(i >= 0, i < g.d), per_coord)
            noise2 = prop["k2"] - g.SEL["k2"] - (E * E / 2) * gx["k2"]
            yield "scalar_leaf:proposal=x+(eps^2/2)grad+eps*xi", z3.Or(*[same(noise2, Sym(eps * dists.DrawR(NRM.id, n_, z3.RealVal(0), z3.RealVal(1)))) for n_ in nu1])
        gp = grad_at(prop)
        drift = lambda x, gr: {k: x[k] + (E * E / 2) * gr[k] for k in ("k1", "k2")}
        fwd = self.sumLN(prop, drift(g.SEL, gx), eps)
        bwd = self.sumLN(g.SEL, drift(prop, gp), eps)
        x2 = dict(g.current)
        x2.update(prop)
        w = g.D(self.a, enc(x2)) - g.D(self.a, enc(g.current))
        la = w + bwd - fwd
        log_alpha = z3.If(la >= 0, z3.RealVal(0), la)
        yield "one_uniform(0,1)_draw", len(UNI.sample_calls) == 1 and call_params_are(UNI.sample_calls[0], 0.0, 1.0)
        if len(UNI.sample_calls) != 1:
            return
        u = dists.DrawR(UNI.id, UNI.sample_calls[0]["nonce"], z3.RealVal(0), z3.RealVal(1))
        accept = JNP.log(Sym(u)).e < log_alpha
        yield "acceptance_is_MH_rule_for_the_Langevin_proposal", len(SAVE.calls) == 1 and same(SAVE.calls[0][1].get("accept"), Sym(accept))
        new = AbsTrace(g, (self.args, self.kw), x2, Sym(g.R(self.a, enc(x2))), Sym(-g.D(self.a, enc(x2))))
        yield "result_is_leafwise_select(accept, proposed, current)", leafwise_select(path.value, accept, new, self.tr)
        if case == "some_selected":
            fin = path.value.x
            yield "unselected_leaf_untouched", same(fin["u"], g.current["u"])


@contract("genjax.inference.mcmc:hmc", ["C09", "C05"])
class HMC(_Grad):
    """fresh standard-normal momentum PER COORDINATE, n_steps leapfrog steps (half kick, drift, gradient at the
    new point, half kick), log alpha = min(0, [D(x_L)+K(-p_L)] - [D(x_0)+K(p_0)]), proposal installed by update"""

    cases = _Grad.MODES

    def call(self, case):
        self.mk(case)
        self.L = integer("n_steps")
        engine().assume(self.L.e >= 1)
        return self.real(self.fn, self.tr, self.s, self.eps, self.L)

    def ensures(self, case, path):
        yield "does_not_raise", path.outcome == "return"
        if path.outcome != "return":
            return
        if case == "none_selected":
            yield from self.unchanged_when_nothing_selected(path)
            return
        g, eps, E = self.g, self.eps.e, self.eps
        ns = NRM.sample_calls
        yield "standard_normal_momentum_one_sample_call_per_leaf", len(ns) == 2 and all(call_params_are(c, 0.0, 1.0) for c in ns)
        scans = path.extra.get("scans", [])
        yield "one_scan_of_n_steps_iterations", len(scans) == 1 and z3.eq(z3.simplify(scans[0]["T"]), z3.simplify(self.L.e))
        if len(scans) != 1 or len(ns) != 2:
            return
        rec = scans[0]
        pos0, mom0, grad0 = rec["init"]
        i = fresh("i", z3.IntSort())
        nus = [c["nonce"] for c in ns]
        in_rng = z3.And(i >= 0, i < g.d)
        yield "array_leaf:independent_momentum_per_coordinate", isinstance(mom0["k1"], Tensor) and z3.Implies(
            in_rng, z3.Or(*[mom0["k1"].fn((i,)) == dists.DrawRI(NRM.id, n_, i, z3.RealVal(0), z3.RealVal(1)) for n_ in nus])
        )
        yield "scalar_leaf:momentum_is_a_standard_normal_draw", z3.Or(*[same(mom0["k2"], Sym(dists.DrawR(NRM.id, n_, z3.RealVal(0), z3.RealVal(1)))) for n_ in nus])
        yield "starts_at_the_selected_choices", pos0 is g.SEL
        yield "initial_gradient_is_at_the_selected_choices", leaf_eq(grad0, grad_at(g.SEL), g.d)
        # one generic leapfrog step
        t = rec["t"]
        x, p, gr = rec["carry_t"]
        x1, p1, g1 = rec["new_carry"]
        half = {k: p[k] + (E / 2) * gr[k] for k in ("k1", "k2")}
        xn = {k: x[k] + E * half[k] for k in ("k1", "k2")}
        yield "leapfrog:position_drifts_with_half_kicked_momentum", leaf_eq(x1, xn, g.d)
        gn = grad_at(x1)
        yield "leapfrog:gradient_taken_at_the_new_position", leaf_eq(g1, gn, g.d)
        pn = {k: half[k] + (E / 2) * g1[k] for k in ("k1", "k2")}
        yield "leapfrog:second_half_kick_with_new_gradient", leaf_eq(p1, pn, g.d)
        # acceptance
        T = rec["T"]
        xL, pL, _ = rec["carry_at"](T)
        uc = [c for c in g.calls if c[0] == "update"]
        yield "one_update_with_the_traces_arguments", len(uc) == 1 and uc[0][1][0] is self.tr and uc[0][1][2] is self.args[0] and uc[0][2].get("kw") is self.kw["kw"]
        if len(uc) == 1:
            yield "update_installs_the_final_leapfrog_position", leaf_eq(uc[0][1][1], xL, g.d)
        zero = {"k1": Tensor((g.d,), lambda idx: z3.RealVal(0)), "k2": Sym(z3.RealVal(0))}
        K = lambda m: self.sumLN(m, zero, z3.RealVal(1))
        neg = {k: -pL[k] for k in ("k1", "k2")}
        la = (self.dens(xL) + K(neg)) - (self.dens(g.SEL) + K(mom0))
        log_alpha = z3.If(la >= 0, z3.RealVal(0), la)
        yield "one_uniform(0,1)_draw", len(UNI.sample_calls) == 1 and call_params_are(UNI.sample_calls[0], 0.0, 1.0)
        if len(UNI.sample_calls) != 1 or len(uc) != 1:
            return
        u = dists.DrawR(UNI.id, UNI.sample_calls[0]["nonce"], z3.RealVal(0), z3.RealVal(1))
        accept = JNP.log(Sym(u)).e < log_alpha
        yield "acceptance_is_energy_difference_rule", len(SAVE.calls) == 1 and same(SAVE.calls[0][1].get("accept"), Sym(accept))
        x2 = dict(g.current)
        x2.update(uc[0][1][1])
        new = AbsTrace(g, (self.args, self.kw), x2, Sym(g.R(self.a, enc(x2))), Sym(-g.D(self.a, enc(x2))))
        yield "result_is_leafwise_select(accept, proposed, current)", leafwise_select(path.value, accept, new, self.tr)


def leaf_eq(a, b, d):
    """dicts {k1: Tensor(d), k2: Sym} equal leaf-wise"""
    if not (isinstance(a, dict) and isinstance(b, dict) and set(a) == set(b) == {"k1", "k2"}):
        return z3.BoolVal(False)
    i = z3.Int("leq!i")
    if not (isinstance(a["k1"], Tensor) and isinstance(b["k1"], Tensor)):
        return z3.BoolVal(False)
    return z3.And(z3.Implies(z3.And(i >= 0, i < d), a["k1"].fn((i,)) == b["k1"].fn((i,))), same(a["k2"], b["k2"]))


# ================================================================================================
# C18 — chain


class StateStub:
    """assumed contract of genjax.state.state as proved in C19: state(f)() = (f(), collected) where a value
    saved under a name inside a scan body is stacked along the iteration axis (later write per name wins)"""

    def __call__(self, f):
        def wrapped(*args):
            Assumed.note("state(f)(*args) = (f(*args), {name: values saved under name, stacked along the scan axis}) — contract proved in C19")
            eng = engine()
            start = len(SAVE.calls)
            n_scans = len(eng.extra.get("scans", []))
            res = f(*args)
            collected = {}
            scans = eng.extra.get("scans", [])
            for (a, k), lanes in zip(SAVE.calls[start:], SAVE_LANES[start:]):
                for name, v in k.items():
                    if lanes:
                        rec = [r for r in scans if z3.eq(r["t"], lanes[-1])]
                        if not rec:
                            raise EngineLimit("save under an unknown scan")
                        collected[name] = vmap_stub._stack(v, rec[0]["T"], lanes[-1])
                    else:
                        collected[name] = v
            return res, collected

        return wrapped


SAVE_LANES = []
_orig_save_call = SaveRec.__call__


def _save_with_lanes(self, *a, **k):
    SAVE_LANES.append(list(engine().extra.get("lanes", [])))
    return _orig_save_call(self, *a, **k)


SaveRec.__call__ = _save_with_lanes
mcmc.state = StateStub()
mcmc.compute_rhat = lambda s: Sym(z3.Function("Rhat", V, z3.RealSort())(enc(s)))
mcmc.compute_ess = lambda s, kind="bulk": Sym(z3.Function("ESS_" + kind, V, z3.RealSort())(enc(s)))


class AbsKernel:
    """abstract MCMC kernel: new choices KX(old choices, nonce); saves its accept flag(s)"""

    def __init__(self, g, a, composite=False, saves_accept=True):
        self.g, self.a, self.composite, self.saves_accept = g, a, composite, saves_accept
        self.KX = z3.Function(engine().fresh_name("KX"), V, z3.IntSort(), V)
        self.KA = z3.Function(engine().fresh_name("KA"), V, z3.IntSort(), z3.RealSort())
        self.KA0 = z3.Function(engine().fresh_name("KA_first"), V, z3.IntSort(), z3.RealSort())

    def __call__(self, tr):
        from vt.gfi import next_nonce

        nu = next_nonce()
        xo = enc(tr.x)
        x2 = self.KX(xo, nu)
        if self.composite:  # a composite kernel saving several diagnostics: the last write per name is kept
            mcmc.save(accept=Sym(self.KA0(xo, nu)), aux=Sym(self.KA0(xo, nu)))
        if self.saves_accept:  # an exact Gibbs move / update-based move records no accept flag
            mcmc.save(accept=Sym(self.KA(xo, nu)))
        g, a = self.g, self.a
        return AbsTrace(g, tr.args, Sym(x2), Sym(g.R(a, x2)), Sym(-g.D(a, x2)))


class SymRange:
    """`range(start, stop, step)` over symbolic static integers: length L (fresh, L*step >= stop-start > (L-1)*step, or 0)
    and elements start + i*step; concrete arguments give a real range"""

    def __new__(cls, *a):
        if all(isinstance(x, int) for x in a):
            return range(*a)
        return object.__new__(cls)

    def __init__(self, *a):
        a = list(a)
        if len(a) == 1:
            a = [0, a[0], 1]
        elif len(a) == 2:
            a = [a[0], a[1], 1]
        self.start, self.stop, self.step = (_lift(x) for x in a)
        eng = engine()
        eng.assume(self.step >= 1)
        self.L = fresh("range_len", z3.IntSort())
        rem = self.stop - self.start
        eng.assume(z3.If(rem <= 0, self.L == 0, z3.And(self.L >= 1, self.L * self.step >= rem, (self.L - 1) * self.step < rem)))

    def __len__(self):
        raise EngineLimit("len() of a symbolic range (use __vt_len__)")

    def __vt_len__(self):
        return Sym(self.L)

    def __getitem__(self, i):
        if isinstance(i, int) and i < 0:
            return Sym(self.start + (self.L + i) * self.step)
        return Sym(self.start + _lift(i) * self.step)


@contract("genjax.inference.mcmc:chain", ["C18"])
class ChainSingle(_NoReplay):
    """single chain, symbolic n_steps / burn_in / thinning: retained state j is kernel iterate burn_in + j*thinning,
    accepts[j] the flag saved in that iteration, rate their mean, n_steps the number retained"""

    cases = ["simple_kernel", "composite_kernel", "kernel_without_accept_flag", "simple_kernel:second_call_on_the_same_runner_with_another_burn_in"]

    def call(self, case):
        reset()
        SAVE_LANES.clear()
        eng = engine()
        mcmc.range = SymRange  # `range(b, n, k)` on symbolic static values (only its length / last element are used)
        self.g = AbsGF("target")
        self.args = (value("a0"),)
        self.a = enc_args(self.args, {})
        self.x0 = value("x0")
        g = self.g
        self.init = AbsTrace(g, (self.args, {}), self.x0, Sym(g.R(self.a, self.x0.e)), Sym(-g.D(self.a, self.x0.e)))
        self.K = AbsKernel(g, self.a, composite=(case == "composite_kernel"), saves_accept=(case != "kernel_without_accept_flag"))
        C = core.Const
        if "second_call_on_the_same_runner" in case:
            # HISTORY on one runner object: chain(kernel) is kept and called for the schedule (10, 0, 2), then for
            # (12, 2, 2) - same window and thinning, another burn-in.  The second result is that of ITS schedule (nothing
            # computed for an earlier call may be reused for another input).  Concrete schedules: a memo would hash them
            run = self.real(self.fn, self.K)
            self.real(run, self.init, C(10), burn_in=C(0), autocorrelation_resampling=C(2), n_chains=C(1))
            eng.extra["nonce"] = 0  # the second call's draws / saved flags are named as those of a first call are
            SAVE_LANES.clear()
            self.K.reset_records() if hasattr(self.K, "reset_records") else None
            self.n, self.b, self.th = Sym(z3.IntVal(12)), Sym(z3.IntVal(2)), Sym(z3.IntVal(2))
            return self.real(run, self.init, C(12), burn_in=C(2), autocorrelation_resampling=C(2), n_chains=C(1))
        self.n, self.b, self.th = integer("n_steps"), integer("burn_in"), integer("thinning")
        eng.assume(z3.And(self.th.e >= 1, self.b.e >= 0, self.b.e < self.n.e))  # non-empty result
        run = self.real(self.fn, self.K)
        return self.real(run, self.init, C(self.n), burn_in=C(self.b), autocorrelation_resampling=C(self.th), n_chains=C(1))

    def ensures(self, case, path):
        yield "does_not_raise", path.outcome == "return"
        if path.outcome != "return":
            return
        res = path.value
        n, b, th = self.n.e, self.b.e, self.th.e
        scans = path.extra.get("scans", [])
        want_scans = 2 if "second_call_on_the_same_runner" in case else 1
        yield "one_scan_over_the_kernel(per_call)", len(scans) == want_scans
        if len(scans) != want_scans:
            return
        rec = scans[-1]
        Tn = rec["T"]
        jj = fresh("jj", z3.IntSort())
        # the run is long enough for every retained step (running the discarded tail as well is allowed, not required)
        yield "scan_runs_at_least_to_the_last_retained_step_and_at_most_n_steps", z3.And(Tn <= n, z3.Implies(z3.And(jj >= 0, b + jj * th < n), b + jj * th < Tn))
        t = rec["t"]
        yield "iteration_starts_from_the_initial_trace", rec["init"] is self.init
        # the next iteration starts from this iteration's output, and the output is what is collected
        new_carry, y = rec["new_carry"], rec["y"]
        yield "carry_is_the_kernels_output_and_it_is_the_collected_state", new_carry is y and isinstance(y, AbsTrace)
        ct = rec["carry_at"](t)
        nu_t = None
        from vt.gfi import LaneNonce

        nu = LaneNonce(z3.IntVal(1), t)
        yield "kernel_applied_to_the_carried_trace", same(y.x, Sym(self.K.KX(enc(ct.x), nu)))
        ys_x = lambda tt: z3.substitute(_lift(y.x), (t, tt))  # iterate number tt (0-based) = K^{tt+1}(initial)
        acc_t = lambda tt: z3.substitute(self.K.KA(enc(ct.x), nu), (t, tt))
        j = fresh("j", z3.IntSort())
        L = res.n_steps.value
        Le = _lift(L)
        # number retained = ceil((n - b) / thinning)
        yield "n_steps_counts_the_retained_states", z3.And(Le * th >= n - b, (Le - 1) * th < n - b)
        rng = z3.And(j >= 0, j < Le)
        xs = res.traces.get_choices()
        yield "retained_indices_in_range", z3.Implies(rng, z3.And(b + j * th >= 0, b + j * th < n))
        yield "retained_state_j_is_iterate_burn_in_plus_j_thinning", isinstance(xs, Tensor) and z3.Implies(rng, xs.fn((j,)) == ys_x(b + j * th))
        yield "all_trace_fields_sliced_with_the_same_indices", isinstance(res.traces.score, Tensor) and z3.Implies(
            rng, res.traces.score.fn((j,)) == z3.substitute(_lift(y.score), (t, b + j * th))
        )
        if case == "kernel_without_accept_flag":
            xs_len = _lift(xs.shape[0]) if isinstance(xs, Tensor) else None
            yield "exactly_the_retained_states_are_returned(as many as n_steps says)", xs_len is not None and xs_len == Le
            yield "accepts_has_one_entry_per_retained_state", isinstance(res.accepts, Tensor) and _lift(res.accepts.shape[0]) == Le
            yield "n_chains_recorded", res.n_chains.value == 1
            return
        if "second_call_on_the_same_runner" in case:
            # the accept flags of the two calls share the harness's save recorder: only the retained states are compared here
            yield "accepts_has_one_entry_per_retained_state", isinstance(res.accepts, Tensor) and z3.simplify(_lift(res.accepts.shape[0]) == Le)
            return
        yield "accepts_j_is_the_flag_saved_in_that_iteration(last_write_wins)", isinstance(res.accepts, Tensor) and z3.Implies(rng, res.accepts.fn((j,)) == acc_t(b + j * th))
        yield "acceptance_rate_is_mean_of_accepts", same(res.acceptance_rate, Sym(mk_sum(Le, lambda i: res.accepts.fn((i,))) / z3.ToReal(Le)))
        yield "n_chains_recorded", res.n_chains.value == 1


@contract("lemma:thinned_run_is_slice_of_unthinned_run", ["C18"], kind="lemma")
class ThinLemma(Contract):
    """with the same randomness, result(burn_in=b, thinning=k)[j] = result(0, 1)[b + j*k] (both are iterate b + j*k)"""

    cases = ["index_arithmetic"]

    def call(self, case):
        return None

    def ensures(self, case, path):
        It = z3.Function("Iterate", z3.IntSort(), V)
        Thin = z3.Function("Thinned", z3.IntSort(), V)
        Full = z3.Function("Full", z3.IntSort(), V)
        j, b, k, n, i = z3.Ints("j b k n i")
        hyp = [z3.ForAll([i], z3.Implies(z3.And(i >= 0, i < n), Full(i) == It(0 + i * 1))), Thin(j) == It(b + j * k), b >= 0, k >= 1, j >= 0, b + j * k < n]
        yield "slice_identity", z3.Implies(z3.And(*hyp), Thin(j) == Full(b + j * k))


@contract("genjax.inference.mcmc:chain", ["C18"])
class ChainMulti(_NoReplay):
    """n_chains > 1: the single-chain function mapped (in_axes=0) over n_chains copies of the initial trace;
    results carry a leading chain axis; per-chain rates averaged; n_steps from the inner result"""

    cases = ["multi"]

    def call(self, case):
        reset()
        SAVE_LANES.clear()
        eng = engine()
        self.g = AbsGF("target")
        self.args = (value("a0"),)
        self.a = enc_args(self.args, {})
        self.x0 = value("x0")
        g = self.g
        self.init = AbsTrace(g, (self.args, {}), self.x0, Sym(g.R(self.a, self.x0.e)), Sym(-g.D(self.a, self.x0.e)))
        self.K = AbsKernel(g, self.a)
        self.n, self.b, self.th = integer("n_steps"), integer("burn_in"), integer("thinning")
        self.nc = 3
        eng.assume(z3.And(self.th.e >= 1, self.b.e >= 0, self.b.e < self.n.e))
        run = self.real(self.fn, self.K)
        C = core.Const
        return self.real(run, self.init, C(self.n), burn_in=C(self.b), autocorrelation_resampling=C(self.th), n_chains=C(self.nc))

    def ensures(self, case, path):
        yield "does_not_raise", path.outcome == "return"
        if path.outcome != "return":
            return
        res = path.value
        vc = path.extra.get("vmap_calls", [])
        yield "single_chain_function_mapped_over_axis_0", len(vc) == 1 and vc[0]["in_axes"] == 0
        if len(vc) != 1:
            return
        lane = vc[0]["lane"]
        init_b = vc[0]["args"][0]
        c = fresh("c", z3.IntSort())
        yield "initial_trace_replicated_n_chains_times", isinstance(init_b.x, Tensor) and init_b.x.ndim == 1 and init_b.x.shape[0] == self.nc and z3.Implies(z3.And(c >= 0, c < self.nc), init_b.x.fn((c,)) == self.x0.e)
        xs = res.traces.get_choices()
        yield "leading_chain_axis_on_traces_and_accepts", isinstance(xs, Tensor) and xs.ndim == 2 and xs.shape[0] == self.nc and isinstance(res.accepts, Tensor) and res.accepts.ndim == 2 and res.accepts.shape[0] == self.nc
        scans = path.extra.get("scans", [])
        yield "each_chain_runs_the_single_chain_scan", len(scans) == 1
        if len(scans) == 1 and isinstance(xs, Tensor) and xs.ndim == 2:
            rec = scans[0]
            t = rec["t"]
            j = fresh("j", z3.IntSort())
            L = _lift(res.n_steps.value)
            yx = _lift(rec["y"].x)
            want = z3.substitute(yx, (t, self.b.e + j * self.th.e), (lane, c))
            yield "chain_c_state_j_is_that_chains_iterate", z3.Implies(z3.And(c >= 0, c < self.nc, j >= 0, j < L), xs.fn((c, j)) == want)
            # independent randomness per chain: the kernel's nonce is chain-indexed
            yield "chains_use_chain_indexed_randomness", mentions_const(yx, lane)
        Lr = z3.ToReal(_lift(res.n_steps.value))
        per_chain = lambda cc: mk_sum(_lift(res.n_steps.value), lambda i: res.accepts.fn((cc, i))) / Lr
        yield "acceptance_rate_is_mean_of_per_chain_rates", same(res.acceptance_rate, Sym(mk_sum(self.nc, lambda cc: per_chain(cc)) / z3.RealVal(self.nc)))
        yield "n_chains_recorded", res.n_chains.value == self.nc
        # n_steps counts the retained states burn_in, burn_in + k, ... < n: ceil((n - b) / k) of them, per chain
        Lw = _lift(res.n_steps.value)
        n, b, k = self.n.e, self.b.e, self.th.e
        yield "n_steps_counts_the_retained_states(ceil((n-b)/k))", z3.And(Lw * k >= n - b, (Lw - 1) * k < n - b)
        if isinstance(xs, Tensor) and xs.ndim == 2 and isinstance(res.accepts, Tensor) and res.accepts.ndim == 2:
            yield "every_chain_holds_n_steps_states_and_flags", z3.And(_lift(xs.shape[1]) == Lw, _lift(res.accepts.shape[1]) == Lw)


def mentions_const(e, c):
    if z3.eq(e, c):
        return True
    return any(mentions_const(ch, c) for ch in e.children())

from vt.contract import track as _track  # noqa: E402

_track(SAVE.calls, SAVE_LANES, GRADS, (UNI, "sample_calls"), (UNI, "logpdf_calls"), (NRM, "sample_calls"), (NRM, "logpdf_calls"))

from vt.contract import canary as _canary  # noqa: E402

_canary(MH, "default", "result_is_leafwise_select(accept, proposed, current)_with_MH_acceptance")
_canary(ChainSingle, "simple_kernel", "retained_state_j_is_iterate_burn_in_plus_j_thinning")
