"""C16 — selections are a Boolean algebra on address paths.

Spec function (written from the property statement), for a path p in Seq(Atom):

  Sel(All, p) = T                 Sel(None, p) = F
  Sel(Str a, p)   = p != eps /\\ p[0] = a                       "sel('a') selects everything under a"
  Sel(Tuple t, p) = t != eps /\\ t prefix-of p                  "exactly the sub-tree a/b"
  Sel(Dict d, p)  = p != eps /\\ p[0] in d /\\ Sel(d[p[0]], tail p)   "delegate per key"
  Sel(~s, p) = not Sel(s, p);  Sel(s^t, p) = Sel(s,p) /\\ Sel(t,p);  Sel(s|t, p) = Sel(s,p) \\/ Sel(t,p)

Contract of every `match`, proved per class with *abstract* sub-selections (so structural induction
over the selection expression and over the path gives the algebra for all expressions, all depths):

  match(a) = (hit, rest)   with   forall p. Sel(rest, p) = Sel(self, a . p)        [rest_den]
  match(()) = (hit0, _)    with   hit0 = Sel(self, eps), a genuine bool             [leaf_hit]

`hit` for an atom address has no denotational meaning that all classes share (it is "may match below"
for Str/Tuple/Dict and its negation under ~), so the contract does not constrain it and no function
under contract may rely on it — `Fn.filter` is verified against the remainder only.
"""
from __future__ import annotations

import z3

from vt.contract import Contract, contract
from vt.maps import SymDict, SymSeq, key_term, vt_len
from vt.sym import Atom, EngineLimit, PathSort, Sym, atom, atom_sym, engine, fresh
from vt import loader

core = loader.load("core")
EPS = z3.Empty(PathSort)


def cons(a, p):
    return z3.Concat(z3.Unit(key_term(a)), p)


def head(p):
    return p[0]


def tail(p):
    return z3.SubSeq(p, z3.IntVal(1), z3.Length(p) - 1)


# ------------------------------------------------------------------------------------------------
# abstract sub-selection: anything that honours the match contract


class AbsSel:
    """Abstract selection with denotation `den: Seq(Atom) -> Bool`.  Behaves per the match contract."""

    _ids = 0

    def __init__(self, den, name=None):
        self.den = den
        self.name = name or "S"
        self.hitf = z3.Function(engine().fresh_name("Hit_" + self.name), Atom, z3.BoolSort())
        from vt.sym import V as _V

        self.sid = z3.Const(engine().fresh_name("selid_" + self.name), _V)

    def __vt_enc__(self):
        return self.sid

    @staticmethod
    def fresh(name):
        f = z3.Function(engine().fresh_name("Sel_" + name), PathSort, z3.BoolSort())
        return AbsSel(lambda p: f(p), name)

    def match(self, addr):
        if isinstance(addr, tuple) and addr == ():
            hit = engine().decide(self.den(EPS))  # a genuine bool on every path
            return hit, AbsSel(lambda p: z3.BoolVal(False), self.name + "_unit")
        a = key_term(addr)
        hit = engine().decide(self.hitf(a))  # unconstrained
        return hit, AbsSel(lambda p, a=a: self.den(cons(a, p)), self.name + "_r")

    def __contains__(self, addr):
        return self.match(addr)[0]

    def __call__(self, addr):
        return self.match(addr)


def _seq_of(t):
    return t.e if isinstance(t, SymSeq) else SymSeq.of(t).e


def den(s, p):
    """Spec denotation of a (possibly partly abstract) selection object on path term p."""
    if isinstance(s, AbsSel):
        return s.den(p)
    if isinstance(s, core.Selection):
        return den(s.s, p)
    if isinstance(s, core.AllSel):
        return z3.BoolVal(True)
    if isinstance(s, core.NoneSel):
        return z3.BoolVal(False)
    if isinstance(s, core.StrSel):
        return z3.And(z3.Length(p) > 0, head(p) == key_term(s.s.value))
    if isinstance(s, core.TupleSel):
        t = _seq_of(s.t.value)
        return z3.And(z3.Length(t) > 0, z3.PrefixOf(t, p))
    if isinstance(s, core.DictSel):
        d = s.d
        if isinstance(d, SymDict):
            k = head(p)
            alts = [z3.And(c, den(v, tail(p))) for c, v in d.lookup_cases(k)]
            return z3.And(z3.Length(p) > 0, z3.Or(*alts))
        alts = [z3.And(head(p) == atom(k), den(v, tail(p))) for k, v in d.items()]
        return z3.And(z3.Length(p) > 0, z3.Or(*alts))
    if isinstance(s, core.ComplSel):
        return z3.Not(den(s.s, p))
    if isinstance(s, core.InSel):
        return z3.And(den(s.s1, p), den(s.s2, p))
    if isinstance(s, core.OrSel):
        return z3.Or(den(s.s1, p), den(s.s2, p))
    raise EngineLimit("den of %r" % type(s))


def hit_term(h):
    if isinstance(h, bool):
        return z3.BoolVal(h)
    if isinstance(h, Sym) and h.is_bool():
        return h.e
    raise EngineLimit("hit is %r" % type(h))


class _MatchContract(Contract):
    cases = ["atom", "unit"]

    def make(self):
        raise NotImplementedError

    def call(self, case):
        self.obj = self.make()
        self.addr = atom_sym("addr") if case == "atom" else ()
        return self.real(self.fn, self.obj, self.addr)

    def ensures(self, case, path):
        if path.outcome == "raise":
            yield "does_not_raise", False
            return
        yield "does_not_raise", True
        hit, rest = path.value
        # `addr == "a"` on strings is a Python bool; on proxies it is a Bool term
        yield "hit_is_bool", isinstance(hit, bool) or (isinstance(hit, Sym) and hit.is_bool())
        if case == "atom":
            p = fresh("p", PathSort)
            yield "rest_den", den(rest, p) == den(self.obj, cons(self.addr, p))
            # and the leaf decision taken by regenerate on the remainder agrees with the spec
            yield "rest_den_eps", den(rest, EPS) == den(self.obj, cons(self.addr, EPS))
        else:
            yield "leaf_hit", hit_term(hit) == den(self.obj, EPS)

    def replay(self, case, clause, model, path):
        return None


from . import _patch  # noqa: E402,F401


@contract("genjax.core:AllSel.match", ["C16", "C04", "C09"])
class AllSelMatch(_MatchContract):
    def make(self):
        return core.AllSel()


@contract("genjax.core:NoneSel.match", ["C16", "C04", "C09"])
class NoneSelMatch(_MatchContract):
    def make(self):
        return core.NoneSel()


@contract("genjax.core:StrSel.match", ["C16", "C04", "C09"])
class StrSelMatch(_MatchContract):
    def make(self):
        return core.StrSel(core.Const(atom_sym("s")))


@contract("genjax.core:TupleSel.match", ["C16", "C04", "C09"])
class TupleSelMatch(_MatchContract):
    """t is a symbolic tuple of atoms of *any* length (z3 sequence)."""

    def make(self):
        return core.TupleSel(core.Const(SymSeq.fresh("t")))


@contract("genjax.core:DictSel.match", ["C16", "C04", "C09"])
class DictSelMatch(_MatchContract):
    """d maps an arbitrary set of atoms to abstract sub-selections."""

    def make(self):
        ind = z3.Function(engine().fresh_name("InD"), Atom, z3.BoolSort())
        seld = z3.Function(engine().fresh_name("SelD"), Atom, PathSort, z3.BoolSort())
        d = SymDict("d", init_has=lambda k: ind(k), init_get=lambda k: AbsSel(lambda p, k=k: seld(k, p), "d"))
        return core.DictSel(d)


@contract("genjax.core:ComplSel.match", ["C16", "C04", "C09"])
class ComplSelMatch(_MatchContract):
    def make(self):
        return core.ComplSel(AbsSel.fresh("s"))


@contract("genjax.core:InSel.match", ["C16", "C04", "C09"])
class InSelMatch(_MatchContract):
    def make(self):
        return core.InSel(AbsSel.fresh("s1"), AbsSel.fresh("s2"))


@contract("genjax.core:OrSel.match", ["C16", "C04", "C09"])
class OrSelMatch(_MatchContract):
    def make(self):
        return core.OrSel(AbsSel.fresh("s1"), AbsSel.fresh("s2"))


@contract("genjax.core:Selection.match", ["C16", "C04", "C09"])
class SelectionMatch(_MatchContract):
    """wrapper: same denotation as the wrapped object; the remainder is always a `Selection`."""

    cases = ["atom", "unit", "atom_rest_is_selection"]

    def make(self):
        return core.Selection(AbsSel.fresh("s"))

    def call(self, case):
        if case == "atom_rest_is_selection":
            inner = AbsSel.fresh("s")
            wrapped = core.Selection(AbsSel.fresh("r"))
            inner.match = lambda addr: (True, wrapped)  # a callee that already returns a Selection
            self.obj, self.addr, self.wrapped = core.Selection(inner), atom_sym("addr"), wrapped
            return self.real(self.fn, self.obj, self.addr)
        return super().call(case)

    def ensures(self, case, path):
        if case == "atom_rest_is_selection":
            yield "does_not_raise", path.outcome == "return"
            if path.outcome == "return":
                yield "not_double_wrapped", path.value[1] is self.wrapped
            return
        yield from super().ensures(case, path)
        if path.outcome == "return":
            yield "rest_is_Selection", isinstance(path.value[1], core.Selection)


@contract("genjax.core:Selection.__contains__", ["C16", "C04", "C09"])
class SelectionContains(Contract):
    """`() in s` — the leaf decision used by Distribution.regenerate / filter — is Sel(s, eps)."""

    cases = ["unit"]

    def call(self, case):
        self.obj = core.Selection(AbsSel.fresh("s"))
        return self.real(self.fn, self.obj, ())

    def ensures(self, case, path):
        yield "does_not_raise", path.outcome == "return"
        if path.outcome == "return":
            yield "is_bool", isinstance(path.value, bool)
            yield "leaf_hit", hit_term(path.value) == den(self.obj, EPS)


@contract("genjax.core:Selection.__call__", ["C16"])
class SelectionCall(Contract):
    cases = ["atom"]

    def call(self, case):
        self.obj = core.Selection(AbsSel.fresh("s"))
        self.addr = atom_sym("addr")
        return self.real(self.fn, self.obj, self.addr)

    def ensures(self, case, path):
        yield "does_not_raise", path.outcome == "return"
        if path.outcome == "return":
            p = fresh("p", PathSort)
            yield "rest_den", den(path.value[1], p) == den(self.obj, cons(self.addr, p))


@contract("genjax.core:match", ["C16"])
class CoreMatch(Contract):
    cases = ["atom"]

    def call(self, case):
        self.obj = core.Selection(AbsSel.fresh("s"))
        self.addr = atom_sym("addr")
        return self.real(self.fn, self.addr, self.obj)

    def ensures(self, case, path):
        yield "does_not_raise", path.outcome == "return"
        if path.outcome == "return":
            p = fresh("p", PathSort)
            yield "rest_den", den(path.value[1], p) == den(self.obj, cons(self.addr, p))


class _OpContract(Contract):
    cases = ["default"]
    op = None

    def ensures(self, case, path):
        yield "does_not_raise", path.outcome == "return"
        if path.outcome != "return":
            return
        r = path.value
        yield "is_Selection", isinstance(r, core.Selection)
        p = fresh("p", PathSort)
        yield "denotation", den(r, p) == self.spec(p)


def concrete_operand(kind, tag):
    """an operand of a CONCRETE selection class (abstract children): code that special-cases a class - e.g. a fast path
    for two dict selections - must meet the same denotation"""
    S = lambda n: core.Selection(AbsSel.fresh(n + tag))
    if kind == "abs":
        inner = AbsSel.fresh("s" + tag)
    elif kind == "all":
        inner = core.AllSel()
    elif kind == "none":
        inner = core.NoneSel()
    elif kind == "str":
        inner = core.StrSel(core.Const("a"))
    elif kind == "tuple":
        inner = core.TupleSel(core.Const(("a", "b")))
    elif kind == "dict":
        inner = core.DictSel({"a": S("da"), "b": S("db")})
    elif kind == "dict_overlapping":
        inner = core.DictSel({"a": S("ea"), "c": S("ec")})
    elif kind == "empty_dict":
        inner = core.DictSel({})
    elif kind == "compl":
        inner = core.ComplSel(S("c"))
    elif kind == "in":
        inner = core.InSel(S("i1"), S("i2"))
    else:
        inner = core.OrSel(S("o1"), S("o2"))
    return core.Selection(inner)


OPERAND_KINDS = ["abs", "all", "none", "str", "tuple", "dict", "dict_overlapping", "empty_dict", "compl", "in", "or"]
_PAIRS = [("abs", k) for k in OPERAND_KINDS] + [(k, "abs") for k in OPERAND_KINDS if k != "abs"] + [(k, k) for k in OPERAND_KINDS if k != "abs"]
_PAIRS += [("dict", "dict_overlapping"), ("dict_overlapping", "dict"), ("empty_dict", "dict"), ("dict", "empty_dict"), ("str", "tuple"), ("tuple", "dict"), ("dict", "str"), ("all", "dict"), ("none", "tuple"), ("compl", "dict"), ("or", "dict"), ("dict", "in")]
PAIR_CASES = [a + "|" + b for a, b in _PAIRS]


@contract("genjax.core:Selection.__or__", ["C16"])
class SelOr(_OpContract):
    cases = PAIR_CASES

    def call(self, case):
        ka, kb = case.split("|")
        self.a, self.b = concrete_operand(ka, "L"), concrete_operand(kb, "R")
        return self.real(self.fn, self.a, self.b)

    def spec(self, p):
        return z3.Or(den(self.a, p), den(self.b, p))


@contract("genjax.core:Selection.__xor__", ["C16"])
class SelXor(_OpContract):
    """the property: `s ^ t` is the *intersection*."""

    cases = PAIR_CASES

    def call(self, case):
        ka, kb = case.split("|")
        self.a, self.b = concrete_operand(ka, "L"), concrete_operand(kb, "R")
        return self.real(self.fn, self.a, self.b)

    def spec(self, p):
        return z3.And(den(self.a, p), den(self.b, p))


@contract("genjax.core:Selection.__invert__", ["C16"])
class SelInvert(_OpContract):
    cases = list(OPERAND_KINDS)

    def call(self, case):
        self.a = concrete_operand(case, "L")
        return self.real(self.fn, self.a)

    def spec(self, p):
        return z3.Not(den(self.a, p))


@contract("genjax.core:sel", ["C16", "C04", "C05", "C09"])
class SelCtor(Contract):
    """sel(), sel(None) select nothing; sel(()) everything; sel('a') everything under a;
    sel((a,b,..)) exactly that sub-tree; sel({...}) delegates per key."""

    cases = ["no_args", "none", "unit", "str", "tuple1", "tuple2", "tuple3", "dict", "empty_dict", "dict_with_empty_dict_child", "empty_string"]

    def call(self, case):
        f = self.fn
        if case == "empty_dict":
            # a dict selection delegates per key: with no key it selects NOTHING (never everything)
            self.spec = lambda p: z3.BoolVal(False)
            return self.real(f, {})
        if case == "dict_with_empty_dict_child":
            inner = self.real(f, {})
            self.spec = lambda p: z3.BoolVal(False)
            return self.real(f, {"a": inner})
        if case == "empty_string":
            self.spec = lambda p: z3.And(z3.Length(p) > 0, p[0] == atom(""))
            return self.real(f, "")
        if case == "no_args":
            self.spec = lambda p: z3.BoolVal(False)
            return self.real(f)
        if case == "none":
            self.spec = lambda p: z3.BoolVal(False)
            return self.real(f, None)
        if case == "unit":
            self.spec = lambda p: z3.BoolVal(True)
            return self.real(f, ())
        if case == "str":
            # sel() asserts isinstance(v, str): concrete strings; the atom is arbitrary but fixed
            self.spec = lambda p: z3.And(z3.Length(p) > 0, p[0] == atom("a"))
            return self.real(f, "a")
        if case.startswith("tuple"):
            n = int(case[-1])
            t = tuple("abc"[:n])
            self.spec = lambda p, t=t: z3.PrefixOf(SymSeq.of(t).e, p)
            return self.real(f, t)
        if case == "dict":
            s1, s2 = AbsSel.fresh("k1"), AbsSel.fresh("k2")
            d = {"a": s1, "b": s2}
            self.spec = lambda p: z3.And(
                z3.Length(p) > 0,
                z3.Or(
                    z3.And(p[0] == atom("a"), s1.den(tail(p))),
                    z3.And(p[0] == atom("b"), s2.den(tail(p))),
                ),
            )
            return self.real(f, d)

    def ensures(self, case, path):
        yield "does_not_raise", path.outcome == "return"
        if path.outcome != "return":
            return
        yield "is_Selection", isinstance(path.value, core.Selection)
        p = fresh("p", PathSort)
        yield "denotation", den(path.value, p) == self.spec(p)


# ------------------------------------------------------------------------------------------------
# algebra lemmas over the contracts (pure SMT; the property's laws for whole paths)


@contract("lemma:selection_algebra", ["C16", "C04", "C09"], kind="lemma")
class AlgebraLemma(Contract):
    """From rest_den + leaf_hit by induction on the path: the operational decision taken by
    regenerate (thread the remainder along p, then `() in rest`) equals Sel(s, p).  Inductive step:
    decide(s, a.p) = decide(rest, p) = Sel(rest, p) = Sel(s, a.p).  Checked here: base and step."""

    target = ""
    cases = ["induction"]

    def call(self, case):
        return None

    def ensures(self, case, path):
        S = z3.Function("S", PathSort, z3.BoolSort())  # Sel(s, .)
        R = z3.Function("R", PathSort, z3.BoolSort())  # Sel(rest, .)
        Dec_s = z3.Function("Dec_s", PathSort, z3.BoolSort())  # operational decision
        Dec_r = z3.Function("Dec_r", PathSort, z3.BoolSort())
        a = z3.Const("a", Atom)
        p = z3.Const("p", PathSort)
        q = z3.Const("q", PathSort)
        hyp = [
            z3.ForAll([q], R(q) == S(cons(a, q))),  # rest_den
            Dec_s(cons(a, p)) == Dec_r(p),  # definition of threading
            Dec_r(p) == R(p),  # induction hypothesis on the shorter path
        ]
        yield "step", z3.Implies(z3.And(*hyp), Dec_s(cons(a, p)) == S(cons(a, p)))
        hit0 = z3.Bool("hit0")
        yield "base", z3.Implies(z3.And(hit0 == S(EPS), Dec_s(EPS) == hit0), Dec_s(EPS) == S(EPS))

from vt.contract import canary as _canary  # noqa: E402

_canary(OrSelMatch, "atom", "rest_den")
_canary(TupleSelMatch, "atom", "rest_den")



def mk_selection(case, name="S"):
    """the selection of a regenerate / filter contract: abstract (arbitrary denotation) unless the case names a
    CONCRETE selection class — code that special-cases `isinstance(s.s, NoneSel)` / AllSel / a complement must meet the
    same postcondition on those paths"""
    if "sel=none" in case:
        return core.Selection(core.NoneSel())
    if "sel=all" in case:
        return core.Selection(core.AllSel())
    if "sel=compl_all" in case:
        return core.Selection(core.ComplSel(core.AllSel()))
    return core.Selection(AbsSel.fresh(name))


CONCRETE_SEL = ("sel=none", "sel=all", "sel=compl_all")
