"""C08 (pjax half), C14, C02 (axis-size inference): modular_vmap, its interpreter, the batch rules and
the lowering rule, in the JAX-0.7 API model."""
from __future__ import annotations

import types
from vt.stubs.ns import StubNS

import z3

from vt import loader
from vt.contract import Contract, contract
from vt.stubs import jaxpr07 as J
from vt.sym import Assumed, EngineLimit, Sym, V, _lift, engine, fresh, value
from vt.tensor import Tensor, dim_eq
from .core_gfi import same
from . import seed as S  # installs the API-model patches on pjax

pjax = loader.load("pjax")


class VmapRec:
    """stands for jax.vmap: records how it is called; applying the mapped function is the assumed
    lane-wise semantics (A-STUB) and is not needed by these obligations"""

    def __init__(self):
        self.calls = []

    def __call__(self, f, in_axes=0, out_axes=0, axis_size=None, axis_name=None, spmd_axis_name=None):
        rec = {"f": f, "in_axes": in_axes, "axis_size": axis_size, "axis_name": axis_name, "spmd_axis_name": spmd_axis_name}
        self.calls.append(rec)

        def mapped(*args):
            rec["args"] = args
            rec["result"] = ("vmap-result", len(self.calls))
            return rec["result"]

        rec["mapped"] = mapped
        return mapped


def install_jax():
    v = VmapRec()
    pjax.jax = StubNS(vmap=v)
    return v


class _NoReplay(Contract):
    def replay(self, case, clause, model, path):
        return {"tier": "API-model", "confirmed": False, "note": "pjax interpreters cannot execute on the sandbox's JAX 0.11; obligation is over the JAX-0.7 API model"}


@contract("genjax.pjax:static_dim_length", ["C08", "C02"])
class StaticDimLength(_NoReplay):
    """size of the mapped axis of the first mapped leaf; None entries are skipped; None if nothing is mapped"""

    cases = ["int", "tuple(None,1)", "list", "pytree_prefix", "nothing_mapped", "first_arg_is_None_constraint"]

    def replay(self, case, clause, model, path):
        from .native import run_native

        return run_native("static_dim_length")

    def call(self, case):
        n, m, d = (fresh(x, z3.IntSort()) for x in "nmd")
        self.n, self.m, self.d = n, m, d
        a = Tensor.fresh("a", (n, d))
        b = Tensor.fresh("b", (d, m))
        if case == "int":
            self.want = n
            return self.real(self.fn, 0, (a, a))
        if case == "tuple(None,1)":
            self.want = m
            return self.real(self.fn, (None, 1), (a, b))
        if case == "list":
            self.want = d
            return self.real(self.fn, [1, None], (a, b))
        if case == "pytree_prefix":
            self.want = m
            return self.real(self.fn, ({"p": None, "q": 1}, 0), ({"p": a, "q": b}, Tensor.fresh("c", (m,))))
        if case == "nothing_mapped":
            self.want = None
            return self.real(self.fn, (None, None), (a, b))
        # Vmap.generate with an empty constraint: args = (None, a), in_axes = (0, 0)
        self.want = n
        return self.real(self.fn, (0, 0), (None, a))

    def ensures(self, case, path):
        yield "does_not_raise", path.outcome == "return"
        if path.outcome == "return":
            r = path.value
            yield "size_of_first_mapped_axis", (r is None) if self.want is None else (r is not None and dim_eq(r, self.want))


@contract("genjax.pjax:modular_vmap", ["C08"])
class ModularVmapWrapper(_NoReplay):
    """validates with jax.vmap(lambda *_: None, ...)(*args), then evaluates through the interpreter with
    the caller's in_axes / axis_size / names / function / arguments"""

    cases = ["default"]

    def call(self, case):
        self.v = install_jax()
        self.evals = []
        outer = self

        class FakeInterp:
            def eval(s, *a):
                outer.evals.append(a)
                return "eval-result"

        self._orig = pjax.ModularVmap
        pjax.ModularVmap = FakeInterp
        self.f = lambda *a: None
        self.args = (value("x"), value("y"))
        try:
            return self.real(pjax.modular_vmap(self.f, in_axes=(0, None), axis_size=7, axis_name="ax", spmd_axis_name="sp"), *self.args)
        finally:
            pjax.ModularVmap = self._orig

    def ensures(self, case, path):
        yield "does_not_raise", path.outcome == "return"
        if path.outcome != "return":
            return
        c = self.v.calls
        yield "validated_like_jax_vmap_first", len(c) == 1 and c[0]["in_axes"] == (0, None) and c[0]["axis_size"] == 7 and c[0].get("args") == self.args
        yield "interpreter_gets_axes_size_names_function_arguments", len(self.evals) == 1 and self.evals[0][:4] == ((0, None), 7, "ax", "sp") and self.evals[0][4] is self.f and all(
            a is b for a, b in zip(self.evals[0][5:], self.args)
        ) and len(self.evals[0]) == 7
        yield "returns_interpreter_result", path.value == "eval-result"


@contract("genjax.pjax:ModularVmap.eval", ["C08"])
class ModularVmapEval(_NoReplay):
    """axis size inferred iff not given; the dummy has one entry per lane; jax.vmap maps the dummy along 0
    and the arguments per the caller's in_axes"""

    cases = ["axis_size_given", "axis_size_inferred", "axis_size_inferred:python_scalar_arguments"]

    def call(self, case):
        self.v = install_jax()
        self.fnc = lambda *a: None
        self.a = Tensor.fresh("a", (4, 2))
        self.given = 4 if case == "axis_size_given" else None
        # the function handed to jax.vmap is applied (below, inside the patch) to one lane: it must stage and run the
        # user function with this axis size - a partial, a closure or a method are all fine
        self.sr = []
        self.lane_dummy, self.lane_args = object(), (object(),)
        orig = pjax.ModularVmap.stage_and_run
        pjax.ModularVmap.stage_and_run = staticmethod(lambda *a, **k: self.sr.append((a, k)) or "lane-result")
        try:
            out = self._eval(case)
            self.lane_out = None
            if len(self.v.calls) == 1:
                try:
                    self.lane_out = self.v.calls[0]["f"](self.lane_dummy, self.lane_args)
                except Exception as e:  # noqa: BLE001
                    self.lane_out = e
            return out
        finally:
            pjax.ModularVmap.stage_and_run = orig

    def _eval(self, case):
        if "python_scalar_arguments" in case:
            # f(x, 2.5, 3) with unmapped Python scalars: per lane f sees them WEAKLY typed (they take the dtype of the
            # lanes they are combined with - float16 / uint8 lanes stay float16 / uint8); handing f arrays of a fixed
            # dtype instead changes f's result dtype and values
            return self.real(pjax.ModularVmap().eval, (0, None, None), self.given, "ax", None, self.fnc, self.a, 2.5, 3)
        return self.real(pjax.ModularVmap().eval, 0, self.given, "ax", None, self.fnc, self.a)

    def ensures(self, case, path):
        yield "does_not_raise", path.outcome == "return"
        if path.outcome != "return":
            return
        c = self.v.calls
        yield "one_vmap", len(c) == 1
        if len(c) != 1:
            return
        r = c[0]
        if "python_scalar_arguments" in case:
            yield "in_axes_is_(0, callers_in_axes)", r["in_axes"] == (0, (0, None, None))
            dummy, args = r["args"]
            weakly = lambda v, py: (type(v) is type(py) and v == py) or (isinstance(v, Sym) and getattr(v, "weak", False) and z3.is_true(z3.simplify(_lift(v) == _lift(py))))
            yield "array_argument_forwarded", len(args) == 3 and args[0] is self.a
            yield "python_scalar_arguments_reach_the_function_weakly_typed_with_their_values", len(args) == 3 and weakly(args[1], 2.5) and weakly(args[2], 3)
            return
        yield "in_axes_is_(0, callers_in_axes)", r["in_axes"] == (0, 0)
        yield "axis_size_is_given_or_inferred", r["axis_size"] == 4
        dummy, args = r["args"]
        yield "dummy_has_one_entry_per_lane", isinstance(dummy, Tensor) and dummy.shape == (4,)
        yield "arguments_forwarded", len(args) == 1 and args[0] is self.a
        ok = self.lane_out == "lane-result" and len(self.sr) == 1
        if ok:
            import inspect

            ba = inspect.signature(lambda axis_size, fn, dummy_arg, args: None).bind(*self.sr[0][0], **self.sr[0][1]).arguments
            ok = ba["axis_size"] == 4 and ba["fn"] is self.fnc and ba["dummy_arg"] is self.lane_dummy and ba["args"] is self.lane_args
        yield "maps_stage_and_run(axis_size, fn)_over_the_lanes", ok
        yield "returns_vmap_result", path.value == r["result"]


@contract("genjax.pjax:ModularVmap.eval_jaxpr_modular_vmap", ["C08", "C14"])
class MVInterpStep(_NoReplay):
    """generic step: probabilistic sites are re-bound with (dummy, *operands, axis_size, ctx='modular_vmap');
    every other primitive is bound unchanged"""

    cases = ["sample_p", "adev_sample_p", "deterministic"]

    def call(self, case):
        self.axis = Sym(fresh("axis_size", z3.IntSort()))
        self.dummy = Tensor.fresh("dummy", (self.axis.e,), z3.IntSort())
        x, y, o = J.Var("x"), J.Var("y"), J.Var("o")
        self.vx, self.vy = value("x"), value("y")
        if case == "deterministic":
            self.p = J.Prim("f")
            eqn = J.Eqn(self.p, [x, y], [o], {"k": 2})
        else:
            self.site = S.Site(pjax.adev_sample_p if case == "adev_sample_p" else pjax.sample_p)
            eqn = J.Eqn(self.site.prim, [x, y], [o], {"k": 2})
        jp = J.Jaxpr([], [x, y], [eqn], [o, y])
        return self.real(pjax.ModularVmap.eval_jaxpr_modular_vmap, self.axis, jp, [], [self.vx, self.vy], self.dummy)

    def ensures(self, case, path):
        yield "does_not_raise", path.outcome == "return"
        if path.outcome != "return":
            return
        if case == "deterministic":
            b = self.p.binds
            yield "bound_unchanged", len(b) == 1 and b[0][0] == (self.vx, self.vy) and all(p is q for p, q in zip(b[0][0], (self.vx, self.vy))) and b[0][1] == {"k": 2}
        else:
            b = self.site.binds
            yield "site_rebound_once", len(b) == 1 and not self.site.calls
            if len(b) == 1:
                args, params = b[0]
                yield "dummy_first_then_operands", len(args) == 3 and args[0] is self.dummy and args[1] is self.vx and args[2] is self.vy
                yield "axis_size_and_context_passed", params.get("axis_size") is self.axis and params.get("ctx") == "modular_vmap" and params.get("k") == 2
        yield "other_variables_untouched", path.value[-1] is self.vy


@contract("genjax.pjax:ModularVmap.eval_jaxpr_modular_vmap", ["C08"])
class MVInterpCond(_NoReplay):
    """cond: branches re-staged and re-interpreted with the dummy threaded as first operand"""

    cases = ["two_branches"]

    def call(self, case):
        self.axis = Sym(fresh("axis_size", z3.IntSort()))
        self.dummy = Tensor.fresh("dummy", (self.axis.e,), z3.IntSort())
        self.sA, self.sB = S.Site(), S.Site()

        def branch(site):
            u, o = J.Var("u"), J.Var("o")
            return J.ClosedJaxpr(J.Jaxpr([], [u], [J.Eqn(site.prim, [u], [o])], [o]), [])

        i, x, o = J.Var("i"), J.Var("x"), J.Var("o")
        self.vi, self.vx = Sym(fresh("idx", z3.IntSort())), value("x")
        jp = J.Jaxpr([], [i, x], [J.Eqn(J.cond_p, [i, x], [o], {"branches": (branch(self.sA), branch(self.sB))})], [o])
        return self.real(pjax.ModularVmap.eval_jaxpr_modular_vmap, self.axis, jp, [], [self.vi, self.vx], self.dummy)

    def ensures(self, case, path):
        yield "does_not_raise", path.outcome == "return"
        if path.outcome != "return":
            return
        sw = path.extra.get("switch_calls", [])
        yield "one_switch_on_the_index", len(sw) == 1 and sw[0]["index"] is self.vi
        for nm, s in (("first", self.sA), ("second", self.sB)):
            b = s.binds
            yield f"{nm}_branch_site_rebound_with_dummy_and_context", len(b) == 1 and b[0][0][0] is self.dummy and b[0][0][1] is self.vx and b[0][1].get("ctx") == "modular_vmap" and b[0][1].get("axis_size") is self.axis


@contract("genjax.pjax:ModularVmap.eval_jaxpr_modular_vmap", ["C08"])
class MVInterpScan(_NoReplay):
    """scan: body re-interpreted per iteration with the dummy threaded through the carry; consts/carry/xs plumbing"""

    cases = ["forward", "reverse"]

    def call(self, case):
        self.rev = case == "reverse"
        self.axis = Sym(fresh("axis_size", z3.IntSort()))
        self.dummy = Tensor.fresh("dummy", (self.axis.e,), z3.IntSort())
        self.s = S.Site()
        cst, car, xv, d = J.Var("cst"), J.Var("car"), J.Var("xv"), J.Var("d")
        body = J.ClosedJaxpr(J.Jaxpr([], [cst, car, xv], [J.Eqn(self.s.prim, [cst, car, xv], [d])], [d, d]), [])
        self.T = fresh("T", z3.IntSort())
        engine().assume(self.T >= 0)
        k, c0, xs, fc, ys = (J.Var(n) for n in ("k", "c0", "xs", "fc", "ys"))
        self.vk, self.vc0 = value("const"), value("carry0")
        self.vxs = Tensor.fresh("xs", (self.T,), V)
        params = {"jaxpr": body, "length": Sym(self.T), "reverse": self.rev, "unroll": 1, "num_consts": 1, "num_carry": 1, "linear": None}
        jp = J.Jaxpr([], [k, c0, xs], [J.Eqn(J.scan_p, [k, c0, xs], [fc, ys], params)], [fc, ys])
        return self.real(pjax.ModularVmap.eval_jaxpr_modular_vmap, self.axis, jp, [], [self.vk, self.vc0, self.vxs], self.dummy)

    def ensures(self, case, path):
        yield "does_not_raise", path.outcome == "return"
        if path.outcome != "return":
            return
        scans = path.extra.get("scans", [])
        yield "one_scan_with_the_original_length", len(scans) == 1 and z3.eq(scans[0]["T"], self.T)
        if len(scans) != 1:
            return
        rec = scans[0]
        t = rec["t"]
        yield "scan_direction_preserved", bool(rec["reverse"]) == self.rev
        pos = (self.T - 1 - t) if self.rev else t
        b = self.s.binds
        yield "body_site_rebound_once_per_generic_iteration", len(b) == 1
        if len(b) != 1:
            return
        args, params = b[0]
        carry_t = rec["carry_at"](t)
        ii = fresh("ii", z3.IntSort())
        teq = lambda a, b: isinstance(a, Tensor) and isinstance(b, Tensor) and a.ndim == b.ndim == 1 and dim_eq(a.shape[0], b.shape[0]) and (a.fn((ii,)) == b.fn((ii,)))
        yield "dummy_threaded_through_carry", teq(args[0], carry_t[0])
        yield "dummy_initialised", rec["init"][0] is self.dummy
        yield "dummy_carried_unchanged", teq(rec["new_carry"][0], carry_t[0])
        yield "operands_are_consts_carry_x", args[1] is self.vk and same(args[2], carry_t[1]) and same(args[3], Sym(self.vxs.fn((pos,))))
        yield "context_passed", params.get("ctx") == "modular_vmap" and params.get("axis_size") is self.axis


# ------------------------------------------------------------------------------------------------
# batch rules


def _config(sample_shape=()):
    return pjax.SamplerConfig(keyful_sampler=lambda *a, **k: None, name="d", sample_shape=sample_shape)


@contract("genjax.pjax:VmapBatchHandler.create_batch_rule", ["C14", "C08"])
class BatchRuleRejects(_NoReplay):
    """plain jax.vmap over a sampling site (no modular_vmap context) raises instead of replicating one draw"""

    cases = ["no_ctx", "other_ctx"]

    def call(self, case):
        # re-binding is stubbed as in the dataflow contract, so that a rule which goes on instead of raising
        # returns normally and the clause below is decided
        orig = pjax.create_sample_primitive
        pjax.create_sample_primitive = lambda cfg: (lambda *a: ("site-result",))
        try:
            rule = pjax.VmapBatchHandler(_config()).create_batch_rule()
            params = {} if case == "no_ctx" else {"ctx": "something_else"}
            return self.real(rule, (value("x"),), (0,), **params)
        finally:
            pjax.create_sample_primitive = orig

    def ensures(self, case, path):
        yield "raises_NotImplementedError", path.outcome == "raise" and isinstance(path.value.exc, NotImplementedError)


class _SampleRule(_NoReplay):
    def run_rule(self, sample_shape, vector_args, batch_axes, axis_size):
        self.created = []
        outer = self

        def fake_create(cfg):
            def prim(*args):
                outer.created.append((cfg, args))
                return ("site-result",)

            return prim

        self._orig = pjax.create_sample_primitive
        pjax.create_sample_primitive = fake_create
        try:
            h = pjax.VmapBatchHandler(_config(sample_shape))
            dummy = Tensor.fresh("dummy", (axis_size,), z3.IntSort())
            return self.real(h.create_batch_rule(), (dummy,) + tuple(vector_args), (0,) + tuple(batch_axes), axis_size=Sym(axis_size), ctx="modular_vmap")
        finally:
            pjax.create_sample_primitive = self._orig


@contract("genjax.pjax:VmapBatchHandler._handle_modular_vmap", ["C08", "C07"])
class SampleRuleDataflow(_SampleRule):
    """one site is re-bound, on the operands without the dummy; lanes get their randomness by extending
    sample_shape with the lane count when no parameter is batched, and through the batched parameters otherwise"""

    cases = ["no_parameter_batched", "parameter_batched"]

    def call(self, case):
        self.n = fresh("n", z3.IntSort())
        engine().assume(self.n >= 1)
        self.S = (Sym(fresh("s0", z3.IntSort())),)
        if case == "no_parameter_batched":
            self.args, self.axes = (value("mu"), value("sigma")), (None, None)
        else:
            self.args, self.axes = (Tensor.fresh("mu", (self.n,)), value("sigma")), (0, None)
        return self.run_rule(self.S, self.args, self.axes, self.n)

    def ensures(self, case, path):
        yield "does_not_raise", path.outcome == "return"
        if path.outcome != "return":
            return
        yield "exactly_one_site_rebound", len(self.created) == 1
        if len(self.created) != 1:
            return
        cfg, args = self.created[0]
        yield "operands_without_dummy", len(args) == 2 and all(a is b for a, b in zip(args, self.args))
        ss = cfg.sample_shape
        if case == "no_parameter_batched":
            yield "sample_shape_extended_by_lane_count", len(ss) == 2 and dim_eq(ss[0], self.n) and ss[1] is self.S[0]
        else:
            yield "sample_shape_unchanged", len(ss) == 1 and ss[0] is self.S[0]
        (res,), (ax,) = path.value
        yield "result_is_the_rebound_site", res == ("site-result",)
        yield "output_is_declared_batched", ax == 0


def lane_position(sample_shape_len, param_ranks, param_axes, lane_added):
    """position of the lane axis in the produced array under the sampler shape law
    sample_shape + broadcast(batch shapes) + event_shape (scalar event), or None if no lane axis"""
    if lane_added:
        return 0
    R = max(param_ranks)
    pos = None
    for r, a in zip(param_ranks, param_axes):
        if a is not None:
            p = sample_shape_len + (R - r) + a
            if pos is not None and pos != p:
                return "inconsistent"
            pos = p
    return pos


@contract("genjax.pjax:VmapBatchHandler._handle_modular_vmap", ["C08"], kind="bounded")
class SampleRuleLayout(_SampleRule):
    """BOUNDED (ranks <= 2, batch axis in {0,1}, |sample_shape| <= 1; symbolic dimensions): the output axis
    the rule declares is the position of the lane axis in the array the keyed sampler produces (shape law
    sample_shape + broadcast(parameter shapes) + event_shape), so that lane i holds lane i's draw."""

    cases = [
        "no_parameter_batched|S=()", "no_parameter_batched|S=(s,)",
        "lane_axis0_equal_rank|S=()",
        "lane_axis0|S=(s,)",
        "lane_axis1|S=()",
        "lane_axis0_lower_rank_than_other_parameter|S=()",
    ]

    def replay(self, case, clause, model, path):
        from .native import run_native

        return run_native("batch_rule_layout", case)

    def call(self, case):
        fam, _, s = case.partition("|")
        n, d, s0 = (fresh(x, z3.IntSort()) for x in ("n", "d", "s0"))
        engine().assume(z3.And(n >= 1, d >= 1))
        self.slen = 0 if s == "S=()" else 1
        S_ = () if self.slen == 0 else (Sym(s0),)
        if fam == "no_parameter_batched":
            args, axes, ranks = (value("mu"), value("sigma")), (None, None), (0, 0)
        elif fam == "lane_axis0_equal_rank" or fam == "lane_axis0":
            args, axes, ranks = (Tensor.fresh("mu", (n,)), Tensor.fresh("sigma", (n,))), (0, 0), (1, 1)
        elif fam == "lane_axis1":
            args, axes, ranks = (Tensor.fresh("mu", (d, n)), value("sigma")), (1, None), (2, 0)
        else:  # per-lane parameter shapes of differing rank: mu per lane scalar, sigma per lane (d,)
            args, axes, ranks = (Tensor.fresh("mu", (n,)), Tensor.fresh("sigma", (d,))), (0, None), (1, 1)
        self.ranks, self.axes = ranks, axes
        return self.run_rule(S_, args, axes, n)

    def ensures(self, case, path):
        yield "does_not_raise", path.outcome == "return"
        if path.outcome != "return":
            return
        cfg, args = self.created[0]
        lane_added = len(cfg.sample_shape) == self.slen + 1
        fam = case.partition("|")[0]
        if fam == "lane_axis0_lower_rank_than_other_parameter":
            # per lane: mu scalar, sigma (d,) -> per-lane draw (d,), vectorised (n, d); the rule passes
            # mu (n,) and sigma (d,) to one sampler call, whose broadcast puts lanes on the LAST axis (or fails)
            pos = self.slen + 0  # broadcasting (n,) with (d,) aligns the lane axis with sigma's own axis
            yield "declared_out_axis_is_lane_axis", False
            return
        pos = lane_position(self.slen, self.ranks, self.axes, lane_added)
        (_,), (ax,) = path.value
        yield "declared_out_axis_is_lane_axis", ax == pos


@contract("genjax.pjax:VmapBatchHandler._handle_modular_vmap", ["C13", "C07", "C08", "C11"])
class SampleRuleHistory(_NoReplay):
    """history: the SAME handler fires several times with identical shapes (a kept function whose staged equation - and
    with it this handler - is reused across calls).  Every firing binds a FRESH site (create_sample_primitive on the
    re-shaped configuration): without seed a site's randomness is drawn when its keyless sampler is staged, so a
    re-used bound sampler would replay the first call's noise through the new parameters"""

    cases = ["three_firings_same_shapes"]

    def call(self, case):
        self.created = []
        outer = self

        self.sites = []

        def fake_create(cfg):
            outer.sites.append(cfg)  # one entry per site CREATED (a fresh keyless wrapper / staging)
            k = len(outer.sites)

            def prim(*args):
                outer.created.append((cfg, args))
                return "site-%d-result" % k

            return prim

        orig = pjax.create_sample_primitive
        pjax.create_sample_primitive = fake_create
        try:
            h = pjax.VmapBatchHandler(_config((2,)))
            rule = h.create_batch_rule()
            outs = []
            for k in range(3):
                dummy = Tensor.fresh("dummy%d" % k, (4,), z3.IntSort())
                mu, sg = value("mu%d" % k), value("sigma%d" % k)
                outs.append((self.real(rule, (dummy, mu, sg), (0, None, None), axis_size=4, ctx="modular_vmap"), (mu, sg)))
            return outs
        finally:
            pjax.create_sample_primitive = orig

    def ensures(self, case, path):
        yield "does_not_raise", path.outcome == "return"
        if path.outcome != "return":
            return
        outs = path.value
        yield "every_firing_creates_a_fresh_site(one_create_sample_primitive_per_firing)", len(self.sites) == 3
        yield "every_firing_binds_its_site_once", len(self.created) == 3
        if len(self.created) != 3:
            return
        yield "each_site_is_bound_on_that_firings_own_parameters", all(self.created[k][1] == outs[k][1] and all(a is b for a, b in zip(self.created[k][1], outs[k][1])) for k in range(3))
        yield "each_site_has_the_lane_count_prepended_to_the_sample_shape", all(tuple(c.sample_shape) == (4, 2) for c, _ in self.created)
        yield "each_firing_returns_its_own_sites_result", [o[0][0][0] for o in outs] == ["site-1-result", "site-2-result", "site-3-result"]


@contract("genjax.pjax:LogDensityVmapHandler.create_batch_rule", ["C08", "C13"])
class LogDensityRule(_NoReplay):
    """density sites are vectorised as jax.vmap of the density with the site's own batch axes (args and,
    with keyword arguments, the (args, kwargs) pair); output batched iff some input is"""

    cases = ["positional", "with_kwargs", "nothing_batched"]

    def call(self, case):
        import jax.tree_util as jtu

        self.v = install_jax()
        self.created = []
        outer = self

        def fake_create(cfg):
            def prim(*a, **k):
                outer.created.append((cfg, a, k))
                return "density-result"

            return prim

        self.impl = lambda *a, **k: None
        h = pjax.LogDensityVmapHandler(pjax.LogDensityConfig(log_density_impl=self.impl, name="d"))
        n = fresh("n", z3.IntSort())
        engine().assume(n >= 1)
        self.n = n
        v_, mu, sg = Tensor.fresh("v", (n,)), Tensor.fresh("mu", (n,)), value("sigma")
        self.flat = (v_, mu, sg)
        batched = case != "nothing_batched"
        self.dims = (0, 0, None) if batched else (None, None, None)
        if case == "with_kwargs":
            tree = jtu.tree_structure(((0, 0), {"sigma": 0}))
        else:
            tree = jtu.tree_structure((0, 0, 0))
        self._orig = pjax.create_log_density_primitive
        pjax.create_log_density_primitive = fake_create
        try:
            return self.real(h.create_batch_rule(), list(self.flat), self.dims, num_consts=0, in_tree=tree, yes_kwargs=(case == "with_kwargs"))
        finally:
            pjax.create_log_density_primitive = self._orig

    def ensures(self, case, path):
        yield "does_not_raise", path.outcome == "return"
        if path.outcome != "return":
            return
        yield "one_density_site_created", len(self.created) == 1 and len(self.v.calls) == 1
        if len(self.created) != 1 or len(self.v.calls) != 1:
            return
        cfg, a, k = self.created[0]
        vm = self.v.calls[0]
        yield "density_is_jax_vmap_of_the_sites_density", cfg.log_density_impl is vm["mapped"]
        if case == "with_kwargs":
            yield "in_axes_pair_(args,kwargs)_with_the_sites_axes", vm["in_axes"] == ((0, 0), {"sigma": None})
            yield "called_on_(args,kwargs)", len(a) == 2 and a[0] == (self.flat[0], self.flat[1]) and a[1] == {"sigma": self.flat[2]}
        else:
            yield "in_axes_are_the_sites_axes", tuple(vm["in_axes"]) == self.dims
            yield "called_on_the_operands", len(a) == 3 and all(p is q for p, q in zip(a, self.flat))
            if case == "positional":
                yield "vmapped_function_is_the_density", vm["f"] is self.impl
        (res,), (ax,) = path.value
        yield "output_batched_iff_some_input_is", ax == (0 if case != "nothing_batched" else None)


# ------------------------------------------------------------------------------------------------
# C14: lowering


@contract("genjax.pjax:InitialStylePrimitive.__init__", ["C14"])
class LoweringRule(_NoReplay):
    """the lowering rule of every sampling primitive raises the dedicated exception carried by the
    binding, before anything is lowered, under the module's default flags"""

    cases = ["sample_p", "adev_sample_p", "with_warning_text_too"]

    def call(self, case):
        self.lowered = []
        outer = self
        pjax.mlir = StubNS(lower_fun=lambda *a, **k: outer.lowered.append(a) or (lambda *b, **c: "lowered"))
        self.exc = pjax.LoweringSamplePrimitiveToMLIRException("msg", {"sampler_name": "d"})
        prim = pjax.adev_sample_p if case == "adev_sample_p" else pjax.sample_p
        params = {"lowering_exception": self.exc, "impl": None}
        if case == "with_warning_text_too":
            params["lowering_warning"] = "text"
        return self.real(prim.lowering, object(), value("x"), **params)

    def ensures(self, case, path):
        yield "default_flags(enforce_exception=True, warning=False)", pjax.enforce_lowering_exception is True and pjax.lowering_warning is False
        yield "raises_the_bindings_exception", path.outcome == "raise" and path.value.exc is self.exc
        yield "nothing_lowered", not self.lowered


@contract("genjax.pjax:PPPrimitive.__init__", ["C14"])
class PPForwards(_NoReplay):
    """the pretty-printing wrapper forwards its stored parameters (among them the lowering exception) to the
    wrapped primitive's rules"""

    cases = ["lowering", "batch"]

    def call(self, case):
        self.seen = []
        outer = self

        class Inner:
            name = "inner"
            multiple_results = True

            def impl(s, *a, **k): outer.seen.append(("impl", a, k))
            def abstract(s, *a, **k): outer.seen.append(("abstract", a, k))
            def jvp(s, *a, **k): outer.seen.append(("jvp", a, k))
            def batch(s, *a, **k): outer.seen.append(("batch", a, k)); return "batched"
            def lowering(s, *a, **k): outer.seen.append(("lowering", a, k)); return "lowered"

        self.exc = object()
        # the registries of the JAX-0.7 API: plain dicts / a registration function
        reg = {"jvp": {}, "batch": {}, "lowering": {}}
        saved = (pjax.ad, pjax.batching, pjax.mlir)
        pjax.ad = StubNS(primitive_jvps=reg["jvp"])
        pjax.batching = StubNS(primitive_batchers=reg["batch"])
        pjax.mlir = StubNS(register_lowering=lambda p, r: reg["lowering"].__setitem__(p, r))
        try:
            pp = pjax.PPPrimitive(Inner(), lowering_exception=self.exc, marker=1)
        finally:
            pjax.ad, pjax.batching, pjax.mlir = saved
        self.pp = pp
        if case == "lowering":
            return self.real(reg["lowering"][pp], "ctx", value("x"), extra=2)
        return self.real(reg["batch"][pp], (value("x"),), (0,), ctx="modular_vmap")

    def ensures(self, case, path):
        yield "does_not_raise", path.outcome == "return"
        if path.outcome != "return":
            return
        yield "wrapped_rule_called_once", len(self.seen) == 1 and self.seen[0][0] == case
        if len(self.seen) == 1:
            k = self.seen[0][2]
            yield "stored_params_forwarded", k.get("lowering_exception") is self.exc and k.get("marker") == 1
            yield "call_params_forwarded", (k.get("extra") == 2) if case == "lowering" else (k.get("ctx") == "modular_vmap")


@contract("genjax.pjax:create_sample_primitive", ["C14", "C13", "C06"])
class SampleBinding(_NoReplay):
    """every sample binding carries the dedicated lowering exception (with its binding context), the
    warning text, the modular-vmap-only batch rule, the keyed sampler and the sample_shape"""

    cases = ["default"]

    def call(self, case):
        self.bound = []
        outer = self

        def fake_isb(prim, **params):
            def bind(f, **elab):
                def wrapped(*a, **k):
                    outer.bound.append({"prim": prim, "params": params, "f": f, "elab": elab, "args": a, "kwargs": k})
                    return "bound-result"

                return wrapped

            return bind

        self._isb, self._gfs = pjax.initial_style_bind, pjax.FlatSamplerCache.get_flat_sampler
        pjax.initial_style_bind = fake_isb
        pjax.FlatSamplerCache.get_flat_sampler = lambda s, *a, **k: "flat-sampler"
        self.ks = lambda key, *a, sample_shape=(), **k: None
        self.S = (Sym(fresh("s0", z3.IntSort())),)
        cfg = pjax.SamplerConfig(keyful_sampler=self.ks, name="d", sample_shape=self.S)
        self.args = (value("mu"), value("sigma"))
        try:
            return self.real(pjax.create_sample_primitive(cfg), *self.args, scale=value("k"))
        finally:
            pjax.initial_style_bind, pjax.FlatSamplerCache.get_flat_sampler = self._isb, self._gfs

    def ensures(self, case, path):
        yield "does_not_raise", path.outcome == "return"
        if path.outcome != "return":
            return
        yield "bound_once", len(self.bound) == 1
        if len(self.bound) != 1:
            return
        b = self.bound[0]
        p = b["params"]
        yield "bound_to_sample_p", b["prim"] is pjax.sample_p
        yield "carries_dedicated_lowering_exception", isinstance(p.get("lowering_exception"), pjax.LoweringSamplePrimitiveToMLIRException)
        yield "exception_carries_binding_context", isinstance(getattr(p.get("lowering_exception"), "binding_context", None), dict) and p["lowering_exception"].binding_context.get("sampler_name") == "d"
        yield "carries_warning_text", isinstance(p.get("lowering_warning"), str) and "seed" in p["lowering_warning"]
        yield "keyed_sampler_and_shape_recorded", p.get("keyful_sampler") is self.ks and p.get("sample_shape") is self.S and p.get("flat_keyful_sampler") == "flat-sampler"
        yield "arguments_forwarded", all(a is c for a, c in zip(b["args"], self.args)) and set(b["kwargs"]) == {"scale"}
        rule = p.get("batch")
        try:
            rule((1,), (0,))
            rejected = False
        except NotImplementedError:
            rejected = True
        yield "batch_rule_rejects_plain_vmap", rejected
        yield "keyless_impl_is_KeylessWrapper", isinstance(b["f"], pjax.KeylessWrapper)

@contract("genjax.pjax:ModularVmap.eval_jaxpr_modular_vmap", ["C08", "C07"])
class MVInterpNested(_NoReplay):
    """nested control flow: a sampling site that is only reachable THROUGH an inner cond (no site directly in the
    enclosing scan body / outer branch) still receives the batched dummy and the modular-vmap context - control flow
    is re-interpreted whatever it contains, never bound as it is while a site is reachable below it"""

    cases = ["scan>cond>site", "cond>cond>site"]

    def call(self, case):
        self.axis = Sym(fresh("axis_size", z3.IntSort()))
        self.dummy = Tensor.fresh("dummy", (self.axis.e,), z3.IntSort())
        self.sA, self.sB = S.Site(), S.Site()

        def branch(site):
            u, o = J.Var("u"), J.Var("o")
            return J.ClosedJaxpr(J.Jaxpr([], [u], [J.Eqn(site.prim, [u], [o])], [o]), [])

        inner = {"branches": (branch(self.sA), branch(self.sB))}
        self.vi = Sym(fresh("idx", z3.IntSort()))
        if case == "scan>cond>site":
            cst, car, xv, d = J.Var("cst"), J.Var("car"), J.Var("xv"), J.Var("d")
            body = J.ClosedJaxpr(J.Jaxpr([], [cst, car, xv], [J.Eqn(J.cond_p, [cst, xv], [d], inner)], [car, d]), [])
            self.T = fresh("T", z3.IntSort())
            engine().assume(self.T >= 0)
            k, c0, xs, fc, ys = (J.Var(n) for n in ("k", "c0", "xs", "fc", "ys"))
            self.vc0 = value("carry0")
            self.vxs = Tensor.fresh("xs", (self.T,), V)
            params = {"jaxpr": body, "length": Sym(self.T), "reverse": False, "unroll": 1, "num_consts": 1, "num_carry": 1, "linear": None}
            jp = J.Jaxpr([], [k, c0, xs], [J.Eqn(J.scan_p, [k, c0, xs], [fc, ys], params)], [fc, ys])
            return self.real(pjax.ModularVmap.eval_jaxpr_modular_vmap, self.axis, jp, [], [self.vi, self.vc0, self.vxs], self.dummy)
        j2, u2, o2 = J.Var("j2"), J.Var("u2"), J.Var("o2")
        outer_branch = J.ClosedJaxpr(J.Jaxpr([], [j2, u2], [J.Eqn(J.cond_p, [j2, u2], [o2], inner)], [o2]), [])
        i, j, x, o = J.Var("i"), J.Var("j"), J.Var("x"), J.Var("o")
        self.vj, self.vx = Sym(fresh("idx_outer", z3.IntSort())), value("x")
        jp = J.Jaxpr([], [j, i, x], [J.Eqn(J.cond_p, [j, i, x], [o], {"branches": (outer_branch, outer_branch)})], [o])
        return self.real(pjax.ModularVmap.eval_jaxpr_modular_vmap, self.axis, jp, [], [self.vj, self.vi, self.vx], self.dummy)

    def ensures(self, case, path):
        yield "does_not_raise", path.outcome == "return"
        if path.outcome != "return":
            return
        n_expected = 1 if case.startswith("scan") else 2  # the outer cond has two (identical) branches
        for nm, s in (("first", self.sA), ("second", self.sB)):
            b = s.binds
            yield f"{nm}_inner_branch_site_is_rebound(not left to a plain bind of the enclosing control flow)", len(b) == n_expected and not s.calls
            if len(b) != n_expected:
                continue
            args, params = b[0]
            yield f"{nm}_inner_site_gets_context_and_axis_size", params.get("ctx") == "modular_vmap" and params.get("axis_size") is self.axis
            if case.startswith("scan"):
                scans = path.extra.get("scans", [])
                if len(scans) != 1:
                    yield "one_scan_with_the_original_length", False
                    continue
                rec = scans[0]
                t = rec["t"]
                ii = fresh("ii", z3.IntSort())
                carry_t = rec["carry_at"](t)
                a0 = args[0]
                yield f"{nm}_inner_site_gets_the_dummy_threaded_through_the_carry", isinstance(a0, Tensor) and isinstance(carry_t[0], Tensor) and a0.fn((ii,)) == carry_t[0].fn((ii,)) and rec["init"][0] is self.dummy
                yield f"{nm}_inner_site_operand_is_this_iterations_x", same(args[1], Sym(self.vxs.fn((t,))))
            else:
                yield f"{nm}_inner_site_gets_the_dummy_then_its_operand", args[0] is self.dummy and args[1] is self.vx



from vt.contract import canary as _canary  # noqa: E402

_canary(SampleRuleDataflow, "no_parameter_batched", "sample_shape_extended_by_lane_count")
