"""Sidecar contracts on the real functions of femtomc/genjax (the repository is not edited)."""

# property -> contract modules that carry obligations for it
PROPERTY_MODULES = {
    "C16": ["selection", "choicemap", "core_gfi", "combinators", "mcmc", "fn_whole"],
    "C08": ["combinators", "pjax_vmap", "extra", "extra2"],
    "C14": ["seed", "pjax_vmap", "state", "extra", "extra2"],
    "C19": ["state", "extra", "extra2"],
    "C20": ["state_space", "state_space2"],
    "C11": ["adev", "extra", "extra2", "adev2", "pjax_vmap"],
    "C15": ["adev", "extra", "extra2", "adev2"],
    "C13": ["distributions", "pjax_vmap", "extra", "extra2", "adev2"],
    "C17": ["vi", "choicemap", "core_gfi", "adev", "adev2"],
    "C10": ["smc", "core_gfi", "combinators", "lemmas", "extra", "fn_whole"],
    "C12": ["smc"],
    "C18": ["mcmc", "state"],
    "C09": ["mcmc", "core_gfi", "combinators", "choicemap", "selection", "fn_whole"],
    "C06": ["seed", "extra", "extra2", "adev2"],
    "C07": ["seed", "extra", "pjax_vmap", "extra2"],
    "C01": ["core_gfi", "combinators", "lemmas", "choicemap", "extra2", "fn_whole"],
    "C02": ["core_gfi", "combinators", "lemmas", "pjax_vmap", "extra2", "fn_whole"],
    "C03": ["core_gfi", "combinators", "lemmas", "choicemap", "extra2", "fn_whole"],
    "C04": ["core_gfi", "combinators", "selection", "extra2", "fn_whole"],
    "C05": ["core_gfi", "combinators", "lemmas", "mcmc", "extra", "choicemap", "extra2", "fn_whole", "selection", "smc"],
}

A_REAL = "A-REAL: machine floats are treated as mathematical reals and ints as mathematical ints (no rounding, overflow, nan/inf)"
A_BODY = "A-BODY: a @gen body is a deterministic function of its arguments and of the values returned by its @ sites, interacts with the handler only through trace(...), and terminates"
A_LOADER = "loader: genjax/__init__.py is not executed (drops beartype's run-time type-check decorators only); every function object is compiled by CPython from /repo/src/genjax/*.py of the working tree"
A_META = "meta-rules: structural induction over generative-function / selection objects, object-invariant rule for handlers, loop-invariant rule for `for`/scan"

STANDING_ASSUMPTIONS = {
    "C16": [A_LOADER, A_META, "Python semantics of dict iteration: `for k, v in x.items()` visits every key exactly once"],
}

EXPLANATION = {
    "C16": "Every selection class's match() is executed (real code) on a symbolic address with abstract sub-selections and proved to satisfy the match contract against the denotation Sel(s,p) written from the property; structural induction gives the Boolean algebra for all expressions and all path lengths.",
}
