"""C01–C05, C08: the GFI contract proved of Vmap, Scan, Cond (and ScanTr / CondTr accessors) with
abstract callees (modular verification: the callee is nothing but the GFI contract).

Spec (DESIGN §4.2, from the property texts):
  D_Vmap(a, x) = Sum_i D_h(a_i, x_i)            R_Vmap = stack_i R_h(a_i, x_i)
  D_Scan(a, x) = Sum_t D_h((c_t, xs_t), x_t),   c_0 = init, c_{t+1} = R_h(...)[0];  R = (c_T, stack R_h(...)[1])
  D_Cond((check, a), x) = check ? D_h(a, x) : D_h'(a, x)      R likewise
"""
from __future__ import annotations

import z3

from vt import loader
from vt.contract import Contract, contract
from vt.gfi import AbsGF, AbsTrace, FstV, LaneNonce, SndV, enc, enc_args, sel_id
from vt.sym import EngineLimit, Sym, V, _lift, boolean, engine, fresh, real, value
from vt.tensor import Tensor, mk_sum
from . import _patch  # noqa: F401
from .core_gfi import args_recorded, battery_replay, same
from .selection import AbsSel, mk_selection, CONCRETE_SEL

core = loader.load("core")


def lane_of(x, j):
    """lane j of a stacked leaf (Sym int/z3 term j)"""
    if isinstance(x, Tensor):
        return Sym(x.fn((j,))) if x.ndim == 1 else x[Sym(j)]
    return x


def vec(name, n, sort=V):
    return Tensor.fresh(name, (n,), sort)


# ================================================================================================
# Vmap


class _VmapBase(Contract):
    def replay(self, case, clause, model, path):
        return battery_replay("vmap_kwargs" if "kwargs" in case else "vmap_int_axes")

    AXES = {"in_axes=0(default)": 0, "in_axes=(0,None)": (0, None), "in_axes=None(repeat)": None,
            "in_axes=({p:0,q:None},None)": ({"p": 0, "q": None}, None)}
    cases = list(AXES) + ["in_axes=(0,None)+kwargs"]

    def mk(self, case):
        eng = engine()
        self.with_kwargs = case.endswith("+kwargs")
        self.axes = self.AXES[case.replace("+kwargs", "")]
        self.n = fresh("n", z3.IntSort())
        eng.assume(self.n >= 1)
        self.g = AbsGF("h")
        n = self.n
        if self.axes == 0:
            self.args = (vec("a0", n), vec("a1", n))
            self.lane_args = lambda j: (lane_of(self.args[0], j), lane_of(self.args[1], j))
            size = None
        elif self.axes == (0, None):
            self.args = (vec("a0", n), value("a1"))
            self.lane_args = lambda j: (lane_of(self.args[0], j), self.args[1])
            size = None
        elif isinstance(self.axes, tuple):  # an entry that is itself a pytree of axes
            self.args = ({"p": vec("a0p", n), "q": value("a0q")}, value("a1"))
            self.lane_args = lambda j: ({"p": lane_of(self.args[0]["p"], j), "q": self.args[0]["q"]}, self.args[1])
            size = None
        else:
            self.args = (value("a0"), value("a1"))
            self.lane_args = lambda j: self.args
            size = Sym(n)
        self.kwargs = {"kw": value("kw")} if self.with_kwargs else {}
        self.vm = core.Vmap(self.g, core.Const(self.axes), core.Const(size), core.Const(None), core.Const(None))
        self.j = fresh("j", z3.IntSort())
        eng.assume(z3.And(self.j >= 0, self.j < n))

    def a_lane(self, j):
        return enc_args(self.lane_args(j), self.kwargs)

    def old_trace(self):
        """vectorised coherent old trace: lane i is a coherent callee trace under old lane arguments"""
        n = self.n
        self.x0 = vec("x_old", n)
        self.aold = vec("args_old", n)  # encoded old lane arguments (abstract)
        g = self.g
        score = Tensor((n,), lambda idx: -g.D(self.aold.fn(idx), self.x0.fn(idx)))
        ret = Tensor((n,), lambda idx: g.R(self.aold.fn(idx), self.x0.fn(idx)))
        self.tr0 = AbsTrace(g, self.aold, self.x0, ret, score)
        return self.tr0

    def vmap_call(self, path, method, lead_axes):
        """the combinator is `modular_vmap(callee.<method>, in_axes = lead_axes + user axes, axis_size)`"""
        calls = path.extra.get("vmap_calls", [])
        if len(calls) != 1:
            return False
        c = calls[0]
        f = c["f"]
        ok_f = getattr(f, "__self__", None) is self.g and getattr(f, "__name__", "") == method
        user = self.axes
        nargs = len(self.args)
        exp = tuple(lead_axes) + ((None,) * nargs if user is None else ((user,) * nargs if isinstance(user, int) else tuple(user)))
        got = c["in_axes"]
        if isinstance(got, int) or got is None:
            got = (got,) * (len(lead_axes) + nargs)
        return ok_f and tuple(got) == exp


def _kw_guard(self, path):
    """kwargs case: the property covers keyword arguments; the call must not fail"""
    return path.outcome == "return"


@contract("genjax.core:Vmap.simulate", ["C01", "C08"])
class VmapSimulate(_VmapBase):
    def call(self, case):
        self.mk(case)
        return self.real(self.fn, self.vm, *self.args, **self.kwargs)

    def ensures(self, case, path):
        yield "does_not_raise", path.outcome == "return"
        if path.outcome != "return":
            return
        tr = path.value
        g, j = self.g, self.j
        yield "is_lanewise_map_of_callee_simulate", self.vmap_call(path, "simulate", ())
        x = tr.get_choices()
        yield "lane_choice_is_independent_draw_for_lane_arguments", isinstance(x, Tensor) and same(
            lane_of(x, j), Sym(g.DrawF(self.a_lane(j), LaneNonce(z3.IntVal(1), j)))
        )
        yield "score_is_minus_sum_of_lane_densities", same(
            tr.get_score(), Sym(-mk_sum(self.n, lambda i: g.D(self.a_lane(i), x.fn((i,)))))
        )
        yield "retval_is_stack_of_lane_retvals", same(lane_of(tr.get_retval(), j), Sym(g.R(self.a_lane(j), x.fn((j,)))))


@contract("genjax.core:Vmap.assess", ["C01", "C08"])
class VmapAssess(_VmapBase):
    def call(self, case):
        self.mk(case)
        self.x = vec("x", self.n)
        return self.real(self.fn, self.vm, self.x, *self.args, **self.kwargs)

    def ensures(self, case, path):
        yield "does_not_raise", path.outcome == "return"
        if path.outcome != "return":
            return
        dens, ret = path.value
        g, j = self.g, self.j
        yield "is_lanewise_map_of_callee_assess(x_mapped_along_0)", self.vmap_call(path, "assess", (0,))
        yield "density_is_sum_of_lane_densities", same(dens, Sym(mk_sum(self.n, lambda i: g.D(self.a_lane(i), self.x.fn((i,))))))
        yield "retval_is_stack_of_lane_retvals", same(lane_of(ret, j), Sym(g.R(self.a_lane(j), self.x.fn((j,)))))


@contract("genjax.core:Vmap.generate", ["C02", "C08", "C10"])
class VmapGenerate(_VmapBase):
    cases = [c + s for c in _VmapBase.cases for s in ("", "|constraint=None")]

    def call(self, case):
        base, _, none = case.partition("|")
        self.mk(base)
        self.x = None if none else vec("x", self.n)
        return self.real(self.fn, self.vm, self.x, *self.args, **self.kwargs)

    def ensures(self, case, path):
        yield "does_not_raise", path.outcome == "return"
        if path.outcome != "return":
            return
        tr, w = path.value
        g, j = self.g, self.j
        yield "is_lanewise_map_of_callee_generate(constraints_mapped_along_0)", self.vmap_call(path, "generate", (0,))
        xs = tr.get_choices()
        yield "lane_traces_coherent", same(
            tr.get_score(), Sym(-mk_sum(self.n, lambda i: g.D(self.a_lane(i), xs.fn((i,)))))
        )
        if self.x is None:
            yield "weight_zero_when_unconstrained", same(w, 0.0)
        else:
            nu = lambda i: LaneNonce(z3.IntVal(1), i)
            yield "weight_is_sum_of_lane_weights", same(
                w, Sym(mk_sum(self.n, lambda i: g.GenW(self.a_lane(i), self.x.fn((i,)), nu(i))))
            )


@contract("genjax.core:Vmap.update", ["C03", "C05", "C08"])
class VmapUpdate(_VmapBase):
    cases = [c + s for c in _VmapBase.cases for s in ("", "|constraint=None")]

    def call(self, case):
        base, _, none = case.partition("|")
        self.mk(base)
        tr = self.old_trace()
        self.c = None if none else vec("c", self.n)
        return self.real(self.fn, self.vm, tr, self.c, *self.args, **self.kwargs)

    def ensures(self, case, path):
        yield "does_not_raise", path.outcome == "return"
        if path.outcome != "return":
            return
        tr, w, d = path.value
        g, j, n = self.g, self.j, self.n
        yield "is_lanewise_map_of_callee_update(trace_and_constraints_mapped_along_0)", self.vmap_call(path, "update", (0, 0))
        x2 = lambda i: (self.x0.fn((i,)) if self.c is None else g.UpdX(self.x0.fn((i,)), self.c.fn((i,))))
        xs = tr.get_choices()
        yield "lane_choices", same(lane_of(xs, j), Sym(x2(j)))
        yield "new_trace_coherent", same(tr.get_score(), Sym(-mk_sum(n, lambda i: g.D(self.a_lane(i), x2(i)))))
        yield "weight_is_sum_of_lane_density_ratios", same(
            w, Sym(mk_sum(n, lambda i: g.D(self.a_lane(i), x2(i)) - g.D(self.aold.fn((i,)), self.x0.fn((i,)))))
        )
        if self.c is not None:
            yield "discard_is_stack_of_lane_discards", same(lane_of(d, j), Sym(g.UpdD(self.x0.fn((j,)), self.c.fn((j,)))))


@contract("genjax.core:Vmap.regenerate", ["C04", "C05", "C08"])
class VmapRegenerate(_VmapBase):
    cases = _VmapBase.cases + ["in_axes=0(default):" + c for c in CONCRETE_SEL]

    def call(self, case):
        self.mk(case.split(":sel=")[0])
        tr = self.old_trace()
        self.s = mk_selection(case)
        return self.real(self.fn, self.vm, tr, self.s, *self.args, **self.kwargs)

    def ensures(self, case, path):
        yield "does_not_raise", path.outcome == "return"
        if path.outcome != "return":
            return
        tr, w, d = path.value
        g, j, n = self.g, self.j, self.n
        yield "is_lanewise_map_of_callee_regenerate(trace_mapped,selection_shared)", self.vmap_call(path, "regenerate", (0, None))
        se = sel_id(self.s)
        nu = lambda i: LaneNonce(z3.IntVal(1), i)
        x2 = lambda i: g.RegX(self.a_lane(i), self.x0.fn((i,)), se, nu(i))
        yield "lane_choices", same(lane_of(tr.get_choices(), j), Sym(x2(j)))
        yield "new_trace_coherent", same(tr.get_score(), Sym(-mk_sum(n, lambda i: g.D(self.a_lane(i), x2(i)))))
        aold = lambda i: self.aold.fn((i,))
        mh = lambda i: (g.D(self.a_lane(i), x2(i)) - g.D(aold(i), self.x0.fn((i,)))) - (
            g.P(self.a_lane(i), x2(i), se) - g.P(aold(i), self.x0.fn((i,)), se)
        )
        yield "weight_is_sum_of_lane_MH_weights", same(w, Sym(mk_sum(n, mh)))


@contract("genjax.core:Vmap.filter", ["C16", "C08"])
class VmapFilter(_VmapBase):
    cases = ["in_axes=0(default)"]

    def call(self, case):
        self.mk(case)
        self.x = vec("x", self.n)
        self.s = core.Selection(AbsSel.fresh("S"))
        FP = z3.Function(engine().fresh_name("FilterPlus"), V, V, V)
        FM = z3.Function(engine().fresh_name("FilterMinus"), V, V, V)
        self.FP, self.FM = FP, FM
        g = self.g
        g.filter = lambda x, s: (Sym(FP(enc(x), sel_id(s))), Sym(FM(enc(x), sel_id(s))))
        g.filter.__func__ = None
        self._f = g.filter
        return self.real(self.fn, self.vm, self.x, self.s)

    def ensures(self, case, path):
        yield "does_not_raise", path.outcome == "return"
        if path.outcome != "return":
            return
        sp, sm = path.value
        calls = path.extra.get("vmap_calls", [])
        yield "is_lanewise_map_of_callee_filter(choices_mapped,selection_shared)", len(calls) == 1 and calls[0]["f"] is self._f and tuple(calls[0]["in_axes"]) == (0, None)
        j = self.j
        se = sel_id(self.s)
        yield "lane_parts_are_callee_parts", z3.And(
            same(lane_of(sp, j), Sym(self.FP(self.x.fn((j,)), se))), same(lane_of(sm, j), Sym(self.FM(self.x.fn((j,)), se)))
        )


@contract("genjax.core:Vmap.merge", ["C16", "C01", "C08"])
class VmapMerge(_VmapBase):
    cases = ["check", "no_check"]

    def call(self, case):
        self.mk("in_axes=0(default)")
        self.x, self.y = vec("x", self.n), vec("y", self.n)
        self.c = vec("check", self.n, z3.BoolSort()) if case == "check" else None
        return self.real(self.fn, self.vm, self.x, self.y, self.c)

    def ensures(self, case, path):
        yield "does_not_raise", path.outcome == "return"
        if path.outcome != "return":
            return
        m, d = path.value
        j, g = self.j, self.g
        if self.c is not None:
            yield "lanewise_where(check, x, x_)", same(lane_of(m, j), Sym(z3.If(self.c.fn((j,)), self.x.fn((j,)), self.y.fn((j,)))))
            yield "no_discard", d is None
        else:
            yield "lanewise_callee_merge", same(lane_of(m, j), Sym(g.MergeF(self.x.fn((j,)), self.y.fn((j,)), enc(None))))
            yield "lanewise_callee_discard", same(lane_of(d, j), Sym(g.MergeD(self.x.fn((j,)), self.y.fn((j,)))))


@contract("genjax.core:GFI.vmap", ["C08"])
class GFIVmap(Contract):
    cases = ["vmap", "repeat"]

    def call(self, case):
        from vt.gfi import abstract_distribution

        self.g = abstract_distribution("d")[0]
        f = core.GFI.repeat if case == "repeat" else core.GFI.vmap
        if case == "repeat":
            self.nn = Sym(fresh("n", z3.IntSort()))
            return self.real(f, self.g, self.nn)
        return self.real(f, self.g, (0, None), None)

    def ensures(self, case, path):
        yield "does_not_raise", path.outcome == "return"
        if path.outcome != "return":
            return
        v = path.value
        yield "is_Vmap_of_self", isinstance(v, core.Vmap) and v.gen_fn is self.g
        if case == "repeat":
            yield "repeat_maps_nothing_with_axis_size_n", v.in_axes.value is None and v.axis_size.value is self.nn
        else:
            yield "axes_and_size_stored", v.in_axes.value == (0, None) and v.axis_size.value is None


# ================================================================================================
# Scan


class _ScanBase(Contract):
    def replay(self, case, clause, model, path):
        return battery_replay("scan_regenerate", "scan_python_int_carry")

    cases = ["args_only", "with_kwargs"]

    def mk(self, case):
        eng = engine()
        self.T = fresh("T", z3.IntSort())
        eng.assume(self.T >= 0)
        self.g = AbsGF("h", pair_retval=True, discard_kind=getattr(self, "discard_kind", "value"), carry_kind="float" if "python_int_initial_carry" in case else None)
        # "python_int_initial_carry": Scan(step)(0, xs) with a step that hands back a FLOAT carry - JAX promotes the weakly
        # typed 0, so it is the same model as starting from 0.0: nothing may be truncated to an integer
        self.init = 0 if "python_int_initial_carry" in case else value("init")
        self.xs = vec("xs", self.T)
        self.args = (self.init, self.xs)
        self.kwargs = {"kw": value("kw")} if "with_kwargs" in case else {}
        self.sc = core.Scan(self.g, core.Const(Sym(self.T)))

    def scan_rec(self, path):
        scans = path.extra.get("scans", [])
        if len(scans) != 1:
            raise EngineLimit("expected exactly one scan, got %d" % len(scans))
        return scans[0]

    def a_step(self, rec, t):
        """encoded callee arguments at step t: (carry_t, xs_t, **kwargs)"""
        carry = rec["carry_at"](t)
        return enc_args((carry, Sym(self.xs.fn((t,)))), self.kwargs)

    def threading(self, rec, x_at):
        """the carry handed to the next iteration is the callee's returned carry: c_{t+1} = R(...)[0]"""
        t = rec["t"]
        new = rec["new_carry"]
        a_t = self.a_step(rec, t)
        r = self.g.R(a_t, x_at(t))
        return isinstance(new, Sym) and same(new, Sym(self.g.CarryF(r) if self.g.carry_kind == "float" else FstV(r)))

    def old_trace(self):
        T, g = self.T, self.g
        self.x0 = vec("x_old", T)
        self.aold = vec("args_old", T)
        score = Tensor((T,), lambda idx: -g.D(self.aold.fn(idx), self.x0.fn(idx)))
        ret = Tensor((T,), lambda idx: g.R(self.aold.fn(idx), self.x0.fn(idx)))
        traces = AbsTrace(g, self.aold, self.x0, ret, score)
        self.tr0 = core.ScanTr(self.sc, ((value("init_old"), vec("xs_old", T)), {}), traces, value("carry_old"), vec("outs_old", T))
        return self.tr0

    def scantr_ok(self, tr, rec, x_at):
        g, T = self.g, self.T
        yield "result_is_ScanTr_of_this_scan", isinstance(tr, core.ScanTr) and tr.gen_fn is self.sc
        if not isinstance(tr, core.ScanTr):
            return
        yield "args_recorded", args_recorded(tr.get_args(), self.args, self.kwargs)
        yield "carry_threading_is_the_spec_recurrence", self.threading(rec, x_at)
        yield "score_is_minus_sum_of_step_densities", same(tr.get_score(), Sym(-mk_sum(T, lambda t: g.D(self.a_step(rec, t), x_at(t)))))
        fc, outs = tr.get_retval()
        yield "retval_final_carry", same(fc, rec["carry_at"](T))
        tt = fresh("tt", z3.IntSort())
        yield "retval_outputs_are_stacked_step_outputs", z3.Implies(
            z3.And(tt >= 0, tt < T), same(lane_of(outs, tt), Sym(SndV(g.R(self.a_step(rec, tt), x_at(tt)))))
        )
        yield "choices_are_stacked_step_choices", z3.Implies(z3.And(tt >= 0, tt < T), same(lane_of(tr.get_choices(), tt), Sym(x_at(tt))))


@contract("genjax.core:Scan.simulate", ["C01"])
class ScanSimulate(_ScanBase):
    cases = _ScanBase.cases + ["args_only:python_int_initial_carry_float_step_carry"]

    def call(self, case):
        self.mk(case)
        return self.real(self.fn, self.sc, *self.args, **self.kwargs)

    def ensures(self, case, path):
        yield "does_not_raise", path.outcome == "return"
        if path.outcome != "return":
            return
        if not path.extra.get("scans"):
            # no scan ran at all: only right when there are no steps (T is symbolic, T = 1 refutes it)
            yield "steps_are_evaluated_by_a_scan_over_the_callee(none_ran_although_T_may_be_positive)", self.T <= 0
            return
        rec = self.scan_rec(path)
        g = self.g
        x_at = lambda t: g.DrawF(self.a_step(rec, t), LaneNonce(z3.IntVal(1), t))
        yield from self.scantr_ok(path.value, rec, x_at)


@contract("genjax.core:Scan.assess", ["C01"])
class ScanAssess(_ScanBase):
    cases = _ScanBase.cases + ["args_only:python_int_initial_carry_float_step_carry"]

    def call(self, case):
        self.mk(case)
        self.x = vec("x", self.T)
        return self.real(self.fn, self.sc, self.x, *self.args, **self.kwargs)

    def ensures(self, case, path):
        yield "does_not_raise", path.outcome == "return"
        if path.outcome != "return":
            return
        if not path.extra.get("scans"):
            # no scan ran at all: only right when there are no steps (T is symbolic, T = 1 refutes it)
            yield "steps_are_evaluated_by_a_scan_over_the_callee(none_ran_although_T_may_be_positive)", self.T <= 0
            return
        rec = self.scan_rec(path)
        g, T = self.g, self.T
        x_at = lambda t: self.x.fn((t,))
        dens, (fc, outs) = path.value
        yield "carry_threading_is_the_spec_recurrence", self.threading(rec, x_at)
        yield "density_is_sum_of_step_densities", same(dens, Sym(mk_sum(T, lambda t: g.D(self.a_step(rec, t), x_at(t)))))
        yield "retval_final_carry", same(fc, rec["carry_at"](T))
        tt = fresh("tt", z3.IntSort())
        yield "retval_outputs_are_stacked_step_outputs", z3.Implies(
            z3.And(tt >= 0, tt < T), same(lane_of(outs, tt), Sym(SndV(g.R(self.a_step(rec, tt), x_at(tt)))))
        )


@contract("genjax.core:Scan.generate", ["C02", "C10"])
class ScanGenerate(_ScanBase):
    cases = ["args_only", "with_kwargs", "constraint=None:args_only"]

    def call(self, case):
        self.mk(case)
        self.x = None if case.startswith("constraint=None") else vec("x", self.T)
        return self.real(self.fn, self.sc, self.x, *self.args, **self.kwargs)

    def ensures(self, case, path):
        yield "does_not_raise", path.outcome == "return"
        if path.outcome != "return":
            return
        if not path.extra.get("scans"):
            # no scan ran at all: only right when there are no steps (T is symbolic, T = 1 refutes it)
            yield "steps_are_evaluated_by_a_scan_over_the_callee(none_ran_although_T_may_be_positive)", self.T <= 0
            return
        rec = self.scan_rec(path)
        g, T = self.g, self.T
        tr, w = path.value
        nu = lambda t: LaneNonce(z3.IntVal(1), t)
        if self.x is None:
            x_at = lambda t: g.DrawF(self.a_step(rec, t), nu(t))
            yield "weight_zero_when_unconstrained", same(w, 0.0)
        else:
            x_at = lambda t: g.GenX(self.a_step(rec, t), self.x.fn((t,)), nu(t))
            yield "weight_is_sum_of_step_weights", same(
                w, Sym(mk_sum(T, lambda t: g.GenW(self.a_step(rec, t), self.x.fn((t,)), nu(t))))
            )
        yield from self.scantr_ok(tr, rec, x_at)


@contract("genjax.core:Scan.update", ["C03", "C05"])
class ScanUpdate(_ScanBase):
    cases = ["args_only", "with_kwargs", "constraint=None:args_only"]

    def call(self, case):
        self.mk(case)
        tr = self.old_trace()
        self.c = None if case.startswith("constraint=None") else vec("c", self.T)
        return self.real(self.fn, self.sc, tr, self.c, *self.args, **self.kwargs)

    def ensures(self, case, path):
        yield "does_not_raise", path.outcome == "return"
        if path.outcome != "return":
            return
        if not path.extra.get("scans"):
            # no scan ran at all: only right when there are no steps (T is symbolic, T = 1 refutes it)
            yield "steps_are_evaluated_by_a_scan_over_the_callee(none_ran_although_T_may_be_positive)", self.T <= 0
            return
        rec = self.scan_rec(path)
        g, T = self.g, self.T
        tr, w, d = path.value
        x_at = lambda t: (self.x0.fn((t,)) if self.c is None else g.UpdX(self.x0.fn((t,)), self.c.fn((t,))))
        yield from self.scantr_ok(tr, rec, x_at)
        yield "weight_is_sum_of_step_density_ratios", same(
            w, Sym(mk_sum(T, lambda t: g.D(self.a_step(rec, t), x_at(t)) - g.D(self.aold.fn((t,)), self.x0.fn((t,)))))
        )
        if self.c is not None:
            tt = fresh("tt", z3.IntSort())
            yield "discard_is_stack_of_step_discards", z3.Implies(
                z3.And(tt >= 0, tt < T), same(lane_of(d, tt), Sym(g.UpdD(self.x0.fn((tt,)), self.c.fn((tt,)))))
            )
        yield "old_trace_not_mutated", self.tr0.traces.x is self.x0


class _ScanRegenerate(_ScanBase):
    def call(self, case):
        self.mk(case)
        tr = self.old_trace()
        self.s = mk_selection(case)
        return self.real(self.fn, self.sc, tr, self.s, *self.args, **self.kwargs)

    def ensures(self, case, path):
        # "The operation is defined - it does not fail - for every program and every selection"
        yield "does_not_raise", path.outcome == "return"
        if path.outcome != "return":
            return
        if not path.extra.get("scans"):
            # no scan ran at all: only right when there are no steps (T is symbolic, T = 1 refutes it)
            yield "steps_are_evaluated_by_a_scan_over_the_callee(none_ran_although_T_may_be_positive)", self.T <= 0
            return
        rec = self.scan_rec(path)
        g, T = self.g, self.T
        tr, w, d = path.value
        se = sel_id(self.s)
        nu = lambda t: LaneNonce(z3.IntVal(1), t)
        x_at = lambda t: g.RegX(self.a_step(rec, t), self.x0.fn((t,)), se, nu(t))
        yield from self.scantr_ok(tr, rec, x_at)
        mh = lambda t: (g.D(self.a_step(rec, t), x_at(t)) - g.D(self.aold.fn((t,)), self.x0.fn((t,)))) - (
            g.P(self.a_step(rec, t), x_at(t), se) - g.P(self.aold.fn((t,)), self.x0.fn((t,)), se)
        )
        yield "weight_is_sum_of_step_MH_weights", same(w, Sym(mk_sum(T, mh)))
        if self.discard_kind == "none":
            yield "no_discard_when_callee_discards_nothing", d is None
        elif self.discard_kind == "value":
            tt = fresh("tt", z3.IntSort())
            yield "discard_is_stack_of_step_discards", z3.Implies(
                z3.And(tt >= 0, tt < T), same(lane_of(d, tt), Sym(g.RegD(self.x0.fn((tt,)), se)))
            )
        else:
            yield "dict_discard_keeps_its_addresses", isinstance(d, dict) and set(d) == {"k"}


@contract("genjax.core:Scan.regenerate", ["C04", "C05", "C09"])
class ScanRegenerateValue(_ScanRegenerate):
    """callee discards a value at every step (e.g. a selected distribution)"""

    discard_kind = "value"
    cases = ["callee_discards_value:args_only", "callee_discards_value:with_kwargs", "callee_discards_value:args_only:sel=all"]


@contract("genjax.core:Scan.regenerate", ["C04", "C05", "C09"])
class ScanRegenerateNone(_ScanRegenerate):
    """callee discards nothing (selection does not reach into the scan)"""

    discard_kind = "none"
    cases = ["callee_discards_None:args_only"] + ["callee_discards_None:args_only:" + c for c in CONCRETE_SEL]


@contract("genjax.core:Scan.regenerate", ["C04", "C05", "C09"])
class ScanRegenerateDict(_ScanRegenerate):
    """callee is a @gen function: its discard is a dict of addresses"""

    discard_kind = "dict"
    cases = ["callee_discards_dict:args_only"]


@contract("genjax.core:ScanTr.get_score", ["C01", "C05"])
class ScanTrAccessors(Contract):
    cases = ["default"]

    def call(self, case):
        self.T = fresh("T", z3.IntSort())
        engine().assume(self.T >= 0)
        g = AbsGF("h", pair_retval=True)
        self.sv = vec("s", self.T, z3.RealSort())
        self.xv = vec("x", self.T)
        traces = AbsTrace(g, None, self.xv, None, self.sv)
        self.fc, self.outs, self.args = value("fc"), vec("outs", self.T), (value("a"),)
        self.tr = core.ScanTr(None, self.args, traces, self.fc, self.outs)
        t = self.tr
        return self.real(lambda: (t.get_score(), t.get_choices(), t.get_retval(), t.get_args()))

    def ensures(self, case, path):
        yield "does_not_raise", path.outcome == "return"
        if path.outcome == "return":
            s, x, r, a = path.value
            yield "score_is_sum_of_step_scores", same(s, Sym(mk_sum(self.T, lambda t: self.sv.fn((t,)))))
            yield "choices_are_the_stacked_step_choices", x is self.xv
            yield "retval_is_(final_carry, outputs)", isinstance(r, tuple) and r[0] is self.fc and r[1] is self.outs
            yield "args_as_stored", a is self.args


# ================================================================================================
# Cond


class _CondBase(Contract):
    def replay(self, case, clause, model, path):
        return battery_replay("cond_update", "cond_dist_branches", "cond_mixed_dtypes", "cond_mixture_indicator")

    cases = ["args_only", "with_kwargs"]

    def mk(self, case):
        if "int_and_float_retvals" in case:
            # the two branches return numbers of DIFFERENT dtypes (an integer count vs a float): the selected return value
            # is the taken branch's VALUE (promoted, never truncated to the other branch's dtype)
            self.g1, self.g2 = AbsGF("h1", ret_kind="int"), AbsGF("h2", ret_kind="float")
        elif "float_and_int_retvals" in case:
            self.g1, self.g2 = AbsGF("h1", ret_kind="float"), AbsGF("h2", ret_kind="int")
        else:
            self.g1, self.g2 = AbsGF("h1"), AbsGF("h2")
        self.check = boolean("check")
        self.rest = (value("a0"), value("a1"))
        self.kwargs = {"kw": value("kw")} if "with_kwargs" in case else {}
        self.a = enc_args(self.rest, self.kwargs)
        self.cd = core.Cond(self.g1, self.g2)
        self.args = (self.check,) + self.rest

    def old_trace(self, check_name="check_old"):
        self.check0 = boolean(check_name)
        g1, g2 = self.g1, self.g2
        self.aold = fresh("args_old", V)
        self.x1, self.x2 = value("x1_old"), value("x2_old")
        t1 = AbsTrace(g1, Sym(self.aold), self.x1, Sym(g1.R(self.aold, self.x1.e)), Sym(-g1.D(self.aold, self.x1.e)))
        t2 = AbsTrace(g2, Sym(self.aold), self.x2, Sym(g2.R(self.aold, self.x2.e)), Sym(-g2.D(self.aold, self.x2.e)))
        self.t1, self.t2 = t1, t2
        self.tr0 = core.CondTr(self.cd, self.check0, [t1, t2])
        return self.tr0

    @staticmethod
    def sel_ret(c, r1, r2):
        """the VALUE of the taken branch's return value (numbers of different dtypes are compared as numbers)"""
        if r1.sort() != r2.sort():
            from vt.sym import _num2

            r1, r2 = _num2(r1, r2)
        return Sym(z3.If(c, r1, r2))

    def condtr_ok(self, tr, x1, x2, check=None):
        check = self.check if check is None else check
        g1, g2, a = self.g1, self.g2, self.a
        yield "result_is_CondTr_of_this_cond_with_the_given_check", isinstance(tr, core.CondTr) and tr.gen_fn is self.cd and tr.check is check
        if not isinstance(tr, core.CondTr):
            return
        c = check.e
        yield "score_is_minus_density_of_selected_branch", same(tr.get_score(), Sym(-z3.If(c, g1.D(a, x1), g2.D(a, x2))))
        yield "retval_is_selected_branch_retval", same(tr.get_retval(), self.sel_ret(c, g1.R(a, x1), g2.R(a, x2)))
        yield "choices_are_selected_branch_choices", same(tr.get_choices(), Sym(z3.If(c, x1, x2)))


@contract("genjax.core:Cond.simulate", ["C01"])
class CondSimulate(_CondBase):
    cases = _CondBase.cases + ["args_only:int_and_float_retvals", "args_only:float_and_int_retvals"]

    def call(self, case):
        self.mk(case)
        return self.real(self.fn, self.cd, *self.args, **self.kwargs)

    def ensures(self, case, path):
        yield "does_not_raise", path.outcome == "return"
        if path.outcome != "return":
            return
        x1 = self.g1.DrawF(self.a, z3.IntVal(1))
        x2 = self.g2.DrawF(self.a, z3.IntVal(2))
        yield from self.condtr_ok(path.value, x1, x2)


@contract("genjax.core:Cond.assess", ["C01"])
class CondAssess(_CondBase):
    cases = _CondBase.cases + ["args_only:int_and_float_retvals", "args_only:float_and_int_retvals"]

    def call(self, case):
        self.mk(case)
        self.x = value("x")
        return self.real(self.fn, self.cd, self.x, *self.args, **self.kwargs)

    def ensures(self, case, path):
        yield "does_not_raise", path.outcome == "return"
        if path.outcome != "return":
            return
        dens, ret = path.value
        c, a, x = self.check.e, self.a, self.x.e
        yield "density_selected_by_condition", same(dens, Sym(z3.If(c, self.g1.D(a, x), self.g2.D(a, x))))
        yield "retval_selected_by_condition", same(ret, self.sel_ret(c, self.g1.R(a, x), self.g2.R(a, x)))


@contract("genjax.core:Cond.generate", ["C02"])
class CondGenerate(_CondBase):
    cases = ["args_only", "with_kwargs", "constraint=None:args_only"]

    def call(self, case):
        self.mk(case)
        self.x = None if case.startswith("constraint=None") else value("x")
        return self.real(self.fn, self.cd, self.x, *self.args, **self.kwargs)

    def ensures(self, case, path):
        yield "does_not_raise", path.outcome == "return"
        if path.outcome != "return":
            return
        tr, w = path.value
        g1, g2, a = self.g1, self.g2, self.a
        if self.x is None:
            x1, x2 = g1.DrawF(a, z3.IntVal(1)), g2.DrawF(a, z3.IntVal(2))
            yield "weight_zero_when_unconstrained", same(w, 0.0)
        else:
            x = self.x.e
            x1, x2 = g1.GenX(a, x, z3.IntVal(1)), g2.GenX(a, x, z3.IntVal(2))
            yield "weight_is_selected_branch_weight", same(
                w, Sym(z3.If(self.check.e, g1.GenW(a, x, z3.IntVal(1)), g2.GenW(a, x, z3.IntVal(2))))
            )
        yield from self.condtr_ok(tr, x1, x2)


@contract("genjax.core:Cond.update", ["C03", "C05", "C09"])
class CondUpdate(_CondBase):
    """G4 for Cond, also across a branch switch (old check != new check)."""

    cases = ["same_branch:args_only", "same_branch:with_kwargs", "branch_switch:args_only"]

    def call(self, case):
        self.mk(case)
        tr = self.old_trace()
        if case.startswith("same_branch"):
            engine().assume(self.check0.e == self.check.e)
        else:
            engine().assume(self.check0.e != self.check.e)
        self.c = value("c")
        return self.real(self.fn, self.cd, tr, self.c, *self.args, **self.kwargs)

    def ensures(self, case, path):
        yield "does_not_raise", path.outcome == "return"
        if path.outcome != "return":
            return
        tr, w, d = path.value
        g1, g2, a, ao = self.g1, self.g2, self.a, self.aold
        x1n, x2n = g1.UpdX(self.x1.e, self.c.e), g2.UpdX(self.x2.e, self.c.e)
        yield from self.condtr_ok(tr, x1n, x2n)
        new_d = z3.If(self.check.e, g1.D(a, x1n), g2.D(a, x2n))
        old_d = z3.If(self.check0.e, g1.D(ao, self.x1.e), g2.D(ao, self.x2.e))
        yield "weight_is_density_ratio_of_visible_choices", same(w, Sym(new_d - old_d))
        # the discard holds the values that were visible in the OLD trace
        d1, d2 = g1.UpdD(self.x1.e, self.c.e), g2.UpdD(self.x2.e, self.c.e)
        yield "discard_is_what_was_visible_in_the_old_trace", same(d, Sym(z3.If(self.check0.e, d1, d2)))


@contract("genjax.core:Cond.regenerate", ["C04", "C05", "C09"])
class CondRegenerate(_CondBase):
    """G5 for Cond for moves that do not switch the branch; total (never raises)."""

    cases = ["both_discard:args_only", "both_discard:with_kwargs", "none_discard:args_only", "either_discard:args_only", "none_discard:args_only:sel=none", "both_discard:args_only:sel=all",
             "none_discard:args_only:sel=none:branch_switch(mixture_indicator_move)"]

    def call(self, case):
        self.mk(case)
        kind = {"both": "value", "none": "none", "either": "either"}[case.split("_")[0]]
        self.g1.discard_kind = self.g2.discard_kind = kind
        tr = self.old_trace()
        self.s = mk_selection(case)
        if "branch_switch" in case:
            # C09: "a selected choice that decides which branch of a Cond is taken when that Cond's own choices are all
            # observed (the mixture-indicator move)": the arguments (the condition) change, NOTHING inside the Cond is
            # selected.  G5 of the callees for the empty selection: choices kept, no prior term
            engine().assume(self.check0.e != self.check.e)
            se = sel_id(self.s)
            for g, x, k in ((self.g1, self.x1.e, 1), (self.g2, self.x2.e, 2)):
                engine().assume(z3.And(g.RegX(self.a, x, se, z3.IntVal(k)) == x, g.P(self.a, x, se) == 0, g.P(self.aold, x, se) == 0))
        else:
            engine().assume(self.check0.e == self.check.e)  # C04's weight claim excludes branch-switching moves
        return self.real(self.fn, self.cd, tr, self.s, *self.args, **self.kwargs)

    def ensures(self, case, path):
        yield "does_not_raise", path.outcome == "return"
        if path.outcome != "return":
            return
        tr, w, d = path.value
        g1, g2, a, ao = self.g1, self.g2, self.a, self.aold
        se = sel_id(self.s)
        x1n, x2n = g1.RegX(a, self.x1.e, se, z3.IntVal(1)), g2.RegX(a, self.x2.e, se, z3.IntVal(2))
        yield from self.condtr_ok(tr, x1n, x2n)
        mh1 = (g1.D(a, x1n) - g1.D(ao, self.x1.e)) - (g1.P(a, x1n, se) - g1.P(ao, self.x1.e, se))
        mh2 = (g2.D(a, x2n) - g2.D(ao, self.x2.e)) - (g2.P(a, x2n, se) - g2.P(ao, self.x2.e, se))
        if "branch_switch" in case:
            # nothing selected: the MH weight is the change of the joint density of the VISIBLE choices
            new_d = z3.If(self.check.e, g1.D(a, self.x1.e), g2.D(a, self.x2.e))
            old_d = z3.If(self.check0.e, g1.D(ao, self.x1.e), g2.D(ao, self.x2.e))
            yield "weight_is_density_of_the_newly_visible_branch_minus_density_of_the_previously_visible_branch", same(w, Sym(new_d - old_d))
            return
        yield "weight_is_MH_weight_of_taken_branch", same(w, Sym(z3.If(self.check.e, mh1, mh2)))
        if case.startswith("both"):
            yield "discard_is_old_visible_values", same(d, Sym(z3.If(self.check.e, g1.RegD(self.x1.e, se), g2.RegD(self.x2.e, se))))


@contract("genjax.core:CondTr.get_args", ["C05", "C09"])
class CondTrGetArgs(Contract):
    """the trace records its arguments in the (args, kwargs) format every consumer unpacks
    (Trace.update, mh/mala/hmc): args = (check, *branch_args), kwargs = branch kwargs"""

    cases = ["default"]

    def replay(self, case, clause, model, path):
        return battery_replay("condtr_args")

    def call(self, case):
        g = AbsGF("h1")
        self.check = boolean("check")
        self.b_args, self.b_kw = (value("a0"), value("a1")), {"kw": value("kw")}
        t1 = AbsTrace(g, (self.b_args, self.b_kw), value("x1"), None, None)
        t2 = AbsTrace(g, (self.b_args, self.b_kw), value("x2"), None, None)
        tr = core.CondTr(None, self.check, [t1, t2])
        return self.real(self.fn, tr)

    def ensures(self, case, path):
        yield "does_not_raise", path.outcome == "return"
        if path.outcome == "return":
            yield "standard_(args,kwargs)_format_with_check_first", args_recorded(path.value, (self.check,) + self.b_args, self.b_kw)


@contract("genjax.core:CondTr.get_choices", ["C09", "C05", "C01", "C03"])
class CondTrGetChoices(Contract):
    """the visible choices of a CondTr are the conditional merge (Cond.merge(.., .., check), which keeps the first
    argument where check holds) of the two branch traces' choices, in branch order [true, false]"""

    cases = ["get_choices", "get_fixed_choices"]

    def call(self, case):
        g = AbsGF("h1")
        self.check = boolean("check")
        self.x1, self.x2 = value("x1"), value("x2")
        t1 = AbsTrace(g, None, self.x1, None, None)
        t2 = AbsTrace(g, None, self.x2, None, None)
        self.calls = []
        outer = self

        class GF:
            def merge(self, a, b, check=None):
                outer.calls.append((a, b, check))
                return ("merged", len(outer.calls)), None

        tr = core.CondTr(GF(), self.check, [t1, t2])
        return self.real(getattr(core.CondTr, case), tr)

    def ensures(self, case, path):
        yield "does_not_raise", path.outcome == "return"
        if path.outcome != "return":
            return
        yield "one_conditional_merge", len(self.calls) == 1
        if len(self.calls) != 1:
            return
        a, b, chk = self.calls[0]
        yield "true_branch_choices_first", same(a, self.x1) and same(b, self.x2)
        yield "merge_is_conditional_on_the_traces_check", chk is self.check
        yield "returns_the_merged_map", path.value == ("merged", 1)


@contract("genjax.core:CondTr.get_retval", ["C05", "C01"])
class CondTrGetRetval(Contract):
    cases = ["scalar"]

    def call(self, case):
        g = AbsGF("h1")
        self.check = boolean("check")
        self.r1, self.r2 = value("r1"), value("r2")
        tr = core.CondTr(None, self.check, [AbsTrace(g, None, None, self.r1, None), AbsTrace(g, None, None, self.r2, None)])
        return self.real(self.fn, tr)

    def ensures(self, case, path):
        yield "does_not_raise", path.outcome == "return"
        if path.outcome == "return":
            yield "selected_branch_retval", same(path.value, Sym(z3.If(self.check.e, self.r1.e, self.r2.e)))


@contract("genjax.core:CondTr.get_score", ["C01", "C08", "C05"])
class CondTrBatched(Contract):
    """G7 for CondTr: for a vectorised CondTr (check and branch traces carry a lane axis) the score is the
    sum over lanes of the score of the branch selected in that lane."""

    cases = ["scalar", "vectorised"]

    def replay(self, case, clause, model, path):
        from .native import run_native

        return run_native("gfi_battery", "condtr_batched")

    def call(self, case):
        g = AbsGF("h1")
        if case == "scalar":
            self.check = boolean("check")
            self.s1, self.s2 = real("s1"), real("s2")
        else:
            self.n = fresh("n", z3.IntSort())
            engine().assume(self.n >= 1)
            self.check = vec("check", self.n, z3.BoolSort())
            self.s1, self.s2 = vec("s1", self.n, z3.RealSort()), vec("s2", self.n, z3.RealSort())
        t1 = AbsTrace(g, None, None, None, self.s1)
        t2 = AbsTrace(g, None, None, None, self.s2)
        tr = core.CondTr(None, self.check, [t1, t2])
        return self.real(self.fn, tr)

    def ensures(self, case, path):
        yield "does_not_raise", path.outcome == "return"
        if path.outcome != "return":
            return
        r = path.value
        if case == "scalar":
            yield "selected_branch_score", same(r, Sym(z3.If(self.check.e, self.s1.e, self.s2.e)))
        else:
            total = r.sum() if isinstance(r, Tensor) else r
            want = mk_sum(self.n, lambda i: z3.If(self.check.fn((i,)), self.s1.fn((i,)), self.s2.fn((i,))))
            yield "sum_over_lanes_of_selected_branch_score", same(total, Sym(want))

from vt.contract import canary as _canary  # noqa: E402

_canary(VmapAssess, "in_axes=(0,None)", "density_is_sum_of_lane_densities")
_canary(ScanUpdate, "args_only", "weight_is_sum_of_step_density_ratios")
_canary(CondUpdate, "branch_switch:args_only", "weight_is_density_ratio_of_visible_choices")
