"""Further functions the properties depend on, put under contract to shrink the assumed base:
unseeded key source and flat-sampler cache (C06), interpreter Environment (C06/C11/C19), the binding machinery
`initial_style_bind` (C08/C13/C19), sample / density binders (C13), pytree round trips of trace classes (C05),
ParticleCollection.estimate (C10)."""
from __future__ import annotations

import types
from vt.stubs.ns import StubNS

import jax.tree_util as real_jtu
import z3

from vt import loader
from vt.contract import Contract, contract, track
from vt.gfi import AbsGF, AbsTrace
from vt.stubs import jaxpr07 as J, jnp as jnp_stub
from vt.sym import Assumed, EngineLimit, Sym, V, _lift, boolean, engine, fresh, real, value
from vt.tensor import Tensor, mk_lse, mk_sum
from . import _patch  # noqa: F401
from . import seed as S
from .core_gfi import same

core = loader.load("core")
pjax = loader.load("pjax")
Key = J.Key


class _NoReplay(Contract):
    def replay(self, case, clause, model, path):
        return {"tier": "API-model", "confirmed": False, "note": "pjax internals cannot execute on the sandbox's JAX 0.11"}


@contract("genjax.pjax:KeylessWrapper.__call__", ["C06"])
class Keyless(_NoReplay):
    """the UNSEEDED path: each call advances the process-global counter and samples with key(counter); this is
    the only place hidden randomness comes from, and the seed interpreter never calls it (see Seed contracts)"""

    cases = ["two_calls"]

    def call(self, case):
        self.calls = []
        ks = lambda key, *a, sample_shape=None, **k: self.calls.append((key, a, sample_shape, k)) or "draw"
        self.counter = types.SimpleNamespace(count=Sym(fresh("count0", z3.IntSort())))
        self.c0 = self.counter.count
        pjax.global_counter = self.counter
        cfg = pjax.SamplerConfig(keyful_sampler=ks, name="d", sample_shape=(2,))
        w = pjax.KeylessWrapper(cfg)
        self.a = value("a")
        r1 = self.real(w, self.a, scale=self.a)
        r2 = self.real(w, self.a)
        return r1, r2

    def ensures(self, case, path):
        yield "does_not_raise", path.outcome == "return"
        if path.outcome != "return":
            return
        yield "two_sampler_calls", len(self.calls) == 2
        if len(self.calls) != 2:
            return
        c0 = self.c0.e
        yield "counter_advanced_once_per_call", same(self.counter.count, Sym(c0 + 2))
        yield "keys_are_key(counter)_hence_distinct", z3.And(same(self.calls[0][0], Sym(Key.FromInt(c0 + 1))), same(self.calls[1][0], Sym(Key.FromInt(c0 + 2))))
        yield "sample_shape_and_arguments_forwarded", self.calls[0][2] == (2,) and self.calls[0][1] == (self.a,) and set(self.calls[0][3]) == {"scale"}


@contract("genjax.pjax:FlatSamplerCache.get_flat_sampler", ["C06", "C07", "C13"])
class FlatCache(_NoReplay):
    """the flat keyed sampler is staged with the fake key passed AS AN ARGUMENT (so the real sub-key given at
    interpretation time replaces it) and with the site's sample_shape; over a HISTORY of calls on one cache (a binder
    that is used for several sites) every flat sampler handed back evaluates a program that was staged on arguments of
    THAT call's structure, shapes and dtypes - a program staged for scalar parameters applied to vector parameters
    would give the vector site one broadcast draw instead of its own draw per element (C07: each site's draw follows
    that site's distribution)"""

    cases = ["default"]

    def replay(self, case, clause, model, path):
        from .native import run_native

        return run_native("binder_reuse")

    def call(self, case):
        self.staged = []
        outer = self

        def fake_stage(f, **params):
            def wrapped(*a, **k):
                outer.staged.append((f, a, k))
                return (types.SimpleNamespace(jaxpr=("JAXPR", len(outer.staged) - 1)), "meta")

            return wrapped

        self.ks = lambda key, *a, sample_shape=(), **k: None
        cfg = pjax.SamplerConfig(keyful_sampler=self.ks, name="d", sample_shape=(3,))
        c = pjax.FlatSamplerCache(cfg)
        self.a, self.b = Sym(fresh("a", z3.RealSort())), Sym(fresh("b", z3.RealSort()))
        self.v, self.w = Tensor.fresh("v", (4,)), Tensor.fresh("w", (4,))
        self.k = Sym(fresh("k", z3.IntSort()))
        self.calls = [
            ((self.a, self.b), {}), ((self.b, self.a), {}), ((self.k, self.b), {}), ((self.v, self.b), {}), ((self.a, self.b), {}),
            ((self.a,), {"scale": self.b}), ((self.a,), {"scale": self.w}), ((self.a,), {"loc": self.b}),
        ]
        from .extra2 import patched

        with patched(pjax, stage=fake_stage, _fake_key=Sym(Key.tainted), eval_jaxpr=lambda jaxpr, consts, *args: ("evaluated", jaxpr)):
            out = []
            for args, kw in self.calls:
                f = self.real(c.get_flat_sampler, *args, **kw)
                n_staged = len(self.staged)
                ev = self.real(f, value("sub_key"), *real_jtu.tree_leaves((args, kw), is_leaf=lambda x: isinstance(x, (Sym, Tensor))), num_consts=0)
                out.append((f, ev, n_staged))
            return out

    @staticmethod
    def aval(x):
        return (tuple(x.shape) if isinstance(x, Tensor) else (), x.elem_sort() if isinstance(x, Tensor) else x.e.sort())

    def ensures(self, case, path):
        yield "does_not_raise", path.outcome == "return"
        if path.outcome != "return":
            return
        st = self.staged
        is_leaf = lambda x: isinstance(x, (Sym, Tensor))
        for n, ((args, kw), (f, ev, n_staged)) in enumerate(zip(self.calls, path.value)):
            ok = isinstance(ev, tuple) and len(ev) == 2 and ev[0] == "evaluated" and isinstance(ev[1], tuple) and ev[1][0] == "JAXPR"
            yield "call_%d:the_flat_sampler_evaluates_a_staged_program" % n, ok
            if not ok:
                continue
            sf, sa, sk = st[ev[1][1]]
            want = [self.aval(x) for x in real_jtu.tree_leaves((args, kw), is_leaf=is_leaf)]
            got = [self.aval(x) for x in real_jtu.tree_leaves((sa[1:], sk), is_leaf=is_leaf)]
            same_tree = real_jtu.tree_structure((tuple(sa[1:]), sk), is_leaf=is_leaf) == real_jtu.tree_structure((tuple(args), kw), is_leaf=is_leaf)
            yield "call_%d:that_program_was_staged_on_arguments_of_this_calls_structure_shapes_and_dtypes" % n, same_tree and want == got
        if len(st) >= 1:
            f, a, k = st[0]
            yield "fake_key_is_a_staged_ARGUMENT_followed_by_the_site_arguments", len(a) == 3 and isinstance(a[0], Sym) and z3.eq(a[0].e, Key.tainted) and a[1] is self.a and a[2] is self.b
            yield "staged_function_is_the_keyed_sampler_with_the_sites_sample_shape", getattr(f, "func", None) is self.ks and f.keywords == {"sample_shape": (3,)}


@contract("genjax.pjax:Environment.write", ["C06", "C11", "C19", "C15"])
class EnvFrame(_NoReplay):
    """interpreter environment: a write changes exactly that variable; literals read as their value and are never
    written; DropVar writes are ignored; reading an unbound variable raises; copy() is independent"""

    cases = ["default"]

    def call(self, case):
        env = pjax.Environment()
        self.a, self.b = J.Var("a"), J.Var("b")
        self.va, self.vb, self.vc = value("va"), value("vb"), value("vc")
        lit = J.Literal(self.vc)
        out = {}
        out["w"] = self.real(env.write, self.a, self.va)
        self.real(env.write, self.b, self.vb)
        out["ra"], out["rb"] = self.real(env.read, self.a), self.real(env.read, self.b)
        out["lit"] = self.real(env.read, lit)
        out["wlit"] = self.real(env.write, lit, self.va)
        cp = self.real(env.copy)
        self.real(cp.write, self.a, self.vc)
        out["ra_after_copy_write"] = self.real(env.read, self.a)
        out["copy_ra"] = self.real(cp.read, self.a)
        dv = J.DropVar("_")
        self.real(env.write, dv, self.vc)
        out["dropvar_bound"] = dv.count in env.env
        out["contains"] = (self.a in env, J.Var("z") in env, lit in env)
        try:
            env.read(J.Var("unbound"))
            out["unbound"] = "no error"
        except ValueError:
            out["unbound"] = "ValueError"
        return out

    def ensures(self, case, path):
        yield "does_not_raise", path.outcome == "return"
        if path.outcome != "return":
            return
        o = path.value
        yield "read_returns_what_was_written", o["ra"] is self.va and o["rb"] is self.vb and o["w"] is self.va
        yield "literal_reads_as_its_value_and_is_not_written", o["lit"] is self.vc and o["wlit"] is self.va
        yield "copy_is_independent", o["ra_after_copy_write"] is self.va and o["copy_ra"] is self.vc
        yield "dropvar_write_ignored", o["dropvar_bound"] is False
        yield "membership", o["contains"] == (True, False, True)
        yield "unbound_read_raises_ValueError", o["unbound"] == "ValueError"


@contract("genjax.pjax:initial_style_bind", ["C08", "C13", "C19", "C14"])
class InitialStyleBind(_NoReplay):
    """the binding machinery: the function is staged on (args, kwargs); ONE equation of the primitive is bound on
    (staged constants ++ flat arguments) with the elaboration keywords; the hidden parameters carry impl / abstract /
    batch / jvp (overridable), the in/out trees, num_consts, yes_kwargs and the extra params (e.g. the lowering
    exception); the result is the unflattened outputs; under the modular-vmap context the abstract rule ignores
    the dummy"""

    cases = ["default", "overrides_and_kwargs"]

    def call(self, case):
        self.bound = []
        outer = self

        class FakePP:
            def __init__(s, prim, **params):
                s.prim, s.params = prim, params

            def bind(s, *a, **k):
                outer.bound.append((s, a, k))
                return ["out0", "out1"]

        self._pp = pjax.PPPrimitive
        pjax.PPPrimitive = FakePP
        self.lit = value("lit")
        x, o = J.Var("x"), J.Var("o")
        closed = J.ClosedJaxpr(J.Jaxpr([J.Var("c")], [x], [], [x, x]), [self.lit])

        def f(*a, **k):
            raise EngineLimit("body represented by its Jaxpr")

        f.__vt_jaxpr__ = closed
        self.f = f
        self.prim = object()
        self.args = (value("a0"), value("a1"))
        self.exc = object()
        self.mybatch = lambda *a, **k: "mybatch"
        extra = {"lowering_exception": self.exc}
        if case == "overrides_and_kwargs":
            extra["batch"] = self.mybatch
        try:
            if case == "overrides_and_kwargs":
                return self.real(pjax.initial_style_bind(self.prim, **extra)(f, name="n"), *self.args, kw=value("kw"))
            return self.real(pjax.initial_style_bind(self.prim, **extra)(f, name="n"), *self.args)
        finally:
            pjax.PPPrimitive = self._pp

    def ensures(self, case, path):
        yield "does_not_raise", path.outcome == "return"
        if path.outcome != "return":
            return
        yield "exactly_one_equation_bound", len(self.bound) == 1
        if len(self.bound) != 1:
            return
        pp, a, k = self.bound[0]
        yield "bound_on_the_given_primitive", pp.prim is self.prim
        yield "operands_are_staged_constants_then_flat_arguments", a[0] is self.lit and a[1] is self.args[0] and a[2] is self.args[1]
        yield "elaboration_keywords_passed_at_bind", k == {"name": "n"}
        p = pp.params
        yield "hidden_params_carry_rules_trees_and_counts", all(callable(p.get(n)) for n in ("impl", "abstract", "batch", "jvp")) and p.get("num_consts") == 1 and p.get("in_tree") is not None and callable(p.get("out_tree"))
        yield "extra_params_forwarded(lowering_exception)", p.get("lowering_exception") is self.exc
        yield "yes_kwargs_flag", p.get("yes_kwargs") is (case == "overrides_and_kwargs")
        if case == "overrides_and_kwargs":
            yield "batch_rule_override_used", p.get("batch") is self.mybatch
            yield "kwargs_are_flattened_into_the_operands", len(a) == 4
        yield "result_is_the_unflattened_outputs", tuple(path.value) == ("out0", "out1")
        # abstract rule: dummy stripped under the modular-vmap context only
        seen = []
        saved = pjax.pe
        pjax.pe = StubNS(abstract_eval_fun=lambda impl, *avals, debug_info=None, **params: seen.append(avals) or "avals-out")
        try:
            p["abstract"]("dummy", "a", "b", ctx="modular_vmap", num_consts=0)
            p["abstract"]("a", "b", num_consts=0)
        finally:
            pjax.pe = saved
        yield "abstract_rule_ignores_the_dummy_only_under_modular_vmap", seen == [("a", "b"), ("a", "b")]


@contract("genjax.pjax:create_sample_primitive", ["C14", "C07", "C13"])
class CreateSamplePrimitive(_NoReplay):
    """history: a bound sampler drawn from SEVERAL times (same and different call signatures).  Every draw binds
    exactly one equation of the configured primitive through the real initial_style_bind, and the hidden parameters of
    EVERY such binding carry the modular-vmap-only batch rule (plain jax.vmap raises instead of replicating a draw)
    and the dedicated lowering exception; the implementation staged is the keyless sampler"""

    cases = ["three_draws"]

    def call(self, case):
        self.bound = []
        outer = self

        class FakePP:
            def __init__(s, prim, **params):
                s.prim, s.params = prim, params

            def bind(s, *a, **k):
                outer.bound.append((s, a, k))
                return ["draw"]

        def fake_stage(f, **params):
            def wrapped(*a, **k):
                flat, tree = real_jtu.tree_flatten((a, k) if k else a, is_leaf=lambda x: isinstance(x, (Sym, Tensor)))
                outer.staged.append(f)
                o = J.Var("o")
                closed = J.ClosedJaxpr(J.Jaxpr([], [J.Var("x%d" % i) for i in range(len(flat))], [], [o]), [])
                return closed, (flat, tree, lambda: real_jtu.tree_structure(0))

            return wrapped

        self.staged = []
        saved = (pjax.PPPrimitive, pjax.stage)
        pjax.PPPrimitive, pjax.stage = FakePP, fake_stage
        pjax._fake_key = Sym(Key.tainted)
        self.ks = lambda key, *a, sample_shape=(), **k: None
        self.prim = object()
        cfg = pjax.SamplerConfig(keyful_sampler=self.ks, name="d", sample_shape=(), primitive=self.prim)
        self.a, self.b = value("a"), value("b")
        try:
            sample = self.real(pjax.create_sample_primitive, cfg)
            r1 = self.real(sample, self.a, self.b)
            r2 = self.real(sample, self.b, self.a)  # same call signature again
            r3 = self.real(sample, self.a, scale=self.b)  # another signature
            return r1, r2, r3
        finally:
            pjax.PPPrimitive, pjax.stage = saved

    def ensures(self, case, path):
        yield "does_not_raise", path.outcome == "return"
        if path.outcome != "return":
            return
        yield "one_equation_bound_per_draw", len(self.bound) == 3
        if len(self.bound) != 3:
            return
        orig = pjax.create_sample_primitive
        pjax.create_sample_primitive = lambda cfg: (lambda *a: ("site-result",))
        try:
            for n, (pp, a, k) in enumerate(self.bound):
                p = pp.params
                yield f"draw{n}:bound_on_the_configured_primitive", pp.prim is self.prim
                rule = p.get("batch")
                rejects = False
                if callable(rule):
                    try:
                        rule((value("x"),), (0,))
                    except NotImplementedError:
                        rejects = True
                    except Exception:
                        rejects = False
                yield f"draw{n}:batch_rule_is_the_modular_vmap_only_rule", rejects
                yield f"draw{n}:carries_the_dedicated_lowering_exception", isinstance(p.get("lowering_exception"), pjax.LoweringSamplePrimitiveToMLIRException)
                yield f"draw{n}:keyed_sampler_and_flat_sampler_attached", p.get("keyful_sampler") is self.ks and p.get("flat_keyful_sampler") is not None
                # end to end: the lowering rule of the primitive, given EXACTLY the parameters this binding carries
                # (whatever else the binder attached), raises the dedicated exception under the default flags
                low = "no error"
                try:
                    pjax.sample_p.lowering(None, *a, **p, **k)
                except pjax.LoweringSamplePrimitiveToMLIRException:
                    low = "raised"
                except EngineLimit:
                    low = "went on to lower the implementation"
                except Exception as e:  # lowering machinery reached: the guard did not fire
                    low = "went on to lower the implementation (%s)" % type(e).__name__
                yield f"draw{n}:lowering_this_binding_raises_the_dedicated_exception", low == "raised"
        finally:
            pjax.create_sample_primitive = orig
        yield "operands_of_each_draw_are_its_own_arguments", self.bound[0][1] == (self.a, self.b) and self.bound[1][1] == (self.b, self.a)
        yield "results_are_the_bound_outputs", all(r == "draw" for r in path.value)


@contract("genjax.pjax:sample_binder", ["C13", "C07"])
class SampleBinder(_NoReplay):
    cases = ["default"]

    def call(self, case):
        self.cfgs = []
        self._o = pjax.create_sample_primitive
        pjax.create_sample_primitive = lambda cfg: self.cfgs.append(cfg) or "site-fn"
        self.ks = lambda *a, **k: None
        self.S_ = (Sym(fresh("s", z3.IntSort())),)
        try:
            return self.real(pjax.sample_binder, self.ks, name="d", sample_shape=self.S_, primitive=pjax.adev_sample_p, primitive_params={"adev_prim": 1})
        finally:
            pjax.create_sample_primitive = self._o

    def ensures(self, case, path):
        yield "does_not_raise", path.outcome == "return"
        if path.outcome == "return":
            c = self.cfgs[0] if self.cfgs else None
            yield "config_carries_sampler_name_shape_primitive_params", c is not None and c.keyful_sampler is self.ks and c.name == "d" and c.sample_shape is self.S_ and c.primitive is pjax.adev_sample_p and c.primitive_params == {"adev_prim": 1}
            yield "returns_the_site_function", path.value == "site-fn"


@contract("genjax.pjax:log_density_binder", ["C13"])
class LogDensityBinder(_NoReplay):
    cases = ["default"]

    def call(self, case):
        self.cfgs = []
        self._o = pjax.create_log_density_primitive
        pjax.create_log_density_primitive = lambda cfg: self.cfgs.append(cfg) or "density-fn"
        self.lp = lambda *a, **k: None
        try:
            return self.real(pjax.log_density_binder, self.lp, name="d")
        finally:
            pjax.create_log_density_primitive = self._o

    def ensures(self, case, path):
        yield "does_not_raise", path.outcome == "return"
        if path.outcome == "return":
            c = self.cfgs[0] if self.cfgs else None
            yield "config_carries_the_density_and_name", c is not None and c.log_density_impl is self.lp and c.name == "d"
            yield "returns_the_density_site_function", path.value == "density-fn"


# ------------------------------------------------------------------------------------------------
# C05: jit round trips — the trace classes are pytrees whose flatten/unflatten is the identity on all array
# fields, with Python-static data (Const values, the abstract callee) in the tree definition


@contract("genjax.core:Pytree.dataclass", ["C05"])
class PytreeRoundTrip(Contract):
    """unflatten(flatten(t)) == t for Tr / ScanTr / CondTr / Const / ParticleCollection / MCMCResult with symbolic
    leaves; every array-valued field is a leaf (so jit/vmap/indexing act on all of them alike), Const values are
    static"""

    cases = ["Tr", "ScanTr", "CondTr", "Const", "ParticleCollection", "MCMCResult"]

    def call(self, case):
        g = AbsGF("h")
        n = fresh("n", z3.IntSort())
        mk = lambda nm: Tensor.fresh(nm, (n,), V)
        tr = core.Tr(g, ((mk("a0"),), {"kw": mk("kw")}), {"x": mk("x"), "sub": {"y": mk("y")}}, mk("ret"), Tensor.fresh("score", (n,)))
        if case == "Tr":
            obj = tr
        elif case == "ScanTr":
            obj = core.ScanTr(core.Scan(g, core.Const(3)), ((mk("init"), mk("xs")), {}), tr, mk("carry"), mk("outs"))
        elif case == "CondTr":
            obj = core.CondTr(core.Cond(g, g), Tensor.fresh("check", (n,), z3.BoolSort()), [tr, tr])
        elif case == "Const":
            obj = core.Const(7)
        elif case == "ParticleCollection":
            smc = loader.load("inference.smc")
            obj = smc.ParticleCollection(traces=tr, log_weights=Tensor.fresh("w", (n,)), diagnostic_weights=Tensor.fresh("dw", (n,)), n_samples=core.Const(5), log_marginal_estimate=real("est"))
        else:
            mcmc = loader.load("inference.mcmc")
            obj = mcmc.MCMCResult(traces=tr, accepts=Tensor.fresh("acc", (n,), z3.BoolSort()), acceptance_rate=real("rate"), n_steps=core.Const(4), n_chains=core.Const(1))
        self.obj = obj
        is_leaf = lambda x: isinstance(x, (Sym, Tensor)) or x is g
        leaves, treedef = self.real(real_jtu.tree_flatten, obj, is_leaf=is_leaf)
        back = self.real(real_jtu.tree_unflatten, treedef, leaves)
        leaves2, treedef2 = real_jtu.tree_flatten(back, is_leaf=is_leaf)
        self.g = g
        return leaves, treedef, back, leaves2, treedef2

    def ensures(self, case, path):
        yield "does_not_raise", path.outcome == "return"
        if path.outcome != "return":
            return
        leaves, treedef, back, leaves2, treedef2 = path.value
        yield "round_trip_preserves_every_leaf_in_order", len(leaves) == len(leaves2) and all(a is b for a, b in zip(leaves, leaves2))
        yield "round_trip_preserves_the_tree_definition", treedef == treedef2 and type(back) is type(self.obj)
        arr = [l for l in leaves if isinstance(l, (Sym, Tensor))]
        want = {"Tr": 6, "ScanTr": 10, "CondTr": 13, "Const": 0, "ParticleCollection": 9, "MCMCResult": 8}[case]
        yield "every_array_field_is_a_leaf(static_data_is_not)", len(arr) == want


@contract("genjax.inference.smc:ParticleCollection.estimate", ["C10"])
class PCEstimate(_NoReplay):
    """self-normalised weighted average: sum_i softmax(log w)_i f(choices_i)"""

    cases = ["scalar_valued_f"]

    def call(self, case):
        from . import smc as SMC

        smc = SMC.smc
        n = SMC.n_sym()
        self.n = n
        self.p = SMC.particles(n, AbsGF("m"))
        self.F = z3.Function("Fval", V, z3.RealSort())
        return self.real(self.p.estimate, lambda ch: Sym(self.F(_lift(ch))))

    def ensures(self, case, path):
        yield "does_not_raise", path.outcome == "return"
        if path.outcome == "return":
            p, n = self.p, self.n
            w = p.log_weights
            L = mk_lse(n, lambda i: w.fn((i,)))
            want = mk_sum(n, lambda i: jnp_stub._EXP(w.fn((i,)) - L) * self.F(p.traces.x.fn((i,))))
            yield "self_normalised_weighted_average", same(path.value, Sym(want))
