"""C20 — the exact state-space baselines compute the textbook recursions (index-level tensor semantics, all
sizes, all sequence lengths >= 1).  That those recursions equal brute-force summation / joint-Gaussian
conditioning is cited (A-MATH), as is floating-point stability (A-REAL)."""
from __future__ import annotations

import types
from vt.stubs.ns import StubNS

import z3

from vt import loader
from vt.contract import Contract, contract
from vt.gfi import enc
from vt.maps import vt_len
from vt.stubs import jnp as jnp_stub, jtu as jtu_stub, lax as lax_stub, vmap as vmap_stub
from vt.sym import Assumed, EngineLimit, Sym, V, _lift, engine, fresh, integer, real, value
from vt.tensor import Tensor, mk_lse, mk_sum, LOG, dim_eq
from . import _patch  # noqa: F401
from .core_gfi import same
from .smc import CatStub

core = loader.load("core")
ss = loader.load("extras.state_space")
JNP = jnp_stub.namespace(int32="int32")
CATS = CatStub()


class CatDist:
    """categorical as a generative function inside @gen bodies and as a sampler"""

    def __call__(self, *a, **k):
        return core.Thunk(self, a, k) if core.handler_stack else None

    def sample(self, logits=None, sample_shape=()):
        return CATS.sample(logits, sample_shape=sample_shape) if sample_shape else _cat_scalar(logits)


CatOne = z3.Function("CategoricalDraw1", z3.ArraySort(z3.IntSort(), z3.RealSort()), z3.IntSort(), z3.IntSort(), z3.IntSort())
CAT_CALLS = []


def _cat_scalar(logits):
    from vt.gfi import next_nonce
    from vt.tensor import _toreal, _dterm

    Assumed.note("A-TFP: categorical.sample(logits) draws index i with probability softmax(logits)_i")
    nu = next_nonce()
    CAT_CALLS.append({"logits": logits, "nonce": nu})
    i = z3.Int("cat1!i")
    return Sym(CatOne(z3.Lambda([i], _toreal(logits.fn((i,)))), _dterm(logits.shape[0]), nu))


CAT = CatDist()
MVN = StubNS()
ss.jnp = JNP
ss.jax = StubNS(
    lax=StubNS(scan=lax_stub.scan, select=lax_stub.select),
    scipy=StubNS(
        special=StubNS(logsumexp=jnp_stub.logsumexp),
        stats=StubNS(multivariate_normal=StubNS(logpdf=jnp_stub.mvn_logpdf)),
    ),
    tree=StubNS(map=jtu_stub.tree_map),
)
ss.len = vt_len
ss.categorical = CAT


def reset():
    CAT_CALLS.clear()
    CATS.calls.clear()


class _Native(Contract):
    native = None

    def replay(self, case, clause, model, path):
        from .native import run_native

        return run_native("state_space_native", self.native or "hmm")


def logt(t):
    return t.map(JNP.log)


def hmm_inputs(self, T=None):
    eng = engine()
    self.T = fresh("T", z3.IntSort()) if T is None else T
    self.K, self.M = fresh("K", z3.IntSort()), fresh("M", z3.IntSort())
    eng.assume(z3.And(self.T >= 1, self.K >= 1, self.M >= 1))
    self.obs = Tensor.fresh("y", (self.T,), z3.IntSort())
    self.pi = Tensor.fresh("pi", (self.K,))
    self.Tr = Tensor.fresh("Trans", (self.K, self.K))
    self.Em = Tensor.fresh("Emit", (self.K, self.M))


def L(e):
    return jnp_stub._LOG(e)


@contract("genjax.extras.state_space:forward_filter", ["C20"])
class ForwardFilter(_Native):
    """alpha_0(k) = log E[k,y_0] + log pi(k); alpha_t(j) = log E[j,y_t] + LSE_i(alpha_{t-1}(i) + log T[i,j]);
    log marginal = LSE_k alpha_{T-1}(k); returned filter = alpha - row-wise LSE"""

    cases = ["T>=1"]
    native = "hmm"

    def call(self, case):
        reset()
        hmm_inputs(self)
        return self.real(self.fn, self.obs, self.pi, self.Tr, self.Em)

    def ensures(self, case, path):
        yield "does_not_raise", path.outcome == "return"
        if path.outcome != "return":
            return
        alpha_n, logm = path.value
        T, K = self.T, self.K
        k, j, r = (fresh(n, z3.IntSort()) for n in "kjr")
        a0 = lambda kk: L(self.Em.fn((kk, self.obs.fn((z3.IntVal(0),))))) + L(self.pi.fn((kk,)))
        scans = path.extra.get("scans", [])
        if not scans:
            # path T == 1
            yield "single_step:log_marginal", same(logm, Sym(mk_lse(K, a0)))
            yield "single_step:normalised_filter", alpha_n.fn((z3.IntVal(0), k)) == a0(k) - mk_lse(K, a0)
            yield "single_step_path_only_when_T_is_1", z3.And(*path.pc) == z3.And(*path.pc, T == 1) if False else z3.Implies(z3.And(*path.pc), T == 1)
            return
        yield "one_scan_over_times_1..T-1", len(scans) == 1 and z3.eq(z3.simplify(scans[0]["T"] - (T - 1)), z3.IntVal(0)) or z3.Implies(z3.And(*path.pc), scans[0]["T"] == T - 1)
        rec = scans[0]
        s = rec["t"]
        C = rec["carry_t"]
        new = rec["new_carry"]
        yield "recursion_starts_at_alpha_0", isinstance(rec["init"], Tensor) and rec["init"].fn((k,)) == a0(k)
        y_next = self.obs.fn((1 + s,))
        step = L(self.Em.fn((j, y_next))) + mk_lse(K, lambda i: C.fn((i,)) + L(self.Tr.fn((i, j))))
        yield "step:alpha_t(j)=logE[j,y_t]+LSE_i(alpha_{t-1}(i)+logT[i,j])", new.fn((j,)) == step
        ys = lambda rr, kk: z3.substitute(new.fn((kk,)), (s, rr - 1))
        A = lambda rr, kk: z3.If(rr == 0, a0(kk), ys(rr, kk))
        rng = z3.And(r >= 0, r < T, k >= 0, k < K)
        yield "filter_row_r_is_alpha_r_minus_its_LSE", z3.Implies(rng, alpha_n.fn((r, k)) == A(r, k) - mk_lse(K, lambda kk: A(r, kk)))
        yield "log_marginal_is_LSE_of_the_last_alpha", same(logm, Sym(mk_lse(K, lambda kk: A(T - 1, kk))))


@contract("genjax.extras.state_space:compute_sequence_log_prob", ["C20"])
class SeqLogProb(_Native):
    """log pi(x_0) + log E[x_0,y_0] + sum_{t>=1} (log T[x_{t-1},x_t] + log E[x_t,y_t])"""

    cases = ["T>=1"]
    native = "hmm"

    def call(self, case):
        reset()
        hmm_inputs(self)
        self.x = Tensor.fresh("x", (self.T,), z3.IntSort())
        return self.real(self.fn, self.x, self.obs, self.pi, self.Tr, self.Em)

    def ensures(self, case, path):
        yield "does_not_raise", path.outcome == "return"
        if path.outcome != "return":
            return
        x, y = self.x, self.obs
        scans = path.extra.get("scans", [])
        yield "one_scan_over_times_1..T-1", len(scans) == 1
        if len(scans) != 1:
            return
        rec = scans[0]
        s = rec["t"]
        z0 = z3.IntVal(0)
        yield "initial_term", same(rec["init"], Sym(L(self.pi.fn((x.fn((z0,)),))) + L(self.Em.fn((x.fn((z0,)), y.fn((z0,)))))))
        t = 1 + s
        inc = L(self.Tr.fn((x.fn((t - 1,)), x.fn((t,))))) + L(self.Em.fn((x.fn((t,)), y.fn((t,)))))
        yield "step_adds_transition_and_emission_terms_with_the_right_index_pairs", same(rec["new_carry"], rec["carry_t"] + Sym(inc))
        yield "number_of_steps_is_T-1", z3.Implies(z3.And(*path.pc), rec["T"] == z3.If(self.T > 1, self.T - 1, 0))
        yield "returns_the_final_accumulator", same(path.value, rec["carry_at"](rec["T"]))


@contract("genjax.extras.state_space:backward_sample", ["C20"])
class BackwardSample(_Native):
    """x_{T-1} ~ Cat(alpha_{T-1}); for t = T-2..0: x_t ~ Cat(alpha_t(.) + log T[., x_{t+1}]); written back in time order"""

    cases = ["T>=1"]
    native = "hmm"

    def call(self, case):
        reset()
        eng = engine()
        self.T, self.K = fresh("T", z3.IntSort()), fresh("K", z3.IntSort())
        eng.assume(z3.And(self.T >= 1, self.K >= 1))
        self.alpha = Tensor.fresh("alpha", (self.T, self.K))
        self.Tr = Tensor.fresh("Trans", (self.K, self.K))
        return self.real(self.fn, self.alpha, self.Tr)

    def ensures(self, case, path):
        yield "does_not_raise", path.outcome == "return"
        if path.outcome != "return":
            return
        T, K = self.T, self.K
        states = path.value
        k = fresh("k", z3.IntSort())
        yield "first_draw_uses_the_last_filter_row_as_logits", len(CAT_CALLS) >= 1 and CAT_CALLS[0]["logits"].fn((k,)) == self.alpha.fn((T - 1, k))
        scans = path.extra.get("scans", [])
        from vt.tensor import _toreal

        i = z3.Int("cat1!i")
        last = CatOne(z3.Lambda([i], _toreal(self.alpha.fn((T - 1, i)))), K, CAT_CALLS[0]["nonce"])
        yield "last_state_is_that_draw", states.fn((T - 1,)) == last
        if not scans:
            yield "no_scan_only_when_T_is_1", z3.Implies(z3.And(*path.pc), T == 1)
            return
        rec = scans[0]
        s = rec["t"]
        t = T - 2 - s  # time handled at scan step s
        yield "scan_runs_T-1_steps_from_T-2_down_to_0", z3.Implies(z3.And(*path.pc), rec["T"] == T - 1)
        yield "scan_starts_from_the_last_state", same(rec["init"], Sym(last))
        nxt = _lift(rec["carry_t"])
        lg = CAT_CALLS[1]["logits"]
        yield "step_logits_are_alpha_t_plus_log_T[., x_{t+1}]", lg.fn((k,)) == self.alpha.fn((t, k)) + L(self.Tr.fn((k, nxt)))
        yield "sampled_state_is_carried_to_the_earlier_time", rec["new_carry"] is rec["y"]
        r = fresh("r", z3.IntSort())
        draw_at = lambda ss_: z3.substitute(_lift(rec["y"]), (s, ss_))
        # state at time r (< T-1) is the draw made at scan step T-2-r
        yield "states_written_back_in_time_order", z3.Implies(z3.And(r >= 0, r < T - 1), states.fn((r,)) == draw_at(T - 2 - r))


class HandlerRec:
    def __init__(self):
        self.sites = []

    def __call__(self, addr, gf, args, kwargs=None):
        self.sites.append((addr, gf, args, kwargs))
        return Sym(fresh("site_" + addr, z3.IntSort())) if gf is CAT else Tensor.fresh("site_" + addr, (self_dim[0],))


self_dim = [None]


@contract("genjax.extras.state_space:_discrete_hmm", ["C20"])
class HmmStep(_Native):
    """one step of the HMM model: state ~ Cat(is_initial ? log pi : log T[prev]); obs ~ Cat(log E[state]); returns the carry"""

    cases = ["default"]
    native = "hmm"

    def call(self, case):
        reset()
        hmm_inputs(self)
        self.prev, self.ti = Sym(fresh("prev", z3.IntSort())), Sym(fresh("time", z3.IntSort()))
        core.handler_stack.clear()
        self.h = HandlerRec()
        core.handler_stack.append(self.h)
        try:
            return self.real(ss._discrete_hmm, self.prev, self.ti, self.pi, self.Tr, self.Em)
        finally:
            core.handler_stack.clear()

    def ensures(self, case, path):
        yield "does_not_raise", path.outcome == "return"
        if path.outcome != "return":
            return
        s = self.h.sites
        yield "two_categorical_sites_state_then_obs", [x[0] for x in s] == ["state", "obs"] and all(x[1] is CAT for x in s)
        if len(s) != 2:
            return
        k = fresh("k", z3.IntSort())
        lg = s[0][2][0]
        want = z3.If(self.ti.e == 0, L(self.pi.fn((k,))), L(self.Tr.fn((self.prev.e, k))))
        yield "state_logits_select(is_initial, log_pi, log_T[prev])", lg.fn((k,)) == want
        st = path.value[0]
        lo = s[1][2][0]
        yield "obs_logits_are_log_E[state]", lo.fn((k,)) == L(self.Em.fn((_lift(st), k)))
        yield "returns_(state, time+1, parameters)", same(path.value[1], self.ti + 1) and path.value[2] is self.pi and path.value[3] is self.Tr and path.value[4] is self.Em


# ------------------------------------------------------------------------------------------------
# linear Gaussian


def lg_inputs(self, int_prior=False):
    eng = engine()
    self.T, self.ds, self.do = (fresh(n, z3.IntSort()) for n in ("T", "d_state", "d_obs"))
    eng.assume(z3.And(self.T >= 1, self.ds >= 1, self.do >= 1))
    self.y = Tensor.fresh("y", (self.T, self.do))
    # an INTEGER-typed prior (e.g. m0 = jnp.zeros(d, int), P0 = jnp.eye(d, dtype=int)) is a legal input: the filtered
    # moments are still real numbers (nothing may be stored at the prior's dtype)
    srt = z3.IntSort() if int_prior else None
    self.m0, self.P0 = Tensor.fresh("m0", (self.ds,), srt), Tensor.fresh("P0", (self.ds, self.ds), srt)
    self.A, self.Q = Tensor.fresh("A", (self.ds, self.ds)), Tensor.fresh("Q", (self.ds, self.ds))
    self.C, self.R = Tensor.fresh("C", (self.do, self.ds)), Tensor.fresh("R", (self.do, self.do))


def veq(a, b):
    return same(a, b)


def kalman_update(self, m_pred, P_pred, y_t):
    """textbook update from the predicted moments: innovation, S, gain K = P C^T S^-1, m+ = m + K v, P+ = P - K C P"""
    C, R = self.C, self.R
    v = y_t - C @ m_pred
    S_ = C @ P_pred @ C.T + R
    K = P_pred @ C.T @ jnp_stub.inv(S_)
    m = m_pred + K @ v
    P = P_pred - K @ C @ P_pred
    ll = jnp_stub.mvn_logpdf(v, jnp_stub.zeros(v.shape), S_)
    return m, P, ll


@contract("genjax.extras.state_space:kalman_filter", ["C20"])
class KalmanFilter(_Native):
    """first step updates the PRIOR (m0, P0) with y_0; step t: predict m- = A m, P- = A P A^T + Q, then the same
    update with y_t; log marginal = sum_t log N(innovation_t; 0, S_t); shapes for d_obs != d_state"""

    cases = ["T>=1", "T>=1:integer_typed_prior"]
    native = "kalman"

    def call(self, case):
        reset()
        lg_inputs(self, int_prior="integer_typed_prior" in case)
        return self.real(self.fn, self.y, self.m0, self.P0, self.A, self.Q, self.C, self.R)

    def ensures(self, case, path):
        yield "does_not_raise", path.outcome == "return"
        if path.outcome != "return":
            return
        means, covs, logm = path.value
        T = self.T
        m_f0, P_f0, ll0 = kalman_update(self, self.m0, self.P0, self.y[0])
        scans = path.extra.get("scans", [])
        yield "row_0_is_the_prior_updated_with_y_0", z3.And(veq(means[0], m_f0), veq(covs[0], P_f0))
        if not scans:
            yield "no_scan_only_when_T_is_1", z3.Implies(z3.And(*path.pc), T == 1)
            yield "single_step_log_marginal", same(logm, ll0)
            return
        rec = scans[0]
        s = rec["t"]
        yield "scan_runs_T-1_steps", z3.Implies(z3.And(*path.pc), rec["T"] == T - 1)
        im, iP, il = rec["init"]
        yield "recursion_starts_from_the_first_filtered_moments", z3.And(veq(im, m_f0), veq(iP, P_f0), same(il, ll0))
        cm, cP, cl = rec["carry_t"]
        A = self.A
        m_pred = A @ cm
        P_pred = A @ cP @ A.T + self.Q
        m_f, P_f, ll = kalman_update(self, m_pred, P_pred, self.y[Sym(1 + s)])
        nm, nP, nl = rec["new_carry"]
        yield "step:predict_then_update_mean", veq(nm, m_f)
        yield "step:predict_then_update_covariance", veq(nP, P_f)
        yield "step:log_marginal_accumulates_the_innovation_log_density", same(nl, cl + ll)
        ym, yP = rec["y"]
        yield "step_outputs_are_the_filtered_moments", z3.And(veq(ym, nm), veq(yP, nP))
        r, i, j = (fresh(n, z3.IntSort()) for n in "rij")
        sub = lambda e, rr: z3.substitute(e, (s, rr - 1))
        yield "rows_1..T-1_are_the_scan_outputs_in_time_order", z3.Implies(
            z3.And(r >= 1, r < T), z3.And(means.fn((r, i)) == sub(nm.fn((i,)), r), covs.fn((r, i, j)) == sub(nP.fn((i, j)), r))
        )
        fm, fP, fl = rec["carry_at"](rec["T"])
        yield "log_marginal_is_the_final_accumulator", same(logm, fl)
        yield "shapes_(T,d_state)_and_(T,d_state,d_state)", dim_eq(means.shape[1], self.ds) and dim_eq(covs.shape[1], self.ds) and dim_eq(covs.shape[2], self.ds) and dim_eq(means.shape[0], T)


@contract("genjax.extras.state_space:kalman_smoother", ["C20"])
class KalmanSmoother(_Native):
    """RTS: last row = last filtered moments; for t = T-2..0: G = P_t A^T (A P_t A^T + Q)^-1,
    m^s_t = m_t + G (m^s_{t+1} - A m_t), P^s_t = P_t + G (P^s_{t+1} - P-_{t+1}) G^T; time alignment of the reversed scan"""

    cases = ["T>=1"]
    native = "kalman"

    def call(self, case):
        reset()
        lg_inputs(self)
        self.fm, self.fP = Tensor.fresh("filt_mean", (self.T, self.ds)), Tensor.fresh("filt_cov", (self.T, self.ds, self.ds))
        self.kf = []
        outer = self
        self._o = ss.kalman_filter
        ss.kalman_filter = lambda *a: outer.kf.append(a) or (outer.fm, outer.fP, real("lm"))
        try:
            return self.real(self.fn, self.y, self.m0, self.P0, self.A, self.Q, self.C, self.R)
        finally:
            ss.kalman_filter = self._o

    def ensures(self, case, path):
        yield "does_not_raise", path.outcome == "return"
        if path.outcome != "return":
            return
        sm, sP = path.value
        T = self.T
        yield "filtered_once_on_the_same_model_and_data", len(self.kf) == 1 and all(a is b for a, b in zip(self.kf[0], (self.y, self.m0, self.P0, self.A, self.Q, self.C, self.R)))
        i, j, r = (fresh(n, z3.IntSort()) for n in "ijr")
        yield "last_row_is_the_last_filtered_moments", z3.And(sm.fn((T - 1, i)) == self.fm.fn((T - 1, i)), sP.fn((T - 1, i, j)) == self.fP.fn((T - 1, i, j)))
        scans = path.extra.get("scans", [])
        if not scans:
            yield "no_scan_only_when_T_is_1", z3.Implies(z3.And(*path.pc), T == 1)
            return
        rec = scans[0]
        s = rec["t"]
        t = T - 2 - s
        yield "scan_runs_T-1_steps_from_T-2_down_to_0", z3.Implies(z3.And(*path.pc), rec["T"] == T - 1)
        im, iP = rec["init"]
        yield "recursion_starts_from_the_last_filtered_moments", z3.And(im.fn((i,)) == self.fm.fn((T - 1, i)), iP.fn((i, j)) == self.fP.fn((T - 1, i, j)))
        nm_, nP_ = rec["carry_t"]
        A = self.A
        m_t, P_t = self.fm[Sym(t)], self.fP[Sym(t)]
        m_pred = A @ m_t
        P_pred = A @ P_t @ A.T + self.Q
        G = P_t @ A.T @ jnp_stub.inv(P_pred)
        want_m = m_t + G @ (nm_ - m_pred)
        want_P = P_t + G @ (nP_ - P_pred) @ G.T
        om, oP = rec["new_carry"]
        yield "step:RTS_mean", veq(om, want_m)
        yield "step:RTS_covariance", veq(oP, want_P)
        sub = lambda e, rr: z3.substitute(e, (s, T - 2 - rr))
        yield "rows_0..T-2_are_the_scan_outputs_written_back_in_time_order", z3.Implies(
            z3.And(r >= 0, r < T - 1), z3.And(sm.fn((r, i)) == sub(om.fn((i,)), r), sP.fn((r, i, j)) == sub(oP.fn((i, j)), r))
        )


class MvnGF:
    def __call__(self, *a, **k):
        return core.Thunk(self, a, k)


MVNGF = MvnGF()
ss.multivariate_normal = MVNGF


@contract("genjax.extras.state_space:_linear_gaussian", ["C20"])
class LgStep(_Native):
    """one step of the linear-Gaussian model: state ~ N(is_initial ? m0 : A prev, is_initial ? P0 : Q); obs ~ N(C state, R)"""

    cases = ["default"]
    native = "kalman"

    def call(self, case):
        reset()
        lg_inputs(self)
        self.prev = Tensor.fresh("prev", (self.ds,))
        self.ti = Sym(fresh("time", z3.IntSort()))
        core.handler_stack.clear()
        self_dim[0] = self.ds
        self.h = HandlerRec()
        core.handler_stack.append(self.h)
        try:
            return self.real(ss._linear_gaussian, self.prev, self.ti, self.m0, self.P0, self.A, self.Q, self.C, self.R)
        finally:
            core.handler_stack.clear()

    def ensures(self, case, path):
        yield "does_not_raise", path.outcome == "return"
        if path.outcome != "return":
            return
        s = self.h.sites
        yield "two_mvn_sites_state_then_obs", [x[0] for x in s] == ["state", "obs"] and all(x[1] is MVNGF for x in s)
        if len(s) != 2:
            return
        i, j = fresh("i", z3.IntSort()), fresh("j", z3.IntSort())
        mean, cov = s[0][2]
        init = self.ti.e == 0
        Ap = self.A @ self.prev
        yield "state_mean_select(is_initial, m0, A prev)", mean.fn((i,)) == z3.If(init, self.m0.fn((i,)), Ap.fn((i,)))
        yield "state_cov_select(is_initial, P0, Q)", cov.fn((i, j)) == z3.If(init, self.P0.fn((i, j)), self.Q.fn((i, j)))
        st = path.value[0]
        om, oc = s[1][2]
        yield "obs_mean_is_C_state_and_cov_R", z3.And(om.fn((i,)) == (self.C @ st).fn((i,)), oc is self.R if isinstance(oc is self.R, bool) else True)
        yield "obs_cov_is_R", oc is self.R
        yield "returns_(state, time+1, parameters)", same(path.value[1], self.ti + 1) and path.value[2] is self.m0 and path.value[4] is self.A and path.value[6] is self.C

from vt.contract import track as _track  # noqa: E402

_track(CAT_CALLS, CATS.calls)

from vt.contract import canary as _canary  # noqa: E402

_canary(ForwardFilter, "T>=1", "step:alpha_t(j)=logE[j,y_t]+LSE_i(alpha_{t-1}(i)+logT[i,j])")
_canary(KalmanFilter, "T>=1", "step:predict_then_update_covariance")
