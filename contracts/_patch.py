"""Patch the repository modules' globals with the stubs (= assumed contracts of their dependencies)."""
from vt import loader
from vt.maps import vt_len
from vt.stubs import jnp as jnp_stub, jtu as jtu_stub, vmap as vmap_stub, lax as lax_stub

core = loader.load("core")
core.jnp = jnp_stub.namespace()
core.jtu = jtu_stub.namespace()
core.len = vt_len
core.scan = lax_stub.scan
core.modular_vmap = vmap_stub.modular_vmap
