"""C06 / C07 (and the Seed part of C14): the seed interpreter in the JAX-0.7 API model.

The real `Seed.eval_jaxpr_seed` / `Seed.eval` / `seed` run on model Jaxprs (vt.stubs.jaxpr07) with a
symbolic environment and a symbolic key over the free key algebra.  A one-equation Jaxpr whose input
environment and `self.key` are symbolic is the generic inductive step of the equation loop (the body
reads only `eqn`, `env[eqn.invars]` and `self.key`).
"""
from __future__ import annotations

import types
from vt.stubs.ns import StubNS

import z3

from vt import loader
from vt.contract import Contract, contract
from vt.gfi import enc
from vt.stubs import jaxpr07 as J, jnp as jnp_stub, lax as lax_stub
from vt.sym import Assumed, EngineLimit, Sym, V, _lift, engine, fresh, value
from vt.tensor import Tensor
from .core_gfi import same

pjax = loader.load("pjax")

# ---- patch the module's dependencies with the API model -------------------------------------------
pjax.jrand = J.jrand
# abstract value of a leaf: shape/dtype information only — the same for all values of one kind, whatever their
# position in the argument tree
pjax.jc = StubNS(DropVar=J.DropVar, get_aval=lambda x: ("aval", type(x).__name__), eval_jaxpr=None, TraceTag=object, Tracer=J.Tracer)
pjax.Literal, pjax.Var = J.Literal, J.Var
pjax.cond_p, pjax.scan_p = J.cond_p, J.scan_p
pjax.switch = J.switch
pjax.scan = lax_stub.scan
pjax.jex = StubNS(core=StubNS(jaxpr_as_fun=J.jaxpr_as_fun))
STAGE = J._Stage()
pjax.stage = STAGE
pjax.jnp = jnp_stub.namespace()
pjax.split_list = J.split_list
pjax.safe_map = J.safe_map

Key = J.Key
DrawK = z3.Function("DrawK", z3.IntSort(), Key, V, V)  # (site id, key, encoded args) -> value


class Taint:
    """stands for the process-global key counter: any touch is recorded"""

    def __init__(self):
        object.__setattr__(self, "touched", 0)

    def __getattr__(self, n):
        object.__setattr__(self, "touched", self.touched + 1)
        return 0

    def __setattr__(self, n, v):
        object.__setattr__(self, "touched", self.touched + 1)


def install_taint():
    t = Taint()
    pjax.global_counter = t
    pjax._fake_key = Sym(Key.tainted)
    return t


class Site:
    """a sample_p / adev_sample_p site: PPPrimitive instance with a recording flat keyed sampler"""

    _ids = 0

    def __init__(self, inner=None, n_out=1, name="site"):
        Site._ids += 1
        self.id = Site._ids
        self.calls, self.binds = [], []
        self.n_out = n_out
        inner = pjax.sample_p if inner is None else inner
        p = object.__new__(pjax.PPPrimitive)
        p.prim, p.multiple_results = inner, True
        p.params = {"flat_keyful_sampler": self.flat, "sample_shape": (), "num_consts": 0, "marker": name}
        p.get_bind_params = lambda params: ([], dict(params))
        p.bind = self.bind
        self.prim = p

    def flat(self, key, *args, **params):
        self.calls.append((key, args, params))
        return [Sym(DrawK(z3.IntVal(self.id * 10 + k), _lift(key), enc(tuple(args)))) for k in range(self.n_out)]

    def bind(self, *args, **params):  # the keyless implementation: hidden global randomness
        self.binds.append((args, params))
        return [Sym(DrawK(z3.IntVal(self.id * 10 + k), Key.tainted, enc(tuple(args)))) for k in range(self.n_out)]


def interp(key):
    return pjax.Seed(key)


def outputs_tainted(outs):
    return any(isinstance(o, Sym) and J.key_uses_tainted(o.e) for o in outs)


class _SeedStep(Contract):
    def replay(self, case, clause, model, path):
        return {"tier": "API-model", "confirmed": False, "note": "seed cannot execute on the sandbox's JAX 0.11; the obligation is over the JAX-0.7 API model"}


@contract("genjax.pjax:Seed.eval_jaxpr_seed", ["C06", "C07", "C14"])
class SeedSampleStep(_SeedStep):
    """generic step at a sample site (sample_p and adev_sample_p), symbolic key and environment"""

    cases = ["sample_p", "adev_sample_p", "two_outputs", "literal_operand"]

    def call(self, case):
        self.taint = install_taint()
        self.k0 = J.key_const("k0")
        inner = pjax.adev_sample_p if case == "adev_sample_p" else pjax.sample_p
        self.site = Site(inner, n_out=2 if case == "two_outputs" else 1)
        c, x, y = J.Var("c"), J.Var("x"), J.Var("y")
        outs = [J.Var("o%d" % k) for k in range(self.site.n_out)]
        self.vc, self.vx, self.vy = value("c"), value("x"), value("y")
        self.lit = value("lit")
        operands = [c, x, J.Literal(self.lit)] if case == "literal_operand" else [c, x]
        self.expected_args = [self.vc, self.vx] + ([self.lit] if case == "literal_operand" else [])
        jp = J.Jaxpr([c], [x, y], [J.Eqn(self.site.prim, operands, outs, {"p": 1})], outs + [y])
        self.it = interp(self.k0)
        return self.real(self.it.eval_jaxpr_seed, jp, [self.vc], [self.vx, self.vy])

    def ensures(self, case, path):
        yield "does_not_raise", path.outcome == "return"
        if path.outcome != "return":
            return
        outs = path.value
        k0 = self.k0.e
        s = self.site
        yield "keyed_sampler_called_once", len(s.calls) == 1
        yield "site_not_rebound(no_keyless_impl)", len(s.binds) == 0
        if len(s.calls) != 1:
            return
        key, args, params = s.calls[0]
        yield "site_key_is_second_half_of_split", same(key, Sym(Key.R(k0)))
        yield "interpreter_key_advanced_to_first_half", same(self.it.key, Sym(Key.L(k0)))
        yield "sampler_gets_the_sites_operands_in_order", len(args) == len(self.expected_args) and all(a is b for a, b in zip(args, self.expected_args))
        yield "inner_params_forwarded", params.get("marker") == "site" and "flat_keyful_sampler" in params
        yield "outputs_are_the_keyed_draws", all(
            same(outs[k], Sym(DrawK(z3.IntVal(s.id * 10 + k), Key.R(k0), enc(tuple(self.expected_args))))) for k in range(s.n_out)
        )
        yield "other_variables_untouched", outs[-1] is self.vy
        yield "no_hidden_randomness(global_counter,_fake_key)", self.taint.touched == 0 and not outputs_tainted(outs)
        yield "key_rooted_at_callers_key", J.mentions(_lift(key), k0)


@contract("genjax.pjax:Seed.eval_jaxpr_seed", ["C06", "C07", "C14"])
class SeedDeterministicStep(_SeedStep):
    """any other primitive is bound unchanged and consumes no randomness"""

    cases = ["single_result", "multiple_results"]

    def call(self, case):
        self.taint = install_taint()
        self.k0 = J.key_const("k0")
        multi = case == "multiple_results"
        self.p = J.Prim("f", multiple_results=multi, n_out=2 if multi else 1)
        x, y = J.Var("x"), J.Var("y")
        outs = [J.Var("o0"), J.Var("o1")] if multi else [J.Var("o0")]
        self.vx, self.vy = value("x"), value("y")
        jp = J.Jaxpr([], [x, y], [J.Eqn(self.p, [x, y], outs, {"axis": 3})], outs)
        self.it = interp(self.k0)
        return self.real(self.it.eval_jaxpr_seed, jp, [], [self.vx, self.vy])

    def ensures(self, case, path):
        yield "does_not_raise", path.outcome == "return"
        if path.outcome != "return":
            return
        yield "bound_once_with_operands_and_params", len(self.p.binds) == 1 and self.p.binds[0][0] == (self.vx, self.vy) and all(
            a is b for a, b in zip(self.p.binds[0][0], (self.vx, self.vy))
        ) and self.p.binds[0][1] == {"axis": 3}
        yield "key_unchanged", self.it.key is self.k0
        yield "no_hidden_randomness", self.taint.touched == 0


@contract("genjax.pjax:Seed.eval_jaxpr_seed", ["C06", "C07"])
class SeedSequence(_SeedStep):
    """two sites in sequence: distinct sub-keys R(k0), R(L(k0)); a deterministic equation in between
    does not advance the key"""

    cases = ["sample;det;sample"]

    def call(self, case):
        self.taint = install_taint()
        self.k0 = J.key_const("k0")
        self.s1, self.s2 = Site(name="site"), Site(name="site")
        self.p = J.Prim("f")
        x = J.Var("x")
        a, b, c = J.Var("a"), J.Var("b"), J.Var("c")
        self.vx = value("x")
        jp = J.Jaxpr([], [x], [J.Eqn(self.s1.prim, [x], [a]), J.Eqn(self.p, [a], [b]), J.Eqn(self.s2.prim, [b], [c])], [a, c])
        self.it = interp(self.k0)
        return self.real(self.it.eval_jaxpr_seed, jp, [], [self.vx])

    def ensures(self, case, path):
        yield "does_not_raise", path.outcome == "return"
        if path.outcome != "return":
            return
        k0 = self.k0.e
        k1 = self.s1.calls[0][0] if self.s1.calls else None
        k2 = self.s2.calls[0][0] if self.s2.calls else None
        yield "first_site_key", same(k1, Sym(Key.R(k0)))
        yield "second_site_key", same(k2, Sym(Key.R(Key.L(k0))))
        yield "site_keys_distinct", z3.Not(_lift(k1) == _lift(k2))
        yield "second_site_reads_the_value_computed_from_the_first_draw", len(self.s2.calls) == 1 and len(self.p.binds) == 1 and self.p.binds[0][0][0] is path.value[0]
        yield "final_key", same(self.it.key, Sym(Key.L(Key.L(k0))))


def _closed(jaxpr, consts=()):
    return J.ClosedJaxpr(jaxpr, list(consts))


@contract("genjax.pjax:Seed.eval_jaxpr_seed", ["C06", "C07", "C14"])
class SeedCondStep(_SeedStep):
    """cond: one sub-key for the whole cond goes to `switch`; every branch is a nested seed interpreter
    rooted at that sub-key; sites inside branches are removed (never re-bound)"""

    cases = ["two_branches", "two_branches(traced_operands)"]

    def call(self, case):
        self.taint = install_taint()
        self.k0 = J.key_const("k0")
        self.sA, self.sB = Site(name="site"), Site(name="site")
        # branch jaxprs: one site each
        def branch(site):
            u = J.Var("u")
            o = J.Var("o")
            return _closed(J.Jaxpr([], [u], [J.Eqn(site.prim, [u], [o])], [o]))

        self.bA, self.bB = branch(self.sA), branch(self.sB)
        i, x, o = J.Var("i"), J.Var("x"), J.Var("o")
        self.vi, self.vx = Sym(fresh("idx", z3.IntSort())), value("x")
        engine().assume(z3.And(self.vi.e >= 0, self.vi.e < 2))  # a valid branch index
        if "traced" in case:  # the same obligations must hold for concrete (eager) and traced (jit) operands
            self.vi, self.vx = J.TracerSym(self.vi.e), J.TracerSym(self.vx.e)
        jp = J.Jaxpr([], [i, x], [J.Eqn(J.cond_p, [i, x], [o], {"branches": (self.bA, self.bB)})], [o])
        self.it = interp(self.k0)
        return self.real(self.it.eval_jaxpr_seed, jp, [], [self.vi, self.vx])

    def ensures(self, case, path):
        yield "does_not_raise", path.outcome == "return"
        if path.outcome != "return":
            return
        k0 = self.k0.e
        sw = path.extra.get("switch_calls", [])
        sub = Key.R(k0)
        # semantic clauses (must hold however the cond is executed, for concrete and for traced operands alike)
        yield "interpreter_key_advanced", same(self.it.key, Sym(Key.L(k0)))
        A = DrawK(z3.IntVal(self.sA.id * 10), Key.R(sub), enc((self.vx,)))
        B = DrawK(z3.IntVal(self.sB.id * 10), Key.R(sub), enc((self.vx,)))
        out = path.value[0]
        yield "result_is_the_taken_branchs_draw_keyed_below_the_conds_own_sub_key", same(out, Sym(z3.If(self.vi.e == 0, A, B)))
        yield "branch_sites_not_rebound", not self.sA.binds and not self.sB.binds
        yield "cond_primitive_itself_not_rebound", len(J.cond_p.binds) == 0
        yield "no_hidden_randomness", self.taint.touched == 0 and not outputs_tainted(path.value)
        used = [c[0] for c in self.sA.calls + self.sB.calls]
        yield "every_branch_site_keyed_strictly_below_the_delegated_key", all(z3.eq(z3.simplify(_lift(k)), z3.simplify(Key.R(sub))) for k in used) and len(used) >= 1
        # shape clauses, only where the implementation goes through lax.switch
        if len(sw) == 1:
            c = sw[0]
            yield "index_forwarded", c["index"] is self.vi
            yield "switch_gets_one_sub_key_then_the_operands", len(c["operands"]) == 2 and same(c["operands"][0], Sym(Key.R(k0))) and c["operands"][1] is self.vx
            yield "branches_in_order", len(c["branches"]) == 2

    def __init__(self):
        super().__init__()
        J.cond_p.binds.clear()


@contract("genjax.pjax:Seed.eval_jaxpr_seed", ["C06", "C07", "C14"])
class SeedScanStep(_SeedStep):
    """scan: one sub-key for the scan; iteration t runs a nested interpreter on fold_in(sub_key, t);
    the carried key is unchanged; consts/carry/xs plumbing; sites in the body are removed"""

    cases = ["forward", "reverse"]

    def call(self, case):
        self.rev = case == "reverse"
        self.taint = install_taint()
        self.k0 = J.key_const("k0")
        self.s = Site(name="site")
        # body(const, carry, x) -> (new_carry = draw(const, carry, x), y = draw)
        cst, car, xv = J.Var("cst"), J.Var("car"), J.Var("xv")
        d = J.Var("d")
        body = _closed(J.Jaxpr([], [cst, car, xv], [J.Eqn(self.s.prim, [cst, car, xv], [d])], [d, d]))
        self.T = fresh("T", z3.IntSort())
        engine().assume(self.T >= 0)
        k, c0, xs = J.Var("k"), J.Var("c0"), J.Var("xs")
        fc, ys = J.Var("fc"), J.Var("ys")
        self.vk, self.vc0 = value("const"), value("carry0")
        self.vxs = Tensor.fresh("xs", (self.T,), V)
        params = {"jaxpr": body, "length": Sym(self.T), "reverse": self.rev, "unroll": 1, "num_consts": 1, "num_carry": 1, "linear": None}
        jp = J.Jaxpr([], [k, c0, xs], [J.Eqn(J.scan_p, [k, c0, xs], [fc, ys], params)], [fc, ys])
        self.it = interp(self.k0)
        return self.real(self.it.eval_jaxpr_seed, jp, [], [self.vk, self.vc0, self.vxs])

    def ensures(self, case, path):
        yield "does_not_raise", path.outcome == "return"
        if path.outcome != "return":
            return
        k0 = self.k0.e
        scans = path.extra.get("scans", [])
        yield "one_scan_with_the_original_length", len(scans) == 1 and z3.eq(scans[0]["T"], self.T)
        if len(scans) != 1:
            return
        rec = scans[0]
        t = rec["t"]
        yield "scan_direction_preserved", bool(rec["reverse"]) == self.rev
        pos = (self.T - 1 - t) if self.rev else t  # the element of xs the original program reads in iteration t
        sub = Key.R(k0)
        yield "interpreter_key_advanced", same(self.it.key, Sym(Key.L(k0)))
        yield "keyed_sampler_called_once_per_generic_iteration", len(self.s.calls) == 1 and not self.s.binds
        if len(self.s.calls) != 1:
            return
        key, args, _ = self.s.calls[0]
        carry_t = rec["carry_at"](t)
        # scan induction on the carried key: Inv(t): carried key = sub_key.  Base and step are the two
        # obligations below; the claims about iteration t are proved under Inv(t).
        inv_t = same(carry_t[0], Sym(sub))
        yield "iteration_key_is_fold_in(sub_key, t)_then_split", z3.Implies(inv_t, same(key, Sym(Key.R(Key.F(sub, pos)))))
        # carry = (key, [carry_vals]); the carried key never changes
        new = rec["new_carry"]
        yield "carried_key_unchanged", same(new[0], carry_t[0])
        yield "carried_key_initialised_with_sub_key", same(rec["init"][0], Sym(sub))
        yield "body_operands_are_consts_carry_x", len(args) == 3 and args[0] is self.vk and same(args[1], carry_t[1][0]) and same(args[2], Sym(self.vxs.fn((pos,))))
        # (a reversed scan folds in the position of the element it reads: still one distinct index per iteration)
        draw = DrawK(z3.IntVal(self.s.id * 10), Key.R(Key.F(sub, pos)), enc(tuple(args)))
        yield "new_carry_is_body_carry_output", z3.Implies(inv_t, same(new[1][0], Sym(draw)))
        yield "scan_primitive_itself_not_rebound", len(J.scan_p.binds) == 0
        yield "no_hidden_randomness", self.taint.touched == 0 and not outputs_tainted([o for o in path.value if isinstance(o, Sym)])

    def __init__(self):
        super().__init__()
        J.scan_p.binds.clear()


@contract("genjax.pjax:seed", ["C06"])
class SeedWrapper(_SeedStep):
    """seed(f)(key, *args, **kwargs): a fresh interpreter per call, rooted at the caller's key; the
    result is eval's result (no state survives between calls)"""

    cases = ["two_calls"]

    def call(self, case):
        self.taint = install_taint()
        self.site = Site(name="site")
        x, o = J.Var("x"), J.Var("o")
        closed = _closed(J.Jaxpr([], [x], [J.Eqn(self.site.prim, [x], [o])], [o]))

        def f(x):
            raise EngineLimit("f's body is represented by its Jaxpr")

        f.__vt_jaxpr__ = closed
        self.k1, self.k2 = J.key_const("k1"), J.key_const("k2")
        self.vx = value("x")
        sf = pjax.seed(f)
        r1 = self.real(sf, self.k1, self.vx)
        r2 = self.real(sf, self.k2, self.vx)
        r3 = self.real(sf, self.k1, self.vx)
        return r1, r2, r3

    def ensures(self, case, path):
        yield "does_not_raise", path.outcome == "return"
        if path.outcome != "return":
            return
        r1, r2, r3 = path.value
        d = lambda k: Sym(DrawK(z3.IntVal(self.site.id * 10), Key.R(k.e), enc((self.vx,))))
        yield "result_is_function_of_key_and_args_only", z3.And(same(r1[0], d(self.k1)), same(r2[0], d(self.k2)))
        yield "repeating_the_call_gives_the_identical_term", z3.eq(_lift(r1[0]), _lift(r3[0]))
        yield "no_hidden_randomness", self.taint.touched == 0 and not outputs_tainted([r1[0], r2[0], r3[0]])


@contract("genjax.pjax:Seed.eval_jaxpr_seed", ["C06", "C07", "C14"])
class SeedNested(_SeedStep):
    """nested control flow: a site reachable only THROUGH an inner cond (none directly in the enclosing scan body /
    outer branch) is still keyed below the caller's key: the enclosing scan / cond consumes a sub-key of the interpreter's
    key whatever it contains, the inner site's key derives from it (never from the staging placeholder key), and
    distinct caller keys give distinct site keys"""

    cases = ["scan>cond>site", "cond>cond>site"]

    def call(self, case):
        self.taint = install_taint()
        self.k0 = J.key_const("k0")
        self.sA, self.sB = Site(name="A"), Site(name="B")

        def branch(site):
            u, o = J.Var("u"), J.Var("o")
            return _closed(J.Jaxpr([], [u], [J.Eqn(site.prim, [u], [o])], [o]))

        inner = {"branches": (branch(self.sA), branch(self.sB))}
        self.vi = Sym(fresh("idx", z3.IntSort()))
        self.it = interp(self.k0)
        if case == "scan>cond>site":
            cst, car, xv, d = J.Var("cst"), J.Var("car"), J.Var("xv"), J.Var("d")
            body = _closed(J.Jaxpr([], [cst, car, xv], [J.Eqn(J.cond_p, [cst, xv], [d], inner)], [car, d]))
            self.T = fresh("T", z3.IntSort())
            engine().assume(self.T >= 1)
            k, c0, xs, fc, ys = (J.Var(n) for n in ("k", "c0", "xs", "fc", "ys"))
            self.vc0 = value("carry0")
            self.vxs = Tensor.fresh("xs", (self.T,), V)
            params = {"jaxpr": body, "length": Sym(self.T), "reverse": False, "unroll": 1, "num_consts": 1, "num_carry": 1, "linear": None}
            jp = J.Jaxpr([], [k, c0, xs], [J.Eqn(J.scan_p, [k, c0, xs], [fc, ys], params)], [fc, ys])
            return self.real(self.it.eval_jaxpr_seed, jp, [], [self.vi, self.vc0, self.vxs])
        j2, u2, o2 = J.Var("j2"), J.Var("u2"), J.Var("o2")
        outer_branch = _closed(J.Jaxpr([], [j2, u2], [J.Eqn(J.cond_p, [j2, u2], [o2], inner)], [o2]))
        i, j, x, o = J.Var("i"), J.Var("j"), J.Var("x"), J.Var("o")
        self.vj, self.vx = Sym(fresh("idx_outer", z3.IntSort())), value("x")
        jp = J.Jaxpr([], [j, i, x], [J.Eqn(J.cond_p, [j, i, x], [o], {"branches": (outer_branch, outer_branch)})], [o])
        return self.real(self.it.eval_jaxpr_seed, jp, [], [self.vj, self.vi, self.vx])

    def ensures(self, case, path):
        yield "does_not_raise", path.outcome == "return"
        if path.outcome != "return":
            return
        k0 = self.k0.e
        yield "enclosing_control_flow_consumes_a_sub_key(interpreter_key_advanced)", same(self.it.key, Sym(Key.L(k0)))
        for nm, s in (("first", self.sA), ("second", self.sB)):
            yield f"{nm}_inner_site_is_evaluated_by_its_keyed_sampler(never_rebound)", len(s.calls) >= 1 and not s.binds
            for n, (key, args, _) in enumerate(s.calls[:2]):
                ke = _lift(key)
                if case.startswith("scan"):
                    # scan induction on the carried key (as in the scan step contract): Inv(t): carried key = sub-key of
                    # the caller's key; base case below; the site key is read under Inv(t)
                    scans = path.extra.get("scans", [])
                    if len(scans) != 1:
                        yield "one_scan", False
                        continue
                    rec = scans[0]
                    ck = _lift(rec["carry_at"](rec["t"])[0])
                    ke = z3.substitute(ke, (ck, Key.R(k0)))
                    yield f"{nm}:carried_key_initialised_with_a_sub_key_of_the_callers_key", same(rec["init"][0], Sym(Key.R(k0)))
                    yield f"{nm}:carried_key_unchanged", same(rec["new_carry"][0], rec["carry_at"](rec["t"])[0])
                yield f"{nm}_inner_site_key_{n}_derives_from_the_callers_key(not_from_the_placeholder_key)", J.mentions(ke, k0) and not J.key_uses_tainted(ke)
        yield "no_hidden_randomness", self.taint.touched == 0 and not outputs_tainted([o for o in path.value if isinstance(o, Sym)])


@contract("genjax.pjax:seed", ["C06"])
class SeedWrapperHistory(_SeedStep):
    """call history: ONE kept wrapper g = seed(f) called with differently STRUCTURED arguments whose leaves have
    identical types (a None in another optional slot, another keyword name).  f's staged program depends on that
    structure; every call must run the program of ITS OWN arguments: the result equals what a fresh wrapper returns
    for the same key and arguments, whatever was called before"""

    cases = ["none_in_another_slot", "another_keyword_name"]

    def call(self, case):
        self.taint = install_taint()
        self.siteA, self.siteB = Site(name="A"), Site(name="B")

        def program(site):
            x, s, o = J.Var("x"), J.Var("s"), J.Var("o")
            return _closed(J.Jaxpr([], [x, s], [J.Eqn(site.prim, [x, s], [o])], [o]))

        pa, pb = program(self.siteA), program(self.siteB)

        def f(*a, **k):
            raise EngineLimit("f's body is represented by its Jaxpr")

        if case == "none_in_another_slot":
            f.__vt_jaxpr_fn__ = lambda args, kwargs: pa if args[1] is None else pb
            self.vx, self.vs = value("x"), value("s")
            first, second = ((self.vx, None, self.vs), {}), ((self.vx, self.vs, None), {})
        else:
            f.__vt_jaxpr_fn__ = lambda args, kwargs: pa if "shift" in kwargs else pb
            self.vx, self.vs = value("x"), value("s")
            first, second = ((self.vx,), {"shift": self.vs}), ((self.vx,), {"scale": self.vs})
        self.k1, self.k2 = J.key_const("k1"), J.key_const("k2")
        g = pjax.seed(f)
        r_first = self.real(g, self.k1, *first[0], **first[1])
        r_second = self.real(g, self.k2, *second[0], **second[1])
        r_fresh = self.real(pjax.seed(f), self.k2, *second[0], **second[1])
        return r_first, r_second, r_fresh

    def ensures(self, case, path):
        yield "does_not_raise", path.outcome == "return"
        if path.outcome != "return":
            return
        r_first, r_second, r_fresh = path.value
        want = Sym(DrawK(z3.IntVal(self.siteB.id * 10), Key.R(self.k2.e), enc((self.vx, self.vs))))
        yield "second_call_runs_the_program_of_its_own_arguments", same(r_second[0], want)
        yield "result_does_not_depend_on_the_call_history(kept wrapper = fresh wrapper)", z3.eq(_lift(r_second[0]), _lift(r_fresh[0]))
        yield "no_hidden_randomness", self.taint.touched == 0 and not outputs_tainted([r_first[0], r_second[0], r_fresh[0]])


@contract("genjax.pjax:Seed.eval", ["C06", "C07"])
class SeedEval(_SeedStep):
    """Seed.eval(fn, *args, **kwargs): fn is staged on exactly (args, kwargs); the Jaxpr is interpreted with its
    literals as constants and the flat arguments in order, keyed by this interpreter's key; the flat results are
    rebuilt with fn's output tree"""

    cases = ["args_and_kwargs"]

    def call(self, case):
        self.taint = install_taint()
        self.site = Site(name="site")
        c, x, y, o = J.Var("c"), J.Var("x"), J.Var("y"), J.Var("o")
        self.lit = value("lit")
        closed = _closed(J.Jaxpr([c], [x, y], [J.Eqn(self.site.prim, [c, x, y], [o])], [o, x]), [self.lit])

        def f(*a, **k):
            raise EngineLimit("f's body is represented by its Jaxpr")

        f.__vt_jaxpr__ = closed
        import jax.tree_util as jtu

        f.__vt_out_tree__ = jtu.tree_structure({"draw": 0, "echo": 0})
        self.f = f
        self.k0 = J.key_const("k0")
        self.vx, self.vy = value("x"), value("y")
        n0 = len(STAGE.calls)
        it = interp(self.k0)
        out = self.real(it.eval, f, self.vx, scale=self.vy)
        self.staged = STAGE.calls[n0:]
        self.it = it
        return out

    def ensures(self, case, path):
        yield "does_not_raise", path.outcome == "return"
        if path.outcome != "return":
            return
        out = path.value
        st = self.staged
        yield "fn_staged_once_on_exactly_the_given_arguments", len(st) == 1 and st[0][0] is self.f and st[0][1] == (self.vx,) and set(st[0][2]) == {"scale"} and st[0][2]["scale"] is self.vy
        yield "site_keyed_below_the_interpreters_key_with_literals_then_flat_arguments", len(self.site.calls) == 1 and same(self.site.calls[0][0], Sym(Key.R(self.k0.e))) and [a for a in self.site.calls[0][1]] == [self.lit, self.vx, self.vy]
        yield "result_rebuilt_with_the_output_tree", isinstance(out, dict) and set(out) == {"draw", "echo"} and out["echo"] is self.vx
        yield "no_hidden_randomness", self.taint.touched == 0 and not outputs_tainted([v for v in out.values() if isinstance(v, Sym)] if isinstance(out, dict) else [])


@contract("lemma:seed_key_discipline", ["C07", "C06"], kind="lemma")
class KeyDiscipline(Contract):
    """loop invariant of the equation loop over ghost set Consumed (keys handed to a sampler or delegated
    to a nested interpreter): the current key and every consumed key are pairwise incomparable in the
    derivation tree (no key is an ancestor of another), hence the consumed set is prefix-free.
    Step (from the step contracts): consumed' = consumed + {R(key)}, key' = L(key)."""

    cases = ["step", "nested_roots", "scan_iterations"]

    def call(self, case):
        return None

    def ensures(self, case, path):
        anc = z3.Function("anc", Key, Key, z3.BoolSort())  # ancestor-or-equal in the derivation tree
        k, c, c2 = z3.Consts("key c c2", Key)
        t1, t2 = z3.Ints("t1 t2")

        def child_axioms(a, child, parent):
            # anc(a, child) <=> a = child \/ anc(a, parent);  anc(child, b) => anc(parent, b) is by transitivity
            return [anc(a, child) == z3.Or(a == child, anc(a, parent))]

        inc = lambda a, b: z3.And(z3.Not(anc(a, b)), z3.Not(anc(b, a)))
        Rk, Lk = Key.R(k), Key.L(k)
        ax = []
        for a in (c, Rk, Lk, k):
            ax += child_axioms(a, Rk, k) + child_axioms(a, Lk, k)
        ax += [anc(k, k), z3.Implies(z3.And(anc(Rk, c), True), anc(k, c)), z3.Implies(anc(Lk, c), anc(k, c))]
        ax += [Rk != Lk, z3.Not(anc(Rk, k)), z3.Not(anc(Lk, k))]  # acyclic free algebra
        if case == "step":
            hyp = z3.And(*ax, inc(c, k))
            yield "old_consumed_incomparable_to_new_consumed", z3.Implies(hyp, inc(c, Rk))
            yield "old_consumed_incomparable_to_new_key", z3.Implies(hyp, inc(c, Lk))
            yield "new_consumed_incomparable_to_new_key", z3.Implies(z3.And(*ax), inc(Rk, Lk))
        elif case == "nested_roots":
            # a nested interpreter rooted at the delegated key d consumes only strict descendants of d;
            # they are incomparable to everything incomparable to d
            d, e = z3.Consts("d e", Key)
            hyp = [inc(c, d), anc(d, e), z3.ForAll([c2], z3.Implies(anc(c2, e), z3.Or(anc(c2, d), anc(d, c2)))),
                   z3.ForAll([c2], z3.Implies(z3.And(anc(e, c2), anc(d, e)), anc(d, c2)))]
            yield "descendants_of_delegated_key_incomparable_to_outside", z3.Implies(z3.And(*hyp), inc(c, e))
        else:
            yield "fold_in_roots_distinct_for_distinct_iterations", z3.Implies(t1 != t2, Key.F(k, t1) != Key.F(k, t2))
            yield "fold_in_root_differs_from_split_halves", z3.And(Key.F(k, t1) != Key.L(k), Key.F(k, t1) != Key.R(k))

from vt.contract import track as _track  # noqa: E402

_track(STAGE.calls, J.cond_p.binds, J.scan_p.binds)

from vt.contract import canary as _canary  # noqa: E402

_canary(SeedSampleStep, "sample_p", "site_key_is_second_half_of_split")
_canary(SeedSequence, "sample;det;sample", "site_keys_distinct")
