"""ADEV: the remaining functions C11 / C15 / C17 rest on, put under contract — the Dual tree helpers (mutually inverse
on pytrees), the zero-tangent helpers, the primitives' keyless / keyed samplers (the draw made under `seed` must follow
the same distribution as the keyless draw and as the density the estimator differentiates), the keyed helper samplers,
`reinforce`, `expectation`, `ADEVPrimitive.__call__` and the primal of the custom-JVP bridge."""
from __future__ import annotations

import z3

from vt import loader
from vt.contract import Contract, contract
from vt.stubs import autodiff as AD
from vt.stubs.ns import StubNS
from vt.sym import EngineLimit, Sym, boolean, engine, fresh, real, value
from vt.tensor import Tensor
from . import adev as A  # noqa: F401  (patches the module's dependencies)
from .distributions import KEY, RecTfd
from .extra2 import patched

adev = A.adev
core = loader.load("core")
Dual = adev.Dual


class _NoReplay(Contract):
    def replay(self, case, clause, model, path):
        from .native import run_native

        return run_native("adev_native", "estimate")


# ------------------------------------------------------------------------------------------------
# Dual tree helpers


@contract("genjax.adev:Dual.dual_tree", ["C15", "C11"])
class DualTreeHelpers(_NoReplay):
    """dual_tree / tree_primal / tree_tangent / tree_unzip / tree_leaves on a pytree argument (dict inside a tuple):
    pairing leaf-wise, projections inverse to the pairing, flat orders of primals and tangents aligned"""

    cases = ["pytree"]

    def call(self, case):
        self.p = ({"a": real("pa"), "b": Tensor.fresh("pb", (3,))}, real("pc"))
        self.t = ({"a": real("ta"), "b": Tensor.fresh("tb", (3,))}, real("tc"))
        d = self.real(Dual.dual_tree, self.p, self.t)
        return d, self.real(Dual.tree_primal, d), self.real(Dual.tree_tangent, d), self.real(Dual.tree_unzip, d), self.real(Dual.tree_leaves, d), self.real(Dual.static_check_dual_tree, d), self.real(Dual.static_check_dual_tree, (d, real("bare")))

    def ensures(self, case, path):
        yield "does_not_raise", path.outcome == "return"
        if path.outcome != "return":
            return
        d, pr, tg, (fp, ft), leaves, all_dual, not_all = path.value
        p, t = self.p, self.t
        ok = isinstance(d, tuple) and isinstance(d[0], dict) and all(isinstance(x, Dual) for x in (d[0]["a"], d[0]["b"], d[1]))
        yield "dual_tree_pairs_leafwise_keeping_the_structure", ok and d[0]["a"].primal is p[0]["a"] and d[0]["a"].tangent is t[0]["a"] and d[0]["b"].primal is p[0]["b"] and d[0]["b"].tangent is t[0]["b"] and d[1].primal is p[1] and d[1].tangent is t[1]
        yield "tree_primal_inverts_the_pairing", pr[0]["a"] is p[0]["a"] and pr[0]["b"] is p[0]["b"] and pr[1] is p[1]
        yield "tree_tangent_inverts_the_pairing", tg[0]["a"] is t[0]["a"] and tg[0]["b"] is t[0]["b"] and tg[1] is t[1]
        yield "tree_unzip_gives_aligned_flat_primals_and_tangents", tuple(fp) == (p[0]["a"], p[0]["b"], p[1]) and all(x is y for x, y in zip(fp, (p[0]["a"], p[0]["b"], p[1]))) and all(x is y for x, y in zip(ft, (t[0]["a"], t[0]["b"], t[1]))) and len(ft) == 3
        yield "tree_leaves_are_the_dual_leaves_in_order", len(leaves) == 3 and leaves[0] is d[0]["a"] and leaves[2] is d[1]
        yield "static_check_accepts_all_dual_rejects_a_bare_leaf", all_dual is True and not_all is False


@contract("genjax.adev:_zero_tangent_like", ["C15", "C11"])
class ZeroTangentHelpers(_NoReplay):
    """zero tangents have the tangent TYPE of their primal (float zeros for floats, float0 for integers / booleans,
    same shape); symbolic Zero and float0 tangents are recognised; instantiation replaces exactly the symbolic zeros"""

    cases = ["default"]

    def call(self, case):
        self.xf, self.xv, self.xi, self.xb = real("x"), Tensor.fresh("v", (4,)), Sym(fresh("i", z3.IntSort())), boolean("b")
        z = [self.real(adev._zero_tangent_like, v) for v in (self.xf, self.xv, self.xi, self.xb)]
        zero = AD.Zero(self.xf)
        self.keep = real("t")
        inst = self.real(adev._instantiate_zero_tangents, {"z": zero, "k": self.keep})
        flags = (self.real(adev._is_ad_zero, zero), self.real(adev._is_ad_zero, self.keep), self.real(adev._is_float0_tangent, AD.Float0(())), self.real(adev._is_float0_tangent, self.keep),
                 self.real(adev._is_float0_tangent, object()))
        dz = self.real(adev._discrete_zero_tangent, self.xb)
        return z, inst, flags, dz

    def ensures(self, case, path):
        yield "does_not_raise", path.outcome == "return"
        if path.outcome != "return":
            return
        z, inst, flags, dz = path.value
        yield "float_scalar_gets_a_float_zero", isinstance(z[0], Sym) and AD.is_zero_tangent(z[0]) and not isinstance(z[0], AD.Float0)
        yield "float_array_gets_float_zeros_of_its_shape", isinstance(z[1], Tensor) and z[1].ndim == 1 and z[1].shape[0] == 4 and AD.is_zero_tangent(z[1])
        yield "integer_and_boolean_primals_get_float0_tangents", isinstance(z[2], AD.Float0) and isinstance(z[3], AD.Float0) and isinstance(dz, AD.Float0)
        yield "instantiate_replaces_exactly_the_symbolic_zeros", AD.is_zero_tangent(inst["z"]) and not isinstance(inst["z"], AD.Zero) and inst["k"] is self.keep
        yield "zero_and_float0_recognised(non_JAX_values_are_not_float0)", tuple(bool(f) for f in flags) == (True, False, True, False, False)


# ------------------------------------------------------------------------------------------------
# keyless sampler, keyed sampler and estimator of one primitive denote ONE distribution

# class -> (keyless genjax distribution the `sample` method must use, TFP class of the keyed sampler, parameter binding)
PRIMS = {
    "FlipEnum": ("flip", "Bernoulli", ("probs",), {"dtype": "bool"}),
    "FlipMVD": ("flip", "Bernoulli", ("probs",), {"dtype": "bool"}),
    "FlipEnumParallel": ("flip", "Bernoulli", ("probs",), {"dtype": "bool"}),
    "CategoricalEnumParallel": ("categorical", "Categorical", ("logits",), {}),
    "NormalREPARAM": ("normal", "Normal", ("loc", "scale"), {}),
    "UniformREPARAM": ("uniform", "Uniform", ("low", "high"), {}),
    "MultivariateNormalREPARAM": ("multivariate_normal", "MultivariateNormalFullCovariance", ("loc", "covariance_matrix"), {}),
    "MultivariateNormalDiagREPARAM": (None, "MultivariateNormalDiag", ("loc", "scale_diag"), {}),
}


class _RecDist:
    def __init__(self, name, log):
        self.name, self.log = name, log

    def sample(self, *a, **k):
        self.log.append((self.name, a, k))
        return "draw"


@contract("genjax.adev:<primitive samplers>", ["C11", "C17", "C13"])
class PrimitiveSamplers(_NoReplay):
    """for every estimator primitive: `sample(*args)` draws from the matching genjax distribution on exactly the
    arguments, and `sample_with_key(key, *args, sample_shape=S)` - the draw made under seed / modular_vmap - constructs
    the SAME TFP distribution with the arguments bound to the same documented parameters and samples it with that key
    and shape (never a keyless draw)"""

    target = "genjax.adev:<primitive samplers>"
    cases = sorted(PRIMS)

    def __init__(self):
        self.mod = self.owner = self.fn = None

    def call(self, case):
        A.reset()
        dist_name, cls_name, params, extra = PRIMS[case]
        prim = getattr(adev, case)()
        self.args = tuple(value("arg_" + n) for n in params)
        self.dlog, self.tlog = [], []
        stubs = {n: _RecDist(n, self.dlog) for n in ("flip", "categorical", "normal", "uniform", "multivariate_normal")}
        S_ = (Sym(fresh("s0", z3.IntSort())),)
        self.S_ = S_
        with patched(adev, tfd=RecTfd(self.tlog), **stubs):
            if dist_name is not None:
                r1 = self.real(prim.sample, *self.args)
            else:
                r1 = None
            n_keyless = len(self.dlog)
            r2 = self.real(prim.sample_with_key, KEY, *self.args, sample_shape=S_)
        self.n_keyless = n_keyless
        return r1, r2

    def ensures(self, case, path):
        yield "does_not_raise", path.outcome == "return"
        if path.outcome != "return":
            return
        dist_name, cls_name, params, extra = PRIMS[case]
        r1, r2 = path.value
        if dist_name is not None:
            yield "keyless_sample_is_the_matching_genjax_distribution_on_exactly_the_arguments", self.n_keyless == 1 and self.dlog[0][0] == dist_name and len(self.dlog[0][1]) == len(self.args) and all(a is b for a, b in zip(self.dlog[0][1], self.args)) and not self.dlog[0][2] and r1 == "draw"
        yield "keyed_sample_makes_no_keyless_draw", len(self.dlog) == self.n_keyless
        ct = [e for e in self.tlog if e[0] == "ctor"]
        yield "keyed_sample_constructs_one_TFP_distribution_of_the_matching_class", len(ct) == 1 and ct[0][1] == cls_name
        if len(ct) == 1 and ct[0][1] == cls_name:
            from .distributions import RecCtor

            b = RecCtor([], cls_name).bound(ct[0][2], ct[0][3])
            ok = True
            for kk, vv in extra.items():
                ok = ok and vv in str(b.pop(kk, None))
            yield "arguments_bound_to_the_documented_parameters", ok and set(b) == set(params) and all(b[n] is a for n, a in zip(params, self.args))
        sc = [e for e in self.tlog if e[0] == "sample"]
        yield "sampled_with_the_given_key_and_sample_shape", len(sc) == 1 and sc[0][3].get("seed") is KEY and sc[0][3].get("sample_shape") == self.S_ and r2 == "draw"


HELPERS = {
    "_bernoulli_keyful_sample": ("Bernoulli", ("probs",), {"dtype": "bool"}),
    "_geometric_keyful_sample": ("Geometric", ("logits",), {}),
    "_normal_keyful_sample": ("Normal", ("loc", "scale"), {}),
    "_uniform_keyful_sample": ("Uniform", ("low", "high"), {}),
    "_multivariate_normal_keyful_sample": ("MultivariateNormalFullCovariance", ("loc", "covariance_matrix"), {}),
}


@contract("genjax.adev:<keyed helper samplers>", ["C11", "C13", "C17"])
class KeyedHelpers(_NoReplay):
    """the keyed samplers handed to `reinforce(...)`: same TFP class and the same positional binding as the genjax
    distribution whose keyless sampler and density they are paired with (C13 table); sampled with the given key/shape"""

    target = "genjax.adev:<keyed helper samplers>"
    cases = sorted(HELPERS)

    def __init__(self):
        self.mod = self.owner = self.fn = None

    def call(self, case):
        cls_name, params, extra = HELPERS[case]
        self.args = tuple(value("arg_" + n) for n in params)
        self.tlog = []
        self.S_ = (Sym(fresh("s0", z3.IntSort())),)
        with patched(adev, tfd=RecTfd(self.tlog)):
            return self.real(getattr(adev, case), KEY, *self.args, sample_shape=self.S_)

    def ensures(self, case, path):
        yield "does_not_raise", path.outcome == "return"
        if path.outcome != "return":
            return
        from .distributions import LAMBDA_SPEC, SPEC, RecCtor

        cls_name, params, extra = HELPERS[case]
        ct = [e for e in self.tlog if e[0] == "ctor"]
        yield "constructs_the_TFP_class_of_the_paired_distribution", len(ct) == 1 and ct[0][1] == cls_name
        if len(ct) == 1 and ct[0][1] == cls_name:
            b = RecCtor([], cls_name).bound(ct[0][2], ct[0][3])
            ok = True
            for kk, vv in extra.items():
                ok = ok and vv in str(b.pop(kk, None))
            yield "arguments_bound_like_the_paired_distribution", ok and set(b) == set(params) and all(b[n] is a for n, a in zip(params, self.args))
        base = {"_bernoulli_keyful_sample": "flip", "_geometric_keyful_sample": "geometric", "_normal_keyful_sample": "normal", "_uniform_keyful_sample": "uniform", "_multivariate_normal_keyful_sample": "multivariate_normal"}[case]
        spec = SPEC.get(base) or (LAMBDA_SPEC[base][0], (LAMBDA_SPEC[base][1],))
        yield "agrees_with_the_C13_table_of_the_paired_distribution", spec[0] == cls_name and tuple(spec[1]) == tuple(params)
        sc = [e for e in self.tlog if e[0] == "sample"]
        yield "sampled_with_the_given_key_and_sample_shape", len(sc) == 1 and sc[0][3].get("seed") is KEY and sc[0][3].get("sample_shape") == self.S_ and path.value == "draw"


# ------------------------------------------------------------------------------------------------
# constructors and plumbing


@contract("genjax.adev:reinforce", ["C11", "C17"])
class ReinforceFactory(_NoReplay):
    """reinforce(sample, logpdf, keyed) stores exactly these callables; REINFORCE.sample / sample_with_key forward to
    them; WITHOUT a keyed sampler the primitive refuses keyed sampling (it never falls back to a keyless draw)"""

    cases = ["with_keyed_sampler", "without_keyed_sampler"]

    def call(self, case):
        self.calls = []
        self.s = lambda *a: self.calls.append(("s", a)) or "draw"
        self.l = lambda *a: None
        self.k = lambda key, *a, sample_shape=(): self.calls.append(("k", key, a, sample_shape)) or "kdraw"
        prim = self.real(adev.reinforce, self.s, self.l, self.k if case == "with_keyed_sampler" else None)
        self.prim = prim
        self.a = value("a")
        r1 = self.real(prim.sample, self.a)
        r2 = self.real(prim.sample_with_key, KEY, self.a, sample_shape=(2,))
        return r1, r2

    def ensures(self, case, path):
        p = self.prim
        ok_fields = isinstance(p, adev.REINFORCE) and p.sample_function.value is self.s and p.differentiable_logpdf.value is self.l
        yield "stores_the_given_sampler_and_density", ok_fields
        if case == "with_keyed_sampler":
            yield "does_not_raise", path.outcome == "return"
            if path.outcome == "return":
                yield "stores_the_keyed_sampler", p.keyful_sample_function.value is self.k
                yield "sample_forwards_to_the_keyless_sampler", path.value[0] == "draw" and self.calls[0] == ("s", (self.a,))
                yield "sample_with_key_forwards_key_arguments_and_shape", path.value[1] == "kdraw" and len(self.calls) == 2 and self.calls[1][0] == "k" and self.calls[1][1] is KEY and self.calls[1][2] == (self.a,) and self.calls[1][3] == (2,)
        else:
            yield "keyed_sampling_raises_NotImplementedError", path.outcome == "raise" and isinstance(path.value.exc, NotImplementedError)
            yield "no_keyless_fallback_draw", [c for c in self.calls if c[0] == "s"] == [("s", (self.a,))]


@contract("genjax.adev:expectation", ["C11", "C15", "C17"])
class ExpectationDecorator(_NoReplay):
    """@expectation wraps exactly the given function: Expectation(ADEVProgram(Const(source)))"""

    cases = ["default"]

    def call(self, case):
        self.src = lambda x: x
        return self.real(adev.expectation, self.src)

    def ensures(self, case, path):
        yield "does_not_raise", path.outcome == "return"
        if path.outcome == "return":
            e = path.value
            yield "Expectation_over_an_ADEVProgram_of_the_source", isinstance(e, adev.Expectation) and isinstance(e.prog, adev.ADEVProgram) and e.prog.source.value is self.src


@contract("genjax.adev:ADEVPrimitive.__call__", ["C11", "C06"])
class PrimitiveCall(_NoReplay):
    """prim(*args) is a sample SITE of this primitive (sample_primitive), and the base class refuses keyed sampling
    instead of inventing randomness"""

    cases = ["default"]

    def call(self, case):
        self.rec = []
        self.prim = adev.FlipEnum()
        self.a = value("p")
        with patched(adev, sample_primitive=lambda prim, *a: self.rec.append((prim, a)) or "site"):
            r = self.real(adev.ADEVPrimitive.__call__, self.prim, self.a)
        try:
            adev.ADEVPrimitive.sample_with_key(self.prim, KEY, self.a)
            base = "no error"
        except NotImplementedError:
            base = "NotImplementedError"
        return r, base

    def ensures(self, case, path):
        yield "does_not_raise", path.outcome == "return"
        if path.outcome == "return":
            yield "call_is_a_sample_site_of_this_primitive_on_the_arguments", path.value[0] == "site" and len(self.rec) == 1 and self.rec[0][0] is self.prim and self.rec[0][1] == (self.a,)
            yield "base_class_keyed_sampling_raises", path.value[1] == "NotImplementedError"


@contract("genjax.adev:invoke_closed_over", ["C11", "C15"])
class InvokeClosedOver(_NoReplay):
    """primal of the custom-JVP bridge: instance.estimate(*args)"""

    cases = ["default"]

    def call(self, case):
        f = adev.invoke_closed_over
        f = getattr(f, "fun", None) or getattr(f, "__wrapped__", None) or f
        if not callable(f) or type(f).__name__ == "custom_jvp":
            raise EngineLimit("cannot reach the function under jax.custom_jvp")
        self.rec = []
        inst = StubNS(estimate=lambda *a: self.rec.append(a) or "value")
        self.a, self.b = value("a"), value("b")
        return self.real(f, inst, (self.a, self.b))

    def ensures(self, case, path):
        yield "does_not_raise", path.outcome == "return"
        if path.outcome == "return":
            yield "is_estimate_of_the_unpacked_arguments", path.value == "value" and self.rec == [(self.a, self.b)] and self.rec[0][0] is self.a


@contract("genjax.adev:_first_leaf", ["C11"])
class FirstLeaf(_NoReplay):
    cases = ["default"]

    def call(self, case):
        self.a, self.b = value("a"), value("b")
        return self.real(adev._first_leaf, [self.a, {"k": self.b}])

    def ensures(self, case, path):
        yield "does_not_raise", path.outcome == "return"
        if path.outcome == "return":
            yield "first_leaf_in_flatten_order", path.value is self.a


@contract("genjax.adev:_multivariate_normal_diag_logpdf", ["C11", "C17"])
class MvnDiagLogpdf(_NoReplay):
    """density paired with multivariate_normal_diag_reparam: MultivariateNormalDiag(loc, scale_diag).log_prob(v), summed
    over batch entries (joint density of a batch)"""

    cases = ["default"]

    def call(self, case):
        self.tlog = []
        self.v, self.loc, self.sd = value("v"), value("loc"), value("scale_diag")
        with patched(adev, tfd=RecTfd(self.tlog)):
            try:
                return self.real(adev._multivariate_normal_diag_logpdf, self.v, self.loc, self.sd)
            except EngineLimit:
                return "undecided-shape"

    def ensures(self, case, path):
        yield "does_not_raise", path.outcome == "return"
        if path.outcome != "return":
            return
        from .distributions import RecCtor

        ct = [e for e in self.tlog if e[0] == "ctor"]
        yield "constructs_MultivariateNormalDiag", len(ct) == 1 and ct[0][1] == "MultivariateNormalDiag"
        if len(ct) == 1 and ct[0][1] == "MultivariateNormalDiag":
            b = RecCtor([], "MultivariateNormalDiag").bound(ct[0][2], ct[0][3])
            yield "bound_to_loc_and_scale_diag", set(b) == {"loc", "scale_diag"} and b["loc"] is self.loc and b["scale_diag"] is self.sd
        lc = [e for e in self.tlog if e[0] == "log_prob"]
        yield "log_prob_of_the_value", len(lc) == 1 and lc[0][2][0] is self.v
