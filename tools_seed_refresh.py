#!/usr/bin/env python3
"""Re-run the registered checks against every seeded change (scratch copy of /repo/src + patch) and refresh the
'checks_run_against_it' / 'detected_by' fields of seeded/<id>/meta.json."""
import concurrent.futures as cf, glob, json, os, shutil, subprocess, sys, tempfile
ROOT = os.path.dirname(os.path.abspath(__file__))
PY = os.path.join(ROOT, ".venv/bin/python")

def one(pid):
    d = os.path.join(ROOT, "seeded", pid)
    meta = json.load(open(os.path.join(d, "meta.json")))
    tmp = tempfile.mkdtemp(prefix="seedchk")
    try:
        shutil.copytree("/repo/src", os.path.join(tmp, "src"))
        r = subprocess.run(["patch", "-p1", "-s", "-i", os.path.join(d, "patch.diff")], cwd=tmp, capture_output=True, text=True)
        if r.returncode != 0:
            # a seed whose patch no longer applies (the repository moved on, e.g. a fix: commit touched the same lines)
            # is not claimed as detected until it has been rebased and re-confirmed
            meta["patch_applies_to_current_HEAD"] = False
            meta["detected_by"] = []
        else:
            meta["patch_applies_to_current_HEAD"] = True
            res = {}
            for c in meta["checks_run_against_it"]:
                env = dict(os.environ, GENJAX_REPO=tmp, PYTHONDONTWRITEBYTECODE="1", JAX_PLATFORMS="cpu")
                out = subprocess.run([PY, "-m", "vt.runner", c, "--tier", "quick", "--only", "genjax"], cwd=ROOT, env=env, capture_output=True, text=True)
                obs = [l.split("obligation=")[1].split(" no-failing")[0].strip() for l in out.stdout.splitlines() if l.startswith("VIOLATION")]
                res[c] = {"exit": out.returncode, "violated_obligations": obs}
            meta["checks_run_against_it"] = res
            meta["detected_by"] = [c for c in res if res[c]["exit"] == 1]
        json.dump(meta, open(os.path.join(d, "meta.json"), "w"), indent=1)
        return pid, meta.get("detected_by")
    finally:
        shutil.rmtree(tmp, ignore_errors=True)

if __name__ == "__main__":
    pids = sys.argv[1:] or sorted(os.path.basename(p) for p in glob.glob(os.path.join(ROOT, "seeded", "C*")))
    with cf.ThreadPoolExecutor(max_workers=8) as ex:
        for pid, det in ex.map(one, pids):
            print(pid, "detected by", det)
