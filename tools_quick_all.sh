#!/bin/bash
# run the quick tier of all properties against /repo, 6 at a time; prints the summary line of each and exit codes
cd /verif
printf '%s\n' C01 C02 C03 C04 C05 C06 C07 C08 C09 C10 C11 C12 C13 C14 C15 C16 C17 C18 C19 C20 | xargs -P 6 -I{} sh -c './check {} > /tmp/quick_{}.log 2>&1; echo "{} rc=$? $(tail -1 /tmp/quick_{}.log)"' | sort
